import Pi2.EndToEnd
import Pi2.Props.C01
import Pi2.Props.C05
import Pi2.Props.C16
/-!
# C16 (end to end) — the translated Metamath pipeline's output is accepted by the checker as written

The chain, every link an existing theorem, composed here:

1. `mmVerify` accepts a compressed proof over a well-formed database ⇒ `translateFull` (the model of
   `TranslatedProofSkeleton.execute_full`: Γ phase, claim phase, `exec_proof`) returns a state and a history of calls, every
   claim discharged (`C16.translation_succeeds`);
2. ⇒ the history replays on the tracker/serializer model (`trackAll`) to three instruction lists `g`, `c`, `p` which the
   reference machine accepts, publishing the images of the database's axioms and the image of the target
   (`C16.translation_accepted`, under `CanonCalls`);
3. the bytes the serializer methods **as written** (`Gen.Ser.w_*`) write along that history are `encode g`, `encode c`,
   `encode p` (`EndToEnd.writeAll_of_trackAll`);
4. the model checker on bytes (`verifyBytes`) accepts them with the same journal (`EndToEnd.verifyBytes_encode`);
5. ⇒ `verify` of `rust/src/lib.rs` **as written** (`Gen.Rust.verify`) accepts them, from every initial content of its
   registers (`EndToEnd.rust_accepts_encode`, i.e. `RustExecTie.verify_eq`);
6. ⇒ (`C01.rust_verify_text_sound`) the image of the Metamath target is valid in every model of the images of the
   database's axioms.

From the text side (`translation_text_…`): a database of the shape `MM.ConvSpec.FragmentShape` (decidable, on the statements
alone) whose proof the Metamath verifier accepts; `MetamathConverter` **as written** returns a converter object on it and
`exec_proof` **as written**, run on that object after the Γ and claim phases, returns the history of step 1
(`C16.translation_text_is_the_model_of_shape`).  The Γ and claim phases (`translateFull.pub`, `patternF`) are the model's —
there is no translated text of `TranslatedProofSkeleton.execute_full` to start from.

As in C02c, acceptance needs no hypothesis on the size of the numbers written (`decode`/`encode` and both checkers are total
on `List Nat`); `Wire` is only what makes the streams images of `List UInt8` (`translation_u8_accepted`).
-/
set_option linter.unusedVariables false
namespace C16
open MM PySt EndToEnd

/-- the conclusion of the end-to-end theorems: the history `calls` replays from the initial state (one claim: the image
of the target) to the state `s` and three instruction lists; the translated serializer methods write their encodings; the
model checker on bytes accepts these and publishes the images of the database's axioms and of the target; the translated
Rust `verify` accepts them from every register state -/
def TranslationBytesAccepted (n : Nat) (db : DB) (goal : MM.Term) (s : PySt) (calls : List Call)
    (g c p : List Instr) : Prop :=
  PySt.trackAll n (PySt.init [image db goal]) calls ([], [], []) = some (some (s, (g, c, p))) ∧
  writeAll n (PySt.init [image db goal]) calls ([], [], []) = some (some (s, (encode g, encode c, encode p))) ∧
  verifyBytes (encode g) (encode c) (encode p)
    = some (db.axiomImages.map NPat.expand, [(image db goal).expand]) ∧
  Gen.Rust.execTranslated = true ∧
  ∀ r0 : RustExec.RSt, (Gen.Rust.verify (encode g) (encode c) (encode p) r0).isSome = true

theorem bytesAccepted_of_verify {n : Nat} {db : DB} {goal : MM.Term} {s : PySt} {calls : List Call} {g c p : List Instr}
    (hT : PySt.trackAll n (PySt.init [image db goal]) calls ([], [], []) = some (some (s, (g, c, p))))
    (hv : verify g c p = some (db.axiomImages.map NPat.expand, [(image db goal).expand])) :
    TranslationBytesAccepted n db goal s calls g c p := by
  refine ⟨hT, writeAll_of_trackAll_init n calls _ s g c p hT, ?_, (C05.rust_verify_is_the_model [] [] [] default).1,
    fun r0 => rust_accepts_encode g c p _ hv r0⟩
  rw [verifyBytes_encode, hv]

/-- what acceptance by the Rust text gives, with `C01.rust_verify_text_sound`: the image of the target is valid in every
model of the images of the database's axioms -/
theorem sound_of_translationBytesAccepted {n : Nat} {db : DB} {goal : MM.Term} {s : PySt} {calls : List Call}
    {g c p : List Instr} (h : TranslationBytesAccepted n db goal s calls g c p)
    (𝔐 : Model) (hΓ : ∀ a ∈ db.axiomImages, ValidM 𝔐 a.expand) : ValidM 𝔐 (image db goal).expand := by
  obtain ⟨_, _, hvb, _, hr⟩ := h
  obtain ⟨_, axs, cls, hv, hsound⟩ := C01.rust_verify_text_sound (encode g) (encode c) (encode p) default (hr default)
  rw [hvb] at hv
  simp only [Option.some.injEq, Prod.mk.injEq] at hv
  obtain ⟨rfl, rfl⟩ := hv
  apply hsound 𝔐
  · intro a ha
    simp only [List.mem_map] at ha
    obtain ⟨a0, h0, rfl⟩ := ha
    exact hΓ a0 h0
  · simp

/-! ## 1. under the hypotheses of `translation_accepted` -/

/-- **1. verified Metamath proof → bytes → both checkers → validity.**  Under the hypotheses of `translation_accepted` (a
well-formed database, a compressed proof the Metamath verifier accepts) and nothing else: the translation returns, its
history replays to three instruction lists, the serializer as written writes `encode g`, `encode c`, `encode p`, and — when
the symbols are named canonically (`CanonCalls`, as in `translation_accepted`) — the model `verifyBytes` accepts these bytes
publishing the images of the axioms and of the target, `verify` of `lib.rs` as written accepts them from every register
state, and the image of the target is valid in every model of the images of the database's axioms. -/
theorem translation_bytes_accepted_by_rust_text (cfg : Cfg) (db : DB) (goal : MM.Term) (labels : List Lbl)
    (steps : List Nat) (hwf : db.wf = true) (hv : mmVerify db goal labels steps = true) :
    ∃ n s calls g c p,
      translateFull cfg n db goal labels steps = some (some (s, calls)) ∧
      PySt.trackAll n (PySt.init [image db goal]) calls ([], [], []) = some (some (s, (g, c, p))) ∧
      writeAll n (PySt.init [image db goal]) calls ([], [], []) = some (some (s, (encode g, encode c, encode p))) ∧
      (CanonCalls [] calls →
        verifyBytes (encode g) (encode c) (encode p)
          = some (db.axiomImages.map NPat.expand, [(image db goal).expand]) ∧
        Gen.Rust.execTranslated = true ∧
        (∀ r0 : RustExec.RSt, (Gen.Rust.verify (encode g) (encode c) (encode p) r0).isSome = true) ∧
        ∀ 𝔐 : Model, (∀ a ∈ db.axiomImages, ValidM 𝔐 a.expand) → ValidM 𝔐 (image db goal).expand) := by
  obtain ⟨n, s, calls, g, c, p, hex, hT, hacc⟩ := translation_accepted cfg db goal labels steps hwf hv
  refine ⟨n, s, calls, g, c, p, hex, hT, writeAll_of_trackAll_init n calls _ s g c p hT, fun hcanon => ?_⟩
  have hB := bytesAccepted_of_verify hT (hacc hcanon)
  exact ⟨hB.2.2.1, hB.2.2.2.1, hB.2.2.2.2, fun 𝔐 hΓ => sound_of_translationBytesAccepted hB 𝔐 hΓ⟩

/-- the same for any successful translation, valid Metamath proof or not (`accepted_translation_claims_the_target`): the
bytes of a translation that returned with every claim discharged are accepted by both checkers, and only ever with the
images of the database and of the target as journal -/
theorem accepted_translation_bytes (cfg : Cfg) (n : Nat) (db : DB) (goal : MM.Term) (labels : List Lbl)
    (steps : List Nat) (s : PySt) (calls : List Call) (hwf : db.wf = true)
    (hex : translateFull cfg n db goal labels steps = some (some (s, calls)))
    (hcanon : CanonCalls [] calls) (hfin : s.claims = []) :
    ∃ g c p, TranslationBytesAccepted n db goal s calls g c p := by
  obtain ⟨g, c, p, hT, hv⟩ := accepted_translation_claims_the_target cfg n db goal labels steps s calls hwf hex hcanon hfin
  exact ⟨g, c, p, bytesAccepted_of_verify hT hv⟩

/-- … for any replay of the history (`trackAll` with any fuel that suffices): the streams are unique -/
theorem accepted_translation_bytes' (cfg : Cfg) (n : Nat) (db : DB) (goal : MM.Term) (labels : List Lbl)
    (steps : List Nat) (s : PySt) (calls : List Call) (hwf : db.wf = true)
    (hex : translateFull cfg n db goal labels steps = some (some (s, calls)))
    (hcanon : CanonCalls [] calls) (hfin : s.claims = [])
    (n' : Nat) (s' : PySt) (g c p : List Instr)
    (hT : PySt.trackAll n' (PySt.init [image db goal]) calls ([], [], []) = some (some (s', (g, c, p)))) :
    TranslationBytesAccepted n' db goal s' calls g c p := by
  obtain ⟨g0, c0, p0, hT0, _, hvb, htr, hr⟩ := accepted_translation_bytes cfg n db goal labels steps s calls hwf hex hcanon hfin
  have := trackAll_fuel_irrelevant hT0 hT
  simp only [Option.some.injEq, Prod.mk.injEq] at this
  obtain ⟨rfl, rfl, rfl, rfl⟩ := this
  exact ⟨hT, writeAll_of_trackAll_init n' calls _ _ _ _ _ hT, hvb, htr, hr⟩

/-- **1 (bytes proper).**  If moreover the three streams are wire byte strings (`Wire`: every number written fits in a
byte — decidable; excluded point: a proof that needs a memory slot `≥ 256`, finding KF-C16-slots, or `C02.wire_excluded_point`),
they are the images of three `List UInt8`, written by the serializer as written and accepted by both checkers. -/
theorem translation_u8_accepted (cfg : Cfg) (n : Nat) (db : DB) (goal : MM.Term) (labels : List Lbl)
    (steps : List Nat) (s : PySt) (calls : List Call) (hwf : db.wf = true)
    (hex : translateFull cfg n db goal labels steps = some (some (s, calls)))
    (hcanon : CanonCalls [] calls) (hfin : s.claims = [])
    (n' : Nat) (s' : PySt) (g c p : List Instr)
    (hT : PySt.trackAll n' (PySt.init [image db goal]) calls ([], [], []) = some (some (s', (g, c, p))))
    (hw : Wire (encode g) ∧ Wire (encode c) ∧ Wire (encode p)) :
    ∃ gb cb pb : List UInt8,
      gb.map UInt8.toNat = encode g ∧ cb.map UInt8.toNat = encode c ∧ pb.map UInt8.toNat = encode p ∧
      writeAll n' (PySt.init [image db goal]) calls ([], [], [])
        = some (some (s', (gb.map UInt8.toNat, cb.map UInt8.toNat, pb.map UInt8.toNat))) ∧
      verifyBytes (gb.map UInt8.toNat) (cb.map UInt8.toNat) (pb.map UInt8.toNat)
        = some (db.axiomImages.map NPat.expand, [(image db goal).expand]) ∧
      ∀ r0 : RustExec.RSt,
        (Gen.Rust.verify (gb.map UInt8.toNat) (cb.map UInt8.toNat) (pb.map UInt8.toNat) r0).isSome = true := by
  obtain ⟨_, hW, hvb, _, hr⟩ := accepted_translation_bytes' cfg n db goal labels steps s calls hwf hex hcanon hfin n' s' g c p hT
  obtain ⟨gb, hg⟩ := wire_is_u8 _ hw.1
  obtain ⟨cb, hc⟩ := wire_is_u8 _ hw.2.1
  obtain ⟨pb, hp⟩ := wire_is_u8 _ hw.2.2
  refine ⟨gb, cb, pb, hg, hc, hp, ?_, ?_, ?_⟩
  · rw [hg, hc, hp]; exact hW
  · rw [hg, hc, hp]; exact hvb
  · rw [hg, hc, hp]; exact hr

/-! ## 2. from the text side -/

/-- `translateFull` with the proof phase left open: the Γ phase, `into_claim_phase`, the claim phase, `into_proof_phase`
(the model's: `translateFull.pub`, `doCalls`), then `X` on the state and history reached -/
def translateFullWith (X : PySt → List Call → Option (Option (PySt × List Call))) (cfg : Cfg) (n : Nat) (db : DB)
    (goal : MM.Term) : Option (Option (PySt × List Call)) := do
  let claims := [image db goal]
  match ← translateFull.pub cfg n (PySt.init claims) [] .publishAxiom db.axiomImages with
  | none => pure none
  | some (s1, a1) =>
  match ← doCalls n s1 [.intoClaim] a1 with
  | none => pure none
  | some (s2, a2) =>
  match ← translateFull.pub cfg n s2 a2 .publishClaim claims.reverse with
  | none => pure none
  | some (s3, a3) =>
  match ← doCalls n s3 [.intoProof] a3 with
  | none => pure none
  | some (s4, a4) => X s4 a4

/-- `translateFull` is `translateFullWith` the model `execProof` -/
theorem translateFull_eq_with (cfg : Cfg) (n : Nat) (db : DB) (goal : MM.Term) (labels : List Lbl) (steps : List Nat) :
    translateFull cfg n db goal labels steps = translateFullWith (execProof cfg n db goal labels steps) cfg n db goal := rfl

theorem translateFullWith_congr {X Y : PySt → List Call → Option (Option (PySt × List Call))} (h : ∀ s acc, X s acc = Y s acc)
    (cfg : Cfg) (n : Nat) (db : DB) (goal : MM.Term) : translateFullWith X cfg n db goal = translateFullWith Y cfg n db goal := by
  have : X = Y := funext fun s => funext fun acc => h s acc
  rw [this]

/-- the proof phase **as written**: `exec_proof` of `metamath/translate.py` (`Gen.XProof.exec_proof`) run on the converter
object `conv` that `MetamathConverter` as written returned (`ConvTie.convOf`), after the Γ and claim phases -/
def translateFullText (σ : String → Nat) (fuel : Nat) (conv : ConvSup.ConvObj) (sp : ConvSpec.Spec) (target : String)
    (cfg : Cfg) (n : Nat) : Option (Option (PySt × List Call)) :=
  translateFullWith (fun s acc => XProofTie.outcome
    (Gen.XProof.exec_proof (ConvTie.convOf σ fuel conv sp target) cfg n sp.labels sp.steps s acc)) cfg n sp.db sp.goal

/-- **2a. the whole translation, proof phase as written, is the model `translateFull`.**  For every database of the shape
`MM.ConvSpec.FragmentShape` (decidable, on the statements alone): its specification `sp` exists and is well formed, and for
every converter fuel `≥ dbFuel` the converter as written returns an object `conv` such that, for every memoisation
configuration and fuel `n ≥ 5`, the translation whose proof phase is `exec_proof` as written on `conv` is `translateFull` on
the specification's database, goal, label list and steps. -/
theorem translation_full_text_is_the_model (mdb : MDb) (target : String)
    (h : MM.ConvSpec.FragmentShape mdb target = true) (hs : MM.ConvSpec.sugarFree mdb = true) :
    ∃ sp, MM.ConvSpec.dbOfMDb mdb target = some sp ∧ sp.db.wf = true ∧
      ∀ fuel, ConvTie.dbFuel mdb ≤ fuel → ∃ conv,
        Gen.MMConv.MetamathConverter_init sp.names.consts.idxOf fuel default mdb = .ok conv ∧
        ∀ (cfg : Cfg) (n : Nat), 5 ≤ n →
          translateFullText sp.names.consts.idxOf fuel conv sp target cfg n =
            translateFull cfg n sp.db sp.goal sp.labels sp.steps := by
  obtain ⟨sp, hsp, _, hwf⟩ := spec_coherent_of_shape mdb target h hs
  obtain ⟨sp', hsp', htie⟩ := translation_text_is_the_model_of_shape mdb target h hs
  rw [hsp] at hsp'
  simp only [Option.some.injEq] at hsp'
  subst hsp'
  refine ⟨sp, hsp, hwf, fun fuel hfuel => ?_⟩
  obtain ⟨conv, hconv, _, hx⟩ := htie fuel hfuel
  refine ⟨conv, hconv, fun cfg n hn => ?_⟩
  rw [translateFullText, translateFullWith_congr (fun s acc => hx cfg n s acc hn), ← translateFull_eq_with]

/-- **2. converter text + `exec_proof` text → bytes → checker text.**  For every database of the shape
`MM.ConvSpec.FragmentShape`: if the Metamath verifier accepts the target's proof then, for every memoisation configuration,
there is a fuel `n ≥ 5` such that for every converter fuel `≥ dbFuel` the converter as written returns an object `conv`, the
translation whose proof phase is `exec_proof` as written on `conv` returns a state (every claim discharged) and a history,
and — symbols named canonically — that history replays to three instruction lists whose encodings the serializer as written
writes and `verify` of `lib.rs` as written accepts (journal: the images of the axioms and of the target). -/
theorem translation_text_bytes_accepted_by_rust_text (mdb : MDb) (target : String)
    (h : MM.ConvSpec.FragmentShape mdb target = true) (hs : MM.ConvSpec.sugarFree mdb = true) :
    ∃ sp, MM.ConvSpec.dbOfMDb mdb target = some sp ∧ sp.db.wf = true ∧
      (mmVerify sp.db sp.goal sp.labels sp.steps = true → ∀ cfg : Cfg, ∃ n, 5 ≤ n ∧
        ∀ fuel, ConvTie.dbFuel mdb ≤ fuel → ∃ conv,
          Gen.MMConv.MetamathConverter_init sp.names.consts.idxOf fuel default mdb = .ok conv ∧
          ∃ s calls, translateFullText sp.names.consts.idxOf fuel conv sp target cfg n = some (some (s, calls)) ∧
            s.claims = [] ∧
            (CanonCalls [] calls → ∃ g c p, TranslationBytesAccepted n sp.db sp.goal s calls g c p)) := by
  obtain ⟨sp, hsp, hwf, htie⟩ := translation_full_text_is_the_model mdb target h hs
  refine ⟨sp, hsp, hwf, fun hv cfg => ?_⟩
  obtain ⟨n0, s, calls, hex0, hfin⟩ := translation_succeeds cfg sp.db sp.goal sp.labels sp.steps hwf hv
  have hex : translateFull cfg (max n0 5) sp.db sp.goal sp.labels sp.steps = some (some (s, calls)) :=
    translateFull_mono cfg (Nat.le_max_left n0 5) sp.db sp.goal sp.labels sp.steps _ hex0
  refine ⟨max n0 5, Nat.le_max_right n0 5, fun fuel hfuel => ?_⟩
  obtain ⟨conv, hconv, hx⟩ := htie fuel hfuel
  refine ⟨conv, hconv, s, calls, ?_, hfin, fun hcanon =>
    accepted_translation_bytes cfg _ sp.db sp.goal sp.labels sp.steps s calls hwf hex hcanon hfin⟩
  rw [hx cfg _ (Nat.le_max_right n0 5)]
  exact hex

/-- **2 (any run of the text).**  Whatever the translation with `exec_proof` as written returns on a database of the shape
(valid Metamath proof or not, fuel `≥ 5` / `≥ dbFuel`), with every claim discharged and canonical symbol names, is accepted
by both checkers with the images of the database and of the target as journal. -/
theorem translation_text_run_accepted (mdb : MDb) (target : String) (h : MM.ConvSpec.FragmentShape mdb target = true)
    (hs : MM.ConvSpec.sugarFree mdb = true) :
    ∃ sp, MM.ConvSpec.dbOfMDb mdb target = some sp ∧
      ∀ fuel, ConvTie.dbFuel mdb ≤ fuel → ∃ conv,
        Gen.MMConv.MetamathConverter_init sp.names.consts.idxOf fuel default mdb = .ok conv ∧
        ∀ (cfg : Cfg) (n : Nat) (s : PySt) (calls : List Call), 5 ≤ n →
          translateFullText sp.names.consts.idxOf fuel conv sp target cfg n = some (some (s, calls)) →
          CanonCalls [] calls → s.claims = [] →
          ∃ g c p, TranslationBytesAccepted n sp.db sp.goal s calls g c p := by
  obtain ⟨sp, hsp, hwf, htie⟩ := translation_full_text_is_the_model mdb target h hs
  refine ⟨sp, hsp, fun fuel hfuel => ?_⟩
  obtain ⟨conv, hconv, hx⟩ := htie fuel hfuel
  refine ⟨conv, hconv, fun cfg n s calls hn hrun hcanon hfin => ?_⟩
  rw [hx cfg n hn] at hrun
  exact accepted_translation_bytes cfg n sp.db sp.goal sp.labels sp.steps s calls hwf hrun hcanon hfin

/-- **3. text ⇒ validity**, through the bytes and `verify` of `lib.rs` as written: on a database of the shape whose proof
the Metamath verifier accepts, and whose translation (proof phase as written, configuration `cfg`) names its symbols
canonically, the image of the target is valid in every model of the images of the database's axioms. -/
theorem translation_text_sound (mdb : MDb) (target : String) (h : MM.ConvSpec.FragmentShape mdb target = true)
    (hs : MM.ConvSpec.sugarFree mdb = true) (cfg : Cfg) :
    ∃ sp, MM.ConvSpec.dbOfMDb mdb target = some sp ∧
      (mmVerify sp.db sp.goal sp.labels sp.steps = true →
        (∀ (n fuel : Nat) (conv : ConvSup.ConvObj) (s : PySt) (calls : List Call),
          translateFullText sp.names.consts.idxOf fuel conv sp target cfg n = some (some (s, calls)) →
          CanonCalls [] calls) →
        ∀ 𝔐 : Model, (∀ a ∈ sp.db.axiomImages, ValidM 𝔐 a.expand) → ValidM 𝔐 (image sp.db sp.goal).expand) := by
  obtain ⟨sp, hsp, _, hacc⟩ := translation_text_bytes_accepted_by_rust_text mdb target h hs
  refine ⟨sp, hsp, fun hv hcanon 𝔐 hΓ => ?_⟩
  obtain ⟨n, _, hn⟩ := hacc hv cfg
  obtain ⟨conv, _, s, calls, hrun, _, hB⟩ := hn (ConvTie.dbFuel mdb) (Nat.le_refl _)
  obtain ⟨g, c, p, hB⟩ := hB (hcanon n _ conv s calls hrun)
  exact sound_of_translationBytesAccepted hB 𝔐 hΓ

/-! ## 4. non-vacuity -/

open PFExample in
/-- decidable form of the hypotheses on a concrete run of the model: the translation returns at fuel `N`, every claim is
discharged, the symbols are named canonically, the three streams are wire byte strings -/
def runCheck (cfg : Cfg) (N : Nat) (db : DB) (goal : MM.Term) (labels : List Lbl) (steps : List Nat) : Bool :=
  match translateFull cfg N db goal labels steps with
  | some (some (s, calls)) => s.claims.isEmpty && canonB [] calls && wireCheck N [image db goal] calls
  | _ => false

open PFExample in
theorem runCheck_sound {cfg : Cfg} {N : Nat} {db : DB} {goal : MM.Term} {labels : List Lbl} {steps : List Nat}
    (h : runCheck cfg N db goal labels steps = true) :
    ∃ s calls, translateFull cfg N db goal labels steps = some (some (s, calls)) ∧ CanonCalls [] calls ∧ s.claims = [] ∧
      wireCheck N [image db goal] calls = true := by
  unfold runCheck at h
  split at h
  · rename_i s calls hx
    simp only [Bool.and_eq_true, List.isEmpty_iff] at h
    exact ⟨s, calls, hx, canonB_sound calls [] h.1.2, h.1.1, h.2⟩
  · exact absurd h (by simp)

/-- the conclusion for a concrete run: three `List UInt8`, written by the serializer as written, accepted by `verifyBytes`
(journal: images of the axioms and of the target) and by `verify` of `lib.rs` as written -/
theorem u8_of_runCheck {cfg : Cfg} {N : Nat} {db : DB} {goal : MM.Term} {labels : List Lbl} {steps : List Nat}
    (hwf : db.wf = true) (h : runCheck cfg N db goal labels steps = true) :
    ∃ (s : PySt) (calls : List Call) (gb cb pb : List UInt8),
      translateFull cfg N db goal labels steps = some (some (s, calls)) ∧
      writeAll N (PySt.init [image db goal]) calls ([], [], [])
        = some (some (s, (gb.map UInt8.toNat, cb.map UInt8.toNat, pb.map UInt8.toNat))) ∧
      verifyBytes (gb.map UInt8.toNat) (cb.map UInt8.toNat) (pb.map UInt8.toNat)
        = some (db.axiomImages.map NPat.expand, [(image db goal).expand]) ∧
      ∀ r0 : RustExec.RSt,
        (Gen.Rust.verify (gb.map UInt8.toNat) (cb.map UInt8.toNat) (pb.map UInt8.toNat) r0).isSome = true := by
  obtain ⟨s, calls, hex, hcanon, hfin, hw⟩ := runCheck_sound h
  obtain ⟨g, c, p, hB⟩ := accepted_translation_bytes cfg N db goal labels steps s calls hwf hex hcanon hfin
  obtain ⟨gb, cb, pb, _, _, _, hW, hv, hr⟩ :=
    translation_u8_accepted cfg N db goal labels steps s calls hwf hex hcanon hfin N s g c p hB.1 (wireCheck_sound hw hB.1)
  exact ⟨s, calls, gb, cb, pb, hex, hW, hv, hr⟩

/-- the example of `MM/TranslateThm.lean` (`exDB`, goal `( \imp z ( \imp x ( \imp y x ) ) )`, proof `exSteps₁`) satisfies
every hypothesis of `accepted_translation_bytes` and `translation_u8_accepted` (kernel evaluation) -/
theorem exDB_check : runCheck {} 40 exDB exB exLabels exSteps₁ = true := by decide +kernel

/-- … so its three streams are byte strings which `verify` of `lib.rs` as written accepts -/
theorem exDB_accepted :
    ∃ (s : PySt) (calls : List Call) (gb cb pb : List UInt8),
      translateFull {} 40 exDB exB exLabels exSteps₁ = some (some (s, calls)) ∧
      writeAll 40 (PySt.init [image exDB exB]) calls ([], [], [])
        = some (some (s, (gb.map UInt8.toNat, cb.map UInt8.toNat, pb.map UInt8.toNat))) ∧
      verifyBytes (gb.map UInt8.toNat) (cb.map UInt8.toNat) (pb.map UInt8.toNat)
        = some (exDB.axiomImages.map NPat.expand, [(image exDB exB).expand]) ∧
      ∀ r0 : RustExec.RSt,
        (Gen.Rust.verify (gb.map UInt8.toNat) (cb.map UInt8.toNat) (pb.map UInt8.toNat) r0).isSome = true :=
  u8_of_runCheck (by decide) exDB_check

/-- … and (hypotheses of `translation_bytes_accepted_by_rust_text`: `exDB.wf`, `mmVerify`) its target is valid in every
model of the image of its rule, through the Rust text -/
theorem exDB_sound (𝔐 : Model) (hΓ : ∀ a ∈ exDB.axiomImages, ValidM 𝔐 a.expand) : ValidM 𝔐 (image exDB exB).expand := by
  obtain ⟨s, calls, hex, hcanon, hfin, _⟩ := runCheck_sound exDB_check
  obtain ⟨g, c, p, hB⟩ := accepted_translation_bytes {} 40 exDB exB exLabels exSteps₁ s calls (by decide) hex hcanon hfin
  exact sound_of_translationBytesAccepted hB 𝔐 hΓ

/-! ### the text side

`MM.ConvSpec.Example.db` itself does NOT satisfy `CanonCalls`: the converter numbers a constant by its position in the `$c`
statement (`sp.names.consts.idxOf`), there `c ↦ 6`, `f ↦ 7`, so the first `symbol` call of its translation is `symbol 7`
(`example_db_not_canonical`), while `CanonCalls []` (the hypothesis of `translation_accepted`) wants the symbols named in
the order of their first serialisation.  `ExampleCanon.db` is the same database with `f`, `c` declared first in its `$c`
statement, so that the two numberings coincide. -/

namespace ExampleCanon
open MM.ConvSpec MM.ConvSpec.Example

def db : MDb := [
  .const ["f", "c", "#Pattern", "|-", "(", ")", "\\imp", "\\app"],
  .var ["x", "y", "z"],
  .float "y-is-pattern" "#Pattern" "y",
  .float "z-is-pattern" "#Pattern" "z",
  .float "x-is-pattern" "#Pattern" "x",
  .ax "imp-is-pattern" [tc "#Pattern", imp (v "x") (v "y")],
  .ax "app-is-pattern" [tc "#Pattern", .app "\\app" [v "y", v "x"]],
  .ax "c-is-pattern" [tc "#Pattern", .app "c" []],
  .ax "f-is-pattern" [tc "#Pattern", .app "f" [v "z", v "x"]],
  .ax "proof-rule-prop-1" [tc "|-", imp (v "x") (imp (v "y") (v "x"))],
  .ax "proof-rule-prop-2" [tc "|-", imp (imp (v "x") (imp (v "y") (v "z"))) (imp (imp (v "x") (v "y")) (imp (v "x") (v "z")))],
  .block [.ess "proof-rule-mp.0" [tc "|-", imp (v "y") (v "x")], .ess "proof-rule-mp.1" [tc "|-", v "y"],
          .ax "proof-rule-mp" [tc "|-", v "x"]],
  .ax "ax0" [tc "|-", .app "f" [.app "c" [], .app "\\app" [v "x", .app "c" []]]],
  .block [.ess "r.0" [tc "|-", imp (v "x") (.app "c" [])], .ess "r.1" [tc "|-", v "z"],
          .ax "r" [tc "|-", .app "f" [v "z", .app "f" [v "x", .app "c" []]]]],
  .prov "goal" [tc "|-", imp (.app "c" []) (imp (.app "c" []) (.app "c" []))] ["(", "c-is-pattern", "proof-rule-prop-1", ")", "AAB"]]

theorem db_shape : FragmentShape db "goal" = true := by decide +kernel
theorem db_sugarFree : sugarFree db = true := by decide +kernel

/-- the Metamath verifier accepts the target's proof and the model run satisfies `runCheck`, on the specification of `mdb` -/
def specCheck (mdb : MDb) (target : String) (N : Nat) : Bool :=
  match dbOfMDb mdb target with
  | some sp => mmVerify sp.db sp.goal sp.labels sp.steps && runCheck {} N sp.db sp.goal sp.labels sp.steps
  | none => false

theorem db_check : specCheck db "goal" 40 = true := by decide +kernel

/-- `ExampleCanon.db` with two DECLARED NOTATIONS, `( n x ) := ( f x ( \\imp x c ) )` and `m := ( n c )`, an axiom that uses them and the
goal `|- ( \\imp m ( \\imp c m ) )` -/
def dbN : MDb := [
  .const ["f", "c", "#Pattern", "|-", "(", ")", "\\imp", "\\app", "#Notation", "n", "m"],
  .var ["x", "y", "z"],
  .float "y-is-pattern" "#Pattern" "y",
  .float "z-is-pattern" "#Pattern" "z",
  .float "x-is-pattern" "#Pattern" "x",
  .ax "imp-is-pattern" [tc "#Pattern", imp (v "x") (v "y")],
  .ax "app-is-pattern" [tc "#Pattern", .app "\\app" [v "y", v "x"]],
  .ax "c-is-pattern" [tc "#Pattern", .app "c" []],
  .ax "f-is-pattern" [tc "#Pattern", .app "f" [v "z", v "x"]],
  .ax "n-is-pattern" [tc "#Pattern", .app "n" [v "x"]],
  .ax "n-is-sugar" [tc "#Notation", .app "n" [v "x"], .app "f" [v "x", imp (v "x") (.app "c" [])]],
  .ax "m-is-pattern" [tc "#Pattern", .app "m" []],
  .ax "m-is-sugar" [tc "#Notation", .app "m" [], .app "n" [.app "c" []]],
  .ax "proof-rule-prop-1" [tc "|-", imp (v "x") (imp (v "y") (v "x"))],
  .ax "proof-rule-prop-2" [tc "|-", imp (imp (v "x") (imp (v "y") (v "z"))) (imp (imp (v "x") (v "y")) (imp (v "x") (v "z")))],
  .block [.ess "proof-rule-mp.0" [tc "|-", imp (v "y") (v "x")], .ess "proof-rule-mp.1" [tc "|-", v "y"],
          .ax "proof-rule-mp" [tc "|-", v "x"]],
  .ax "ax0" [tc "|-", .app "f" [.app "c" [], .app "n" [.app "\\app" [v "x", .app "m" []]]]],
  .prov "goal" [tc "|-", imp (.app "m" []) (imp (.app "c" []) (.app "m" []))] ["(", "m-is-pattern", "c-is-pattern", "proof-rule-prop-1", ")", "BAC"]]

/-- the database with declared notations has the shape … -/
theorem dbN_shape : FragmentShape dbN "goal" = true := by decide +kernel

/-- … its specification exists, with the bodies at the constructors of `n` and `m`, the Metamath verifier accepts the proof, and the
model's translation (`translateFull` on the specification: notations expanded by `image`) returns with every claim discharged, canonical
symbol names and three wire byte strings (`runCheck`) — so `accepted_translation_bytes` applies to it -/
theorem dbN_check : specCheck dbN "goal" 40 = true := by decide +kernel

theorem dbN_bodies :
    ((dbOfMDb dbN "goal").map (fun sp => sp.db.ctors.filterMap (·.body)) ==
      some [MM.Term.con 0 [.var 0, .imp (.var 0) (.con 1 [])], MM.Term.con 9 [.con 1 []]]) = true := by decide +kernel

open PFExample in
/-- why `MM.ConvSpec.Example.db` is not used: its translation is not canonically named -/
theorem example_db_not_canonical :
    (match dbOfMDb MM.ConvSpec.Example.db "goal" with
     | some sp => (match translateFull {} 40 sp.db sp.goal sp.labels sp.steps with
        | some (some (_, calls)) => some (canonB [] calls, calls.filterMap fun c => match c with | .symbol k => some k | _ => none)
        | _ => none)
     | none => none) = some (false, [7, 6, 6, 6, 7, 7, 6, 6, 6, 6, 6, 6]) := by decide +kernel

/-- **all hypotheses of the text-side theorems hold of `ExampleCanon.db`**: it has the shape, the Metamath verifier accepts
its proof, the converter as written returns on it, and the translation whose proof phase is `exec_proof` as written returns a
history whose three streams are byte strings that the serializer as written writes and `verify` of `lib.rs` as written
accepts, publishing the images of the database's axioms and of the target -/
theorem db_text_accepted :
    ∃ (sp : Spec) (conv : ConvSup.ConvObj) (s : PySt) (calls : List Call) (gb cb pb : List UInt8),
      dbOfMDb db "goal" = some sp ∧ mmVerify sp.db sp.goal sp.labels sp.steps = true ∧
      Gen.MMConv.MetamathConverter_init sp.names.consts.idxOf (ConvTie.dbFuel db) default db = .ok conv ∧
      translateFullText sp.names.consts.idxOf (ConvTie.dbFuel db) conv sp "goal" {} 40 = some (some (s, calls)) ∧
      writeAll 40 (PySt.init [image sp.db sp.goal]) calls ([], [], [])
        = some (some (s, (gb.map UInt8.toNat, cb.map UInt8.toNat, pb.map UInt8.toNat))) ∧
      verifyBytes (gb.map UInt8.toNat) (cb.map UInt8.toNat) (pb.map UInt8.toNat)
        = some (sp.db.axiomImages.map NPat.expand, [(image sp.db sp.goal).expand]) ∧
      ∀ r0 : RustExec.RSt,
        (Gen.Rust.verify (gb.map UInt8.toNat) (cb.map UInt8.toNat) (pb.map UInt8.toNat) r0).isSome = true := by
  obtain ⟨sp, hsp, hwf, htie⟩ := translation_full_text_is_the_model db "goal" db_shape db_sugarFree
  obtain ⟨conv, hconv, hx⟩ := htie (ConvTie.dbFuel db) (Nat.le_refl _)
  have hchk := db_check
  simp only [specCheck, hsp, Bool.and_eq_true] at hchk
  obtain ⟨s, calls, gb, cb, pb, hex, hW, hv, hr⟩ := u8_of_runCheck hwf hchk.2
  exact ⟨sp, conv, s, calls, gb, cb, pb, hsp, hchk.1, hconv, by rw [hx {} 40 (by decide)]; exact hex, hW, hv, hr⟩

/-- … and, through the texts, the bytes and the Rust text: the image of `|- ( \imp c ( \imp c c ) )` is valid in every model
of the images of the database's axioms -/
theorem db_text_sound :
    ∃ sp, dbOfMDb db "goal" = some sp ∧
      ∀ 𝔐 : Model, (∀ a ∈ sp.db.axiomImages, ValidM 𝔐 a.expand) → ValidM 𝔐 (image sp.db sp.goal).expand := by
  obtain ⟨sp, hsp, hwf, _⟩ := translation_full_text_is_the_model db "goal" db_shape db_sugarFree
  have hchk := db_check
  simp only [specCheck, hsp, Bool.and_eq_true] at hchk
  obtain ⟨s, calls, hex, hcanon, hfin, _⟩ := runCheck_sound hchk.2
  obtain ⟨g, c, p, hB⟩ := accepted_translation_bytes {} 40 sp.db sp.goal sp.labels sp.steps s calls hwf hex hcanon hfin
  exact ⟨sp, hsp, fun 𝔐 hΓ => sound_of_translationBytesAccepted hB 𝔐 hΓ⟩

end ExampleCanon

end C16

#print axioms C16.translation_bytes_accepted_by_rust_text
#print axioms C16.accepted_translation_bytes
#print axioms C16.accepted_translation_bytes'
#print axioms C16.translation_u8_accepted
#print axioms C16.sound_of_translationBytesAccepted
#print axioms C16.translation_full_text_is_the_model
#print axioms C16.translation_text_bytes_accepted_by_rust_text
#print axioms C16.translation_text_run_accepted
#print axioms C16.translation_text_sound
#print axioms C16.exDB_check
#print axioms C16.exDB_accepted
#print axioms C16.exDB_sound
#print axioms C16.ExampleCanon.db_shape
#print axioms C16.ExampleCanon.db_check
#print axioms C16.ExampleCanon.dbN_shape
#print axioms C16.ExampleCanon.dbN_check
#print axioms C16.ExampleCanon.example_db_not_canonical
#print axioms C16.ExampleCanon.db_text_accepted
#print axioms C16.ExampleCanon.db_text_sound
