import Pi2.PrettyOperands
import Pi2.Props.C19
/-!
# C19 (part) — the OPERANDS of the pretty-printed steps are the operands of the binary instructions

`Pi2/Props/C19.lean` (`pretty_steps_match_binary_instructions`) compares the kinds of the step lines with the emitted
instructions; the memory index a pretty `Load` prints is a free parameter there.  A seeded change (pretty `Load`
caching the printed slot per id string) showed that the operands matter.  Here (`Pi2/PrettyOperands.lean`): the step
line the translated `PrettyPrintingInterpreter` writes for a call in the tracker state `s` — `PrettyOperands.pcallIn`,
whose `load` evaluates `self.memory.index(term)` in `s` — and the instruction `PySt.emit1` gives for the same call in
the same state carry the same operands, read back from the TEXT of the line (`PrettyOperands.readOperand`).
-/
set_option linter.unusedVariables false
open PySt PrettyOperands
namespace C19

/-- the call is a `metavar` -/
def callIsMetaVar : Call → Bool
  | .metavar .. => true
  | _ => false

theorem pcallIn_isMetaVar (n : Nat) (s : PySt) (symName : Nat → String) (saveId loadId : String) (c : Call)
    (pc : Gen.PyPretty.PCall) (h : pcallIn n s symName saveId loadId c = some pc) : isMetaVar pc = callIsMetaVar c := by
  cases c with
  | load t =>
    simp only [pcallIn] at h
    split at h
    · simp only [Option.some.injEq] at h; subst h; rfl
    · simp at h
  | intoClaim => simp [pcallIn, PrettyTie.pcallOf] at h
  | intoProof => simp [pcallIn, PrettyTie.pcallOf] at h
  | _ => simp only [pcallIn, PrettyTie.pcallOf, Option.some.injEq] at h <;> subst h <;> rfl

/-- **the operands of the decorated call are the operands of the binary instruction** — all 26 calls, `metavar`
included.  For every call `c` the serializer answers (`h`) and the tracker accepts (`ht`) in state `s`:
the decorated call in `s` and the emitted instruction carry the same operand, where (`PrettyOperands.instrOperand`)
* `Load i` carries the slot `i` — and the decorated `load` prints `memory.index(term)` of the same state;
* `Instantiate ids` carries the keys `ids.reverse` (the binary stores `reversed(delta.keys())`, the pretty line
  `delta.keys()`), for `instantiate` and `instantiate_pattern`;
* `Symbol k` carries the name of the `k`-th entry of the symbol table after the call (`symName` gives the text of a
  symbol; `PrettyOperands.symtab_position`: that entry is the symbol of the call);
* `MetaVar id ef sf ps ns hs` carries the id and the five lists, `CleanMetaVar id` the id and five empty lists;
* `EVar/SVar/Exists/Mu/ESubst/SSubst/Generalization x` carry `x`; the others nothing. -/
theorem pretty_call_operands_match_binary (n : Nat) (s s' : PySt) (c : Call) (is : List Instr)
    (h : emit1 n s c = some (some is)) (ht : track1 n s c = some (some s'))
    (symName : Nat → String) (saveId loadId : String) :
    (pcallIn n s symName saveId loadId c).toList.map (fun pc => some (pcallOperand pc)) =
      is.map (instrOperand symName s'.symtab) :=
  pcall_operands_match_emitted n s s' c is h ht symName saveId loadId

/-- **the line shows the operand** (every decorated method but `metavar`): reading the text the translated function
writes — the decimal after the keyword / after the last `=`, the comma-separated keys, the name — gives back what the
function was called with; no assumption on the free strings (symbol name, `load` id) -/
theorem pretty_line_shows_operand (σ : Nat → String) (c : Gen.PyPretty.PCall) (hc : isMetaVar c = false) :
    readOperand (PrettyTie.stepText σ c).toList = some (pcallOperand c) :=
  readOperand_stepText σ c hc

/-- **the step lines carry the operands of the binary instructions.**  For every call `c` other than `metavar` that
the serializer answers with `is` and the tracker accepts in state `s`: the operands read from the text of the step
lines `PrettyPrintingInterpreter` writes for `c` in `s` are the operands of `is`, one line per instruction, in order
(see `pretty_call_operands_match_binary` for the relation per instruction kind; `metavar`: that theorem and
`pretty_metavar_text`). -/
theorem pretty_step_operands_match_binary (n : Nat) (s s' : PySt) (c : Call) (is : List Instr)
    (h : emit1 n s c = some (some is)) (ht : track1 n s c = some (some s')) (hmv : callIsMetaVar c = false)
    (σ symName : Nat → String) (saveId loadId : String) :
    (pcallIn n s symName saveId loadId c).toList.map (fun pc => readOperand (PrettyTie.stepText σ pc).toList) =
      is.map (instrOperand symName s'.symtab) := by
  rw [← pcall_operands_match_emitted n s s' c is h ht symName saveId loadId]
  cases hp : pcallIn n s symName saveId loadId c with
  | none => rfl
  | some pc =>
    have : isMetaVar pc = false := by rw [pcallIn_isMetaVar n s symName saveId loadId c pc hp, hmv]
    simp [readOperand_stepText σ pc this]

/-- **`load`, spelled out**: when the serializer answers a `load` of `t` in state `s`, there is one slot `i` =
`memory.index(t)` in `s` such that the binary instruction is `Load i`, the pretty line is exactly
`'Load ' + id + '=' + str(i)`, and the decimal after the last `=` of that line is `i` -/
theorem pretty_load_names_the_binary_slot (n : Nat) (s : PySt) (t : TTerm) (is : List Instr)
    (h : emit1 n s (.load t) = some (some is)) (σ symName : Nat → String) (saveId loadId : String) :
    ∃ i, indexF n t s.memory 0 = some (some i) ∧ is = [.load i] ∧
      pcallIn n s symName saveId loadId (.load t) = some (.load loadId i) ∧
      PrettyTie.stepText σ (.load loadId i) = prettyLoadLine loadId i ∧
      readNat (afterLast '=' (prettyLoadLine loadId i).toList) = some i := by
  simp only [emit1, Option.bind_eq_bind, Option.bind_eq_some_iff] at h
  obtain ⟨r, hr, h⟩ := h
  cases r with
  | none => simp at h
  | some i =>
    simp only [Option.pure_def, Option.some.injEq] at h
    exact ⟨i, hr, h.symm, by simp [pcallIn, hr], load_line σ loadId i, load_line_read loadId i⟩

/-- the line format of `load`, and that two `Load` lines with the same id string are equal only if they name the
same slot (a printer that answers by id string alone cannot be right when two memory entries share an id) -/
theorem pretty_load_line_format (σ : Nat → String) (id : String) (slot : Nat) :
    PrettyTie.stepText σ (.load id slot) = prettyLoadLine id slot ∧
      ∀ slot', prettyLoadLine id slot = prettyLoadLine id slot' → slot = slot' :=
  ⟨load_line σ id slot, fun slot' => load_line_inj id slot slot'⟩

/-- the relation between the printed symbol name and the number in the binary `Symbol` instruction -/
theorem pretty_symbol_through_the_table (n : Nat) (s s' : PySt) (nm : Nat)
    (ht : track1 n s (.symbol nm) = some (some s')) : s'.symtab[symId s.symtab nm]? = some nm := by
  rw [track1_symtab n s s' nm ht]
  exact symtab_position s.symtab nm

/-- the text of a `metavar` step as a function of the id and the five lists (the operands of the binary `MetaVar`,
`pretty_call_operands_match_binary`): `MetaVar `, the id, then for each non-empty list one block
`name, len=k i1 i2 … \n` with the items printed as `x<n>` (eFresh, appctx) / `X<n>` (sFresh, pos, neg) -/
theorem pretty_metavar_text (σ : Nat → String) (id : Nat) (ef sf ps ns hs : List Nat) :
    PrettyTie.stepText σ (.metavar id ef sf ps ns hs) = prettyMetaVarText id ef sf ps ns hs :=
  metavar_text σ id ef sf ps ns hs

/-- **each block of a `MetaVar` step shows its list**: a non-empty constraint list `l` is written as the block
`blockBody pc name l` and a newline (`pc` = `x` / `X`), and `readBlock` reads the name and `l` back from it -/
theorem pretty_metavar_block_shows_list (p : String) (pc : Char) (hp : p.toList = [pc]) (hpc : pc ≠ ' ') (nm : String)
    (hnm : ' ' ∉ nm.toList) (l : List Nat) (hl : l ≠ []) :
    (prettyBlock p nm l).toList = blockBody pc nm.toList l ++ ['\n'] ∧
      readBlock (blockBody pc nm.toList l) = some (nm.toList, l) :=
  ⟨prettyBlock_toList p pc hp nm l hl, readBlock_body pc hpc nm.toList hnm l⟩

/-! ## Non-vacuity: the seeded change's scenario

Two memory entries, the metavariable `phi0` without and with a freshness constraint; their `str` coincide
(`MetaVar.pretty` prints the id only), so a `load` of either is called with the same id string. -/
namespace Slots

def A : TTerm := .pat (.mv 0 [] [] [] [] [])
def B : TTerm := .pat (.mv 0 [1] [] [] [] [])

/-- `str(A) = str(B)` in the translated pretty printer, at every fuel -/
theorem same_id (σ : Nat → String) (k : Nat) : Gen.PyPretty.toStr σ k A.body = Gen.PyPretty.toStr σ k B.body := by
  cases k <;> rfl

def history : List Call :=
  [.metavar 0 [] [] [] [] [], .save, .metavar 0 [1] [] [] [] [], .save, .load A, .load B]

/-- run a history: the operand of the decorated call of each step, in the state it is made in -/
def runOperands (n : Nat) (symName : Nat → String) (saveId loadId : String) :
    PySt → List Call → Option (List (Option Operand))
  | _, [] => some []
  | s, c :: cs =>
    match track1 n s c with
    | some (some s') =>
      (runOperands n symName saveId loadId s' cs).map ((pcallIn n s symName saveId loadId c).map pcallOperand :: ·)
    | _ => none

/-- the tracker accepts the history, and the binary file is `CleanMetaVar 0, Save, MetaVar 0 [1]…, Save, Load 0, Load 1` -/
theorem binary_instructions :
    (trackAll 5 (init []) history ([], [], [])).map (·.map (·.2.1)) =
      some (some [.cleanmv 0, .save, .metavar 0 [1] [] [] [] [], .save, .load 0, .load 1]) := by decide +kernel

/-- … and the two pretty `Load` steps, both with the id `phi0`, name the DIFFERENT slots 0 and 1 -/
theorem pretty_operands :
    runOperands 5 (fun _ => "") "" "phi0" (init []) history =
      some [some (.lists 0 [] [] [] [] []), some .nothing, some (.lists 0 [1] [] [] [] []), some .nothing,
        some (.slot 0), some (.slot 1)] := by decide +kernel

/-- the two lines, as text: same id, different slot, different lines; each read back gives its slot -/
theorem two_load_lines (σ : Nat → String) (id : String) :
    PrettyTie.stepText σ (.load id 0) ≠ PrettyTie.stepText σ (.load id 1) ∧
      readOperand (PrettyTie.stepText σ (.load id 0)).toList = some (.slot 0) ∧
      readOperand (PrettyTie.stepText σ (.load id 1)).toList = some (.slot 1) := by
  refine ⟨?_, readOperand_stepText σ _ rfl, readOperand_stepText σ _ rfl⟩
  rw [load_line, load_line]
  intro h
  exact absurd (load_line_inj id 0 1 h) (by decide)

end Slots

#print axioms pcallIn_isMetaVar
#print axioms pretty_call_operands_match_binary
#print axioms pretty_line_shows_operand
#print axioms pretty_step_operands_match_binary
#print axioms pretty_load_names_the_binary_slot
#print axioms pretty_load_line_format
#print axioms pretty_symbol_through_the_table
#print axioms pretty_metavar_text
#print axioms pretty_metavar_block_shows_list
#print axioms Slots.same_id
#print axioms Slots.binary_instructions
#print axioms Slots.pretty_operands
#print axioms Slots.two_load_lines

end C19
