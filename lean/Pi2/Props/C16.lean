import Pi2.MM.TranslateThm
import Pi2.Props.C15
import Pi2.XProofTie
import Pi2.MM.ConvCompose
import Pi2.MM.ConvCoherence
import Pi2.MM.ConvSugar
/-!
# C16 — valid Metamath proofs translate to checkable proofs of the same statement

Model: `Pi2/MM/Translate.lean` — a Metamath verifier for fragment F0 written from the Metamath book
(`mmVerify`), the converter's image of terms (`image`; DECLARED NOTATIONS `$a #Notation ( n args ) body` are part of the
model: `Ctor.body`, expanded by `image` as the converter's closures do — `plug`, `DB.notTab` — and constructors like any
other for `mmVerify`; `DB.wf` asks that a notation symbol has one constructor axiom and that a body mentions the
notation's own variables and, of the notation symbols, earlier ones only), and `exec_proof` + the gamma/claim phases of
`ProofExp.execute_full` (`translateFull`, tree after the `fix:` commit F13), for any memoisation
configuration (`--optimize` or not).  Compressed-proof decoding is C15.

* `translation_succeeds`: every compressed proof the verifier accepts over a well-formed database is
  translated without an exception (enough fuel), and its claim is discharged.
* `translation_accepted`: the checker accepts the three serialised streams and publishes exactly the
  images of the database's axioms and rules (Γ) and the image of the target (claim).
  Hypothesis `CanonCalls`: symbols are named in the order of their first serialisation (names are
  arbitrary labels; the correspondence harness compares bytes, which do not depend on names).
* `layout_independent`: two proofs of the same target — with or without reuse marks, optimised or
  not — give the same outcome.
* `exec_proof_translated`, `exec_proof_step_text_is_the_model`, `exec_proof_text_is_the_model`: `exec_proof` as written in
  `metamath/translate.py` (`Pi2/Gen/ExecProof.lean`, regenerated from the source on every run by `vlib/transxproof.py`:
  closures, branch order, stack indices, `save`/`pop`/`instantiate` sequences, `memory_offset`, the `Z` mark) is the model
  `xstep` / `execProof` the theorems above are stated about — for the converter of a well-formed database
  (`XProofTie.ofDB`) and fuel `≥ 5` (both needed: `XProofTie.wf_needed`, `XProofTie.fuel_needed`); `Pi2/XProofTie.lean`.
* `converter_translated`, `converter_text_state`, `converter_text_is_the_model`: `MetamathConverter` as written in
  `metamath/converter/converter.py` + `scope.py` + `representation.py` (`Pi2/Gen/MMConv.lean`, regenerated from the source on every
  run by `vlib/transconv.py`: `__init__`, `_top_down` with `sort_axiom`, the five `get_*` tests of `_import_floating`, the ten
  predicates of `_check_axiom` in the order they are tried, `_import_axiom` / `_import_lemma` with blocks, `_to_pattern`,
  `_convert_antecedents`, the query methods) on every database of the fragment `ConvTie.InFragment` (decidable; evaluated by the
  driver on every generated database) returns, and answers every query of `exec_proof` about every `$f` and `$a` label exactly as
  `XProofTie.ofDB` of the SPECIFICATION `MM.ConvSpec.dbOfMDb` (`Pi2/MM/ConvSpec.lean`: the model database, label table, numbering
  and target read off the Metamath meaning of the statements) answers it for the label's `Lbl`; `exported_axioms` are the `|-`
  axioms that are not proof rules, in database order; the target's pattern is the image of the goal and its decoded proof is the
  specification's label list and steps.  (`Pi2/MM/ConvTie.lean`, `Pi2/MM/ConvBridge.lean`.)
* `translation_text_is_the_model`: the composition — the generated converter (packaged as the `Conv` of the generated `exec_proof`:
  `ConvTie.convOf`, labels by their names in the label table) + the generated `exec_proof` on a database of the fragment
  (`ConvTie.InFragmentX`) = the model's `execProof` on `dbOfMDb`, the model the theorems at the top of this file are about
  (`Pi2/MM/ConvCompose.lean`, through `XProofCongr.exec_proof_congr` and `XProofTie.exec_proof_tie`).
* `converter_text_is_the_model_of_shape`, `translation_text_is_the_model_of_shape`: the two theorems above WITHOUT a hypothesis
  about the output of `dbOfMDb` or the converter's run: for every database that satisfies `MM.ConvSpec.FragmentShape`
  (`Pi2/MM/ConvShape.lean`) — a decidable predicate on the STATEMENTS alone, written from their Metamath meaning: `$c`/`$v`;
  `v-is-pattern $f #Pattern v` after the `$v` of `v`; pattern-constructor axioms over pairwise different variables, `\imp` / `\app`
  exactly under the labels `imp-is-pattern` / `app-is-pattern`; `|-` axioms and `${ $e … $a $}` rules over declared constants and
  variables with a `$f`; the three proof rules under their names; pairwise different labels; one top-level `$p`, the target, with a
  compressed proof that cites `$f` / `$a` labels.  `ConvCoh.coherence` (`Pi2/MM/ConvCoherence.lean`) proves that `dbOfMDb` accepts
  every such database and that its output is coherent with every statement; `ConvCoh.inFragmentM_of_shape` derives the run
  conditions.  `fragment_shape_example`: the predicate holds of a concrete database (kernel evaluation), so the theorems are not
  vacuous; the driver evaluates it on every generated database.
* `notation_axiom_is_body_image`: what `exec_proof` pushes for a step that cites the constructor axiom of a declared
  notation (`axiom.pattern` = the image of `( n v₁ … vₖ )`) is the image of the notation's body;
  `notation_example`: a concrete database with a declared notation (kernel evaluation).
* The three theorems at the top hold for every well-formed database, with or without declared notations.  The TEXT ties
  (`exec_proof_*` hold for every well-formed database; `converter_*`, `translation_text_*`) go through `dbOfMDb`.
* `#Notation` statements in the SPECIFICATION: `dbOfMDb` = the core specification `dbOfCore` of the database without its
  `#Notation` statements + the bodies at the constructor entries of their heads (`Ctor.body`; numbering and label table unchanged);
  `FragmentShape` = `CoreShape` of the database without them + `sugarShape` (after the constructor axiom of the head, same
  variables; body over those variables and EARLIER notations; one statement per head, in the order of the constructor axioms;
  heads applied to exactly their number of arguments everywhere; labels pairwise different; no `#Notation` statement for `\imp` /
  `\app`: `headsPlain`, Props/C16c).  `spec_without_notations`,
  `core_shape_of_sugarFree`, `sugarFree_of_spec_core`; `fragment_shape_notation_example`, `spec_notation_example`,
  `forward_notation_not_in_shape` (kernel evaluation).  The CONVERTER TEXT ties (`converter_*`, `translation_text_*`, Props/C16b
  `translation_*text*`) are for databases WITHOUT `#Notation` statements (hypothesis `ConvTie.InFragment(X)`, which implies it, resp.
  `FragmentShape` + `sugarFree`): `MetamathConverter._add_notation` is outside the translated fragment of `vlib/transconv.py`
  (`Pi2/Gen/MMConv.lean` answers `Res.outside` on a sugar axiom); the converter's notation paths are tied to the model by the
  byte-for-byte comparison of `vlib/props/c16.py` only.
* NOT covered by a theorem: the byte limits of the wire format (a proof that needs more than 256
  memory slots cannot be serialised: recorded finding KF-C16-slots).
-/
namespace C16
open MM PySt

theorem translation_succeeds (cfg : Cfg) (db : DB) (goal : MM.Term) (labels : List Lbl) (steps : List Nat)
    (hwf : db.wf = true) (hv : mmVerify db goal labels steps = true) :
    ∃ n s calls, translateFull cfg n db goal labels steps = some (some (s, calls)) ∧ s.claims = [] :=
  MM.translate_succeeds cfg db goal labels steps hwf hv

theorem translation_accepted (cfg : Cfg) (db : DB) (goal : MM.Term) (labels : List Lbl) (steps : List Nat)
    (hwf : db.wf = true) (hv : mmVerify db goal labels steps = true) :
    ∃ n s calls g c p,
      translateFull cfg n db goal labels steps = some (some (s, calls)) ∧
      PySt.trackAll n (PySt.init [image db goal]) calls ([], [], []) = some (some (s, (g, c, p))) ∧
      (CanonCalls [] calls →
        verify g c p = some (db.axiomImages.map NPat.expand, [(image db goal).expand])) :=
  MM.translate_verifies cfg db goal labels steps hwf hv

/-- the same for any successful translation, valid Metamath proof or not: what the checker accepts is
always the image of the database and of the target (no other statement can be smuggled in) -/
theorem accepted_translation_claims_the_target (cfg : Cfg) (n : Nat) (db : DB) (goal : MM.Term) (labels : List Lbl)
    (steps : List Nat) (s : PySt) (calls : List Call) (hwf : db.wf = true)
    (hex : translateFull cfg n db goal labels steps = some (some (s, calls)))
    (hcanon : CanonCalls [] calls) (hfin : s.claims = []) :
    ∃ g c p,
      PySt.trackAll n (PySt.init [image db goal]) calls ([], [], []) = some (some (s, (g, c, p))) ∧
      verify g c p = some (db.axiomImages.map NPat.expand, [(image db goal).expand]) :=
  MM.translate_accepted' cfg n db goal labels steps s calls hwf hex hcanon hfin

theorem layout_independent (cfg₁ cfg₂ : Cfg) (n₁ n₂ : Nat) (db : DB) (goal : MM.Term)
    (labels₁ labels₂ : List Lbl) (steps₁ steps₂ : List Nat)
    (s₁ s₂ : PySt) (calls₁ calls₂ : List Call) (g₁ c₁ p₁ g₂ c₂ p₂ : List Instr)
    (hwf : db.wf = true)
    (hex₁ : translateFull cfg₁ n₁ db goal labels₁ steps₁ = some (some (s₁, calls₁)))
    (hT₁ : PySt.trackAll n₁ (PySt.init [image db goal]) calls₁ ([], [], []) = some (some (s₁, (g₁, c₁, p₁))))
    (hcanon₁ : CanonCalls [] calls₁) (hfin₁ : s₁.claims = [])
    (hex₂ : translateFull cfg₂ n₂ db goal labels₂ steps₂ = some (some (s₂, calls₂)))
    (hT₂ : PySt.trackAll n₂ (PySt.init [image db goal]) calls₂ ([], [], []) = some (some (s₂, (g₂, c₂, p₂))))
    (hcanon₂ : CanonCalls [] calls₂) (hfin₂ : s₂.claims = []) :
    verify g₁ c₁ p₁ = verify g₂ c₂ p₂ ∧
      verify g₁ c₁ p₁ = some (db.axiomImages.map NPat.expand, [(image db goal).expand]) :=
  MM.translate_layout_independent cfg₁ cfg₂ n₁ n₂ db goal labels₁ labels₂ steps₁ steps₂ s₁ s₂ calls₁ calls₂
    g₁ c₁ p₁ g₂ c₂ p₂ hwf hex₁ hT₁ hcanon₁ hfin₁ hex₂ hT₂ hcanon₂ hfin₂

/-- every statement of `exec_proof`, its closures and `convert_to_implication` is covered by the translator -/
theorem exec_proof_translated : Gen.XProof.translated = true := XProofTie.translated

/-- one iteration of the loop of `exec_proof` as written (label lookup, dispatch in source order, the interpreter calls of
the branch with their stack positions and deltas, what is appended to `mm_memory`) is `xstep`, for every state, step
number and continuation -/
theorem exec_proof_step_text_is_the_model (cfg : Cfg) (n : Nat) (db : DB) (goal : MM.Term) (labels : List Lbl) (x : XSt)
    (step : Nat) (k : XSt → PyXProof.R) (hwf : db.wf = true) (hn : 5 ≤ n) :
    Gen.XProof.step (XProofTie.ofDB db goal) cfg n labels labels.length x step k =
      PyXProof.bindR (xstep cfg n db labels x step) k :=
  XProofTie.step_tie db goal cfg n labels x step k (DB.wf_WF db hwf) hn

/-- `exec_proof` as written — `mm_memory = []`, `memory_offset = len(labels)`, the loop, the final comparison with the
target's pattern, `publish_proof` — is `execProof`: same exception / out-of-fuel / final tracker state and call history -/
theorem exec_proof_text_is_the_model (cfg : Cfg) (n : Nat) (db : DB) (goal : MM.Term) (labels : List Lbl) (steps : List Nat)
    (s : PySt) (acc : List Call) (hwf : db.wf = true) (hn : 5 ≤ n) :
    XProofTie.outcome (Gen.XProof.exec_proof (XProofTie.ofDB db goal) cfg n labels steps s acc) =
      execProof cfg n db goal labels steps s acc :=
  XProofTie.exec_proof_tie db goal cfg n labels steps s acc (DB.wf_WF db hwf) hn

/-- every statement of the converter paths the fragment exercises is covered by the translator (`vlib/transconv.py`) -/
theorem converter_translated : Gen.MMConv.translated = true := ConvTie.translated

/-- on a database that satisfies the decidable conditions `InFragmentM` the converter as written returns — no exception, no path
outside the modelled fragment, enough fuel — and its final state is `ConvTie.Final`: pattern constructors, proof rules, `_axioms` in
database order with the structural images, `$f` order, the target lemma with its decoded proof -/
theorem converter_text_state (σ : String → Nat) (mdb : MDb) (fuel0 : Nat) (target : String)
    (h : ConvTie.InFragmentM mdb fuel0 target = true) :
    ∃ t prf pf, ConvTie.lemmaOf mdb = some (target, t, prf) ∧
      ConvSup.callImportProof ((ConvTie.floatPairs mdb).map (·.2)) (.prov target [.app "|-" [], t] prf) = .ok pf ∧
      ∀ fuel, fuel0 ≤ fuel → ∃ c, Gen.MMConv.MetamathConverter_init σ fuel default mdb = .ok c ∧ ConvTie.Final σ mdb target t pf c :=
  ConvTie.converter_state σ mdb fuel0 target h

/-- the converter as written is the model: on every database of the fragment it answers the queries of `exec_proof`
(`pattern_constructors`, `_fp_label_to_pattern`, `exported_axioms`, `proof_rules`, `get_axiom_by_name`, `get_metavars_in_order`,
`resolve_metavar`, `get_lemma_by_name`) as `XProofTie.ofDB (dbOfMDb mdb)` does -/
theorem converter_text_is_the_model (mdb : MDb) (target : String) (h : ConvTie.InFragment mdb target = true) :
    ∃ sp, MM.ConvSpec.dbOfMDb mdb target = some sp ∧ sp.db.wf = true ∧
      ∀ fuel, ConvTie.dbFuel mdb ≤ fuel → ∃ c, Gen.MMConv.MetamathConverter_init sp.names.consts.idxOf fuel default mdb = .ok c ∧
        (∀ l v, (l, v) ∈ ConvTie.floatPairs mdb →
          sp.table.lookup l = some (Lbl.float (sp.names.vars.idxOf v)) ∧
          c._fp_label_to_pattern.lookup l = (XProofTie.ofDB sp.db sp.goal).floating (Lbl.float (sp.names.vars.idxOf v)) ∧
          Gen.MMConv.resolve_metavar sp.names.consts.idxOf fuel c v =
            .ok ((XProofTie.ofDB sp.db sp.goal).resolveMetavar (sp.names.vars.idxOf v)) ∧
          Gen.MMConv.is_pattern_constructor sp.names.consts.idxOf fuel c l =
            (XProofTie.ofDB sp.db sp.goal).isPatternConstructor (Lbl.float (sp.names.vars.idxOf v))) ∧
        (∀ st ∈ mdb.filter ConvTie.isAxItem, ∃ l lbl, ConvTie.axLabel st = l ∧ sp.table.lookup l = some lbl ∧
          ConvTie.AgreeAxiom sp.names.consts.idxOf fuel c sp.names sp.db sp.goal l lbl) ∧
        (Gen.MMConv.exported_axioms sp.names.consts.idxOf fuel c =
          ((mdb.filter ConvTie.isAxItem).filter fun st => !ConvTie.isPcItem st && !ConvTie.isPrItem st).map ConvTie.axLabel) ∧
        (∃ a pf, Gen.MMConv.get_lemma_by_name sp.names.consts.idxOf fuel c target = .ok a ∧
          a.pattern = (XProofTie.ofDB sp.db sp.goal).targetPattern ∧ a.proof? = some pf ∧ ConvTie.proofAgrees sp pf = true ∧
          Gen.MMConv.lemmas sp.names.consts.idxOf fuel c = [target]) :=
  let ⟨sp, h1, rest⟩ := ConvTie.converter_agrees mdb target h
  ⟨sp, MM.ConvSpec.dbOfMDb_of_dbOfCore h1, rest⟩

/-- the translation as written is the model: converter text + `exec_proof` text on a database of the fragment = `execProof` on the
specification's database, label list and steps (fuel `≥ dbFuel` for the converter, `≥ 5` for `exec_proof`) -/
theorem translation_text_is_the_model (mdb : MDb) (target : String) (h : ConvTie.InFragmentX mdb target = true) :
    ∃ sp, MM.ConvSpec.dbOfMDb mdb target = some sp ∧
      ∀ fuel, ConvTie.dbFuel mdb ≤ fuel → ∃ c, Gen.MMConv.MetamathConverter_init sp.names.consts.idxOf fuel default mdb = .ok c ∧
        (∃ a pf, Gen.MMConv.get_lemma_by_name sp.names.consts.idxOf fuel c target = .ok a ∧ a.proof? = some pf ∧
          ConvTie.proofAgrees sp pf = true) ∧
        ∀ (cfg : Cfg) (n : Nat) (s : PySt) (acc : List Call), 5 ≤ n →
          XProofTie.outcome (Gen.XProof.exec_proof (ConvTie.convOf sp.names.consts.idxOf fuel c sp target) cfg n sp.labels sp.steps s acc) =
            execProof cfg n sp.db sp.goal sp.labels sp.steps s acc :=
  let ⟨sp, h1, rest⟩ := ConvTie.translation_tie mdb target h
  ⟨sp, MM.ConvSpec.dbOfMDb_of_dbOfCore h1, rest⟩

/-- **coherence of the specification**: on every database of the shape (a predicate on the statements alone) `dbOfMDb` succeeds,
its output agrees with every statement (the conjuncts about `dbOfMDb` of `ConvTie.InFragment` / `ConvTie.InFragmentX`) and its
database is well formed -/
theorem spec_coherent_of_shape (mdb : MDb) (target : String) (h : MM.ConvSpec.FragmentShape mdb target = true)
    (hs : MM.ConvSpec.sugarFree mdb = true) :
    ∃ sp, MM.ConvSpec.dbOfMDb mdb target = some sp ∧ ConvCoh.Coherent mdb target sp ∧ sp.db.wf = true :=
  let ⟨sp, h1, rest⟩ := ConvCoh.coherence mdb target (MM.ConvSpec.coreShape_of_sugarFree h hs)
  ⟨sp, MM.ConvSpec.dbOfMDb_of_dbOfCore h1, rest⟩

/-- the run conditions and the coherence conditions follow from the shape -/
theorem in_fragment_of_shape (mdb : MDb) (target : String) (h : MM.ConvSpec.FragmentShape mdb target = true)
    (hs : MM.ConvSpec.sugarFree mdb = true) :
    ConvTie.InFragmentM mdb (ConvTie.dbFuel mdb) target = true ∧ ConvTie.InFragment mdb target = true ∧
      ConvTie.InFragmentX mdb target = true :=
  have h := MM.ConvSpec.coreShape_of_sugarFree h hs
  ⟨ConvCoh.inFragmentM_of_shape mdb target h, ConvCoh.inFragmentConv_of_shape mdb target h, ConvCoh.inFragmentX_of_shape mdb target h⟩

/-- `converter_text_is_the_model` for every database of the shape `MM.ConvSpec.FragmentShape` — no hypothesis about the run of the
converter or the output of `dbOfMDb` -/
theorem converter_text_is_the_model_of_shape (mdb : MDb) (target : String) (h : MM.ConvSpec.FragmentShape mdb target = true)
    (hs : MM.ConvSpec.sugarFree mdb = true) :
    ∃ sp, MM.ConvSpec.dbOfMDb mdb target = some sp ∧ sp.db.wf = true ∧
      ∀ fuel, ConvTie.dbFuel mdb ≤ fuel → ∃ c, Gen.MMConv.MetamathConverter_init sp.names.consts.idxOf fuel default mdb = .ok c ∧
        (∀ l v, (l, v) ∈ ConvTie.floatPairs mdb →
          sp.table.lookup l = some (Lbl.float (sp.names.vars.idxOf v)) ∧
          c._fp_label_to_pattern.lookup l = (XProofTie.ofDB sp.db sp.goal).floating (Lbl.float (sp.names.vars.idxOf v)) ∧
          Gen.MMConv.resolve_metavar sp.names.consts.idxOf fuel c v =
            .ok ((XProofTie.ofDB sp.db sp.goal).resolveMetavar (sp.names.vars.idxOf v)) ∧
          Gen.MMConv.is_pattern_constructor sp.names.consts.idxOf fuel c l =
            (XProofTie.ofDB sp.db sp.goal).isPatternConstructor (Lbl.float (sp.names.vars.idxOf v))) ∧
        (∀ st ∈ mdb.filter ConvTie.isAxItem, ∃ l lbl, ConvTie.axLabel st = l ∧ sp.table.lookup l = some lbl ∧
          ConvTie.AgreeAxiom sp.names.consts.idxOf fuel c sp.names sp.db sp.goal l lbl) ∧
        (Gen.MMConv.exported_axioms sp.names.consts.idxOf fuel c =
          ((mdb.filter ConvTie.isAxItem).filter fun st => !ConvTie.isPcItem st && !ConvTie.isPrItem st).map ConvTie.axLabel) ∧
        (∃ a pf, Gen.MMConv.get_lemma_by_name sp.names.consts.idxOf fuel c target = .ok a ∧
          a.pattern = (XProofTie.ofDB sp.db sp.goal).targetPattern ∧ a.proof? = some pf ∧ ConvTie.proofAgrees sp pf = true ∧
          Gen.MMConv.lemmas sp.names.consts.idxOf fuel c = [target]) :=
  converter_text_is_the_model mdb target (ConvCoh.inFragmentConv_of_shape mdb target (MM.ConvSpec.coreShape_of_sugarFree h hs))

/-- `translation_text_is_the_model` for every database of the shape `MM.ConvSpec.FragmentShape` -/
theorem translation_text_is_the_model_of_shape (mdb : MDb) (target : String) (h : MM.ConvSpec.FragmentShape mdb target = true)
    (hs : MM.ConvSpec.sugarFree mdb = true) :
    ∃ sp, MM.ConvSpec.dbOfMDb mdb target = some sp ∧
      ∀ fuel, ConvTie.dbFuel mdb ≤ fuel → ∃ c, Gen.MMConv.MetamathConverter_init sp.names.consts.idxOf fuel default mdb = .ok c ∧
        (∃ a pf, Gen.MMConv.get_lemma_by_name sp.names.consts.idxOf fuel c target = .ok a ∧ a.proof? = some pf ∧
          ConvTie.proofAgrees sp pf = true) ∧
        ∀ (cfg : Cfg) (n : Nat) (s : PySt) (acc : List Call), 5 ≤ n →
          XProofTie.outcome (Gen.XProof.exec_proof (ConvTie.convOf sp.names.consts.idxOf fuel c sp target) cfg n sp.labels sp.steps s acc) =
            execProof cfg n sp.db sp.goal sp.labels sp.steps s acc :=
  translation_text_is_the_model mdb target (ConvCoh.inFragmentX_of_shape mdb target (MM.ConvSpec.coreShape_of_sugarFree h hs))

/-- non-vacuity: a concrete database of the shape — constants, a binary constructor, `\imp` / `\app`, three `$f` statements in
shuffled order, an axiom, a rule with two hypotheses, the three proof rules, a goal with a compressed proof
(`MM.ConvSpec.Example.db`); evaluated by the kernel -/
theorem fragment_shape_example : MM.ConvSpec.FragmentShape MM.ConvSpec.Example.db "goal" = true := by decide +kernel

/-- … to which the theorems therefore apply -/
example : ∃ sp, MM.ConvSpec.dbOfMDb MM.ConvSpec.Example.db "goal" = some sp ∧ sp.db.wf = true :=
  let ⟨sp, h1, h2, _⟩ := converter_text_is_the_model_of_shape _ _ fragment_shape_example (by decide +kernel)
  ⟨sp, h1, h2⟩

/-! ## declared notations -/

/-- on a database without `#Notation` statements the specification is the core specification (the one the converter tie is about) -/
theorem spec_without_notations (mdb : MDb) (target : String) (h : MM.ConvSpec.sugarFree mdb = true) :
    MM.ConvSpec.dbOfMDb mdb target = MM.ConvSpec.dbOfCore mdb target :=
  MM.ConvSpec.dbOfMDb_of_sugarFree h target

/-- `FragmentShape` of a database without `#Notation` statements is the notation-free shape `CoreShape` (hypothesis of
`ConvCoh.coherence` / `ConvCoh.inFragment_of_shape`) … -/
theorem core_shape_of_sugarFree (mdb : MDb) (target : String) (h : MM.ConvSpec.FragmentShape mdb target = true)
    (hs : MM.ConvSpec.sugarFree mdb = true) : MM.ConvSpec.CoreShape mdb target = true :=
  MM.ConvSpec.coreShape_of_sugarFree h hs

/-- conservativity: every database of the notation-free shape `CoreShape` (the hypothesis of the `…_of_shape` theorems before
`#Notation` statements entered the specification) has the shape and no `#Notation` statement — so `FragmentShape` + `sugarFree`
is exactly `CoreShape`, and the `…_of_shape` theorems cover exactly the databases they covered -/
theorem fragment_shape_of_core_shape (mdb : MDb) (target : String) (h : MM.ConvSpec.CoreShape mdb target = true) :
    MM.ConvSpec.FragmentShape mdb target = true ∧ MM.ConvSpec.sugarFree mdb = true :=
  ⟨MM.ConvSpec.fragmentShape_of_coreShape h, MM.ConvSpec.sugarFree_of_coreShape h⟩

/-- … and whatever the core specification accepts (in particular every database of `ConvTie.InFragment`) has no `#Notation` statement -/
theorem sugarFree_of_spec_core (mdb : MDb) (target : String) (sp : MM.ConvSpec.Spec) (h : MM.ConvSpec.dbOfCore mdb target = some sp) :
    MM.ConvSpec.sugarFree mdb = true ∧ MM.ConvSpec.dbOfMDb mdb target = some sp :=
  ⟨MM.ConvSpec.sugarFree_of_dbOfCore h, MM.ConvSpec.dbOfMDb_of_dbOfCore h⟩

/-- non-vacuity of `FragmentShape` WITH `#Notation` statements: `Example.dbN` (two notations, the second over the first, used in an
axiom and in the goal); kernel evaluation -/
theorem fragment_shape_notation_example : MM.ConvSpec.FragmentShape MM.ConvSpec.Example.dbN "goal" = true :=
  MM.ConvSpec.Example.dbN_in_fragment

/-- … on which `dbOfMDb` returns a well-formed database (`DB.wf`, incl. `notOk`) whose proof `mmVerify` accepts, with exactly the
bodies `n x := f x (x → c)`, `m := n c` at the constructor entries of `n` and `m` -/
theorem spec_notation_example :
    (match MM.ConvSpec.dbOfMDb MM.ConvSpec.Example.dbN "goal" with
     | some sp => sp.db.wf && mmVerify sp.db sp.goal sp.labels sp.steps &&
        (sp.db.ctors.map fun k => (k.sym, k.args, k.body.isSome)) == [(6, [], false), (7, [2, 0], false), (9, [0], true), (10, [], true)] &&
        (sp.db.ctors.filterMap (·.body)) == [MM.Term.con 7 [.var 0, .imp (.var 0) (.con 6 [])], MM.Term.con 9 [.con 6 []]]
     | none => false) = true :=
  MM.ConvSpec.Example.dbN_spec

/-- the clause "a `#Notation` statement comes after the notations its body uses" (KF-C16-forward-notation): the same database with the
two `#Notation` statements exchanged is not of the shape -/
theorem forward_notation_not_in_shape : MM.ConvSpec.FragmentShape MM.ConvSpec.Example.dbFwd "goal" = false :=
  MM.ConvSpec.Example.dbFwd_not_in_fragment

/-- a step that cites the constructor axiom `n-is-pattern` of a declared notation: `xstep` (`xCtor`) pushes
`image db ( n v₁ … vₖ )` — `axiom.pattern`, the notation's closure called on its own metavariables —, and that is the image of
the notation's body -/
theorem notation_axiom_is_body_image (db : DB) (k : Nat) (c : Ctor) (b : MM.Term) (hwf : db.wf = true)
    (hk : db.ctors[k]? = some c) (hb : c.body = some b) :
    image db (.con c.sym (c.args.map .var)) = image db b :=
  MM.image_notation_axiom db hwf k c b hk hb

/-- a database without declared notations: `image` is the plain structural image (symbol applied with nested `\app`) -/
theorem image_without_notations (db : DB) (h : ∀ c ∈ db.ctors, c.body = none) (c : Nat) (xs : List MM.Term) :
    image db (.con c xs) = (xs.map (image db)).foldl (fun a p => NPat.app a p) (.sym c) := by
  rw [MM.image_con_plain db h, ConvTie.imageApp_foldl]

/-! ### a concrete database -/

namespace NotationExample

/-- `$f` statements for `x y z` (`0 1 2`); a binary constructor `( f x y )` (symbol 7), a constant `c` (symbol 3) and the declared
notation `d-is-pattern $a #Pattern ( d x ) $.`, `d-is-sugar $a #Notation ( d x ) ( f x x ) $.` (symbol 9: its body applies the
binary constructor to its argument twice); the axiom `ax $a |- ( d x ) $.`; the three proof rules -/
def db : DB :=
  { floats := [0, 1, 2], impArgs := (0, 1), appArgs := (0, 1),
    ctors := [{ sym := 7, args := [0, 1] }, { sym := 3, args := [] },
              { sym := 9, args := [0], body := some (.con 7 [.var 0, .var 0]) }],
    rules := [⟨[], .con 9 [.var 0]⟩], p1 := (0, 1), p2 := (0, 1, 2), mp := (0, 1) }

/-- `( d ( d c ) )`: the notation applied to itself -/
def goal : MM.Term := .con 9 [.con 9 [.con 3 []]]
/-- `c-is-pattern d-is-pattern ax`: builds `#Pattern ( d c )` and applies the axiom to it -/
def labels : List Lbl := [.ctor 1, .ctor 2, .rule 0]
def steps : List Nat := [1, 2, 3]

/-- `f c c` and `f (f c c) (f c c)` as patterns -/
def fcc : Pat := .app (.app (.sym 7) (.sym 3)) (.sym 3)
def ffcc : Pat := .app (.app (.sym 7) fcc) fcc

end NotationExample

/-- non-vacuity for declared notations: the database `NotationExample.db` is well formed, Metamath accepts the proof of
`|- ( d ( d c ) )` (for Metamath `d` is a constructor like any other), the image of the target has the notation expanded twice
(`f (f c c) (f c c)`), the image of the axiom `|- ( d x )` is `f x x`; so `translation_accepted` applies and the checker publishes
exactly these two patterns.  All facts by kernel evaluation. -/
theorem notation_example :
    NotationExample.db.wf = true ∧
    mmVerify NotationExample.db NotationExample.goal NotationExample.labels NotationExample.steps = true ∧
    (image NotationExample.db NotationExample.goal).expand = NotationExample.ffcc ∧
    NotationExample.db.axiomImages.map NPat.expand =
      [.app (.app (.sym 7) (.mv 0 [] [] [] [] [])) (.mv 0 [] [] [] [] [])] ∧
    ∀ cfg : Cfg, ∃ n s calls g c p,
      translateFull cfg n NotationExample.db NotationExample.goal NotationExample.labels NotationExample.steps
        = some (some (s, calls)) ∧
      PySt.trackAll n (PySt.init [image NotationExample.db NotationExample.goal]) calls ([], [], []) = some (some (s, (g, c, p))) ∧
      (CanonCalls [] calls →
        verify g c p = some ([.app (.app (.sym 7) (.mv 0 [] [] [] [] [])) (.mv 0 [] [] [] [] [])], [NotationExample.ffcc])) := by
  have hwf : NotationExample.db.wf = true := by decide +kernel
  have hv : mmVerify NotationExample.db NotationExample.goal NotationExample.labels NotationExample.steps = true := by
    decide +kernel
  have hg : (image NotationExample.db NotationExample.goal).expand = NotationExample.ffcc := by decide +kernel
  have ha : NotationExample.db.axiomImages.map NPat.expand =
      [.app (.app (.sym 7) (.mv 0 [] [] [] [] [])) (.mv 0 [] [] [] [] [])] := by decide +kernel
  refine ⟨hwf, hv, hg, ha, fun cfg => ?_⟩
  obtain ⟨n, s, calls, g, c, p, h1, h2, h3⟩ :=
    translation_accepted cfg NotationExample.db NotationExample.goal NotationExample.labels NotationExample.steps hwf hv
  exact ⟨n, s, calls, g, c, p, h1, h2, fun hc => by rw [h3 hc, ha, hg]⟩

end C16
