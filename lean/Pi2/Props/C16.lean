import Pi2.MM.TranslateThm
import Pi2.Props.C15
import Pi2.XProofTie
/-!
# C16 — valid Metamath proofs translate to checkable proofs of the same statement

Model: `Pi2/MM/Translate.lean` — a Metamath verifier for fragment F0 written from the Metamath book
(`mmVerify`), the converter's image of terms (`image`), and `exec_proof` + the gamma/claim phases of
`ProofExp.execute_full` (`translateFull`, tree after the `fix:` commit F13), for any memoisation
configuration (`--optimize` or not).  Compressed-proof decoding is C15.

* `translation_succeeds`: every compressed proof the verifier accepts over a well-formed database is
  translated without an exception (enough fuel), and its claim is discharged.
* `translation_accepted`: the checker accepts the three serialised streams and publishes exactly the
  images of the database's axioms and rules (Γ) and the image of the target (claim).
  Hypothesis `CanonCalls`: symbols are named in the order of their first serialisation (names are
  arbitrary labels; the correspondence harness compares bytes, which do not depend on names).
* `layout_independent`: two proofs of the same target — with or without reuse marks, optimised or
  not — give the same outcome.
* `exec_proof_translated`, `exec_proof_step_text_is_the_model`, `exec_proof_text_is_the_model`: `exec_proof` as written in
  `metamath/translate.py` (`Pi2/Gen/ExecProof.lean`, regenerated from the source on every run by `vlib/transxproof.py`:
  closures, branch order, stack indices, `save`/`pop`/`instantiate` sequences, `memory_offset`, the `Z` mark) is the model
  `xstep` / `execProof` the theorems above are stated about — for the converter of a well-formed database
  (`XProofTie.ofDB`) and fuel `≥ 5` (both needed: `XProofTie.wf_needed`, `XProofTie.fuel_needed`); `Pi2/XProofTie.lean`.
* NOT covered by a theorem: the byte limits of the wire format (a proof that needs more than 256
  memory slots cannot be serialised: recorded finding KF-C16-slots) and declared notation sugar
  (`#Notation` axioms), which are outside F0.
-/
namespace C16
open MM PySt

theorem translation_succeeds (cfg : Cfg) (db : DB) (goal : MM.Term) (labels : List Lbl) (steps : List Nat)
    (hwf : db.wf = true) (hv : mmVerify db goal labels steps = true) :
    ∃ n s calls, translateFull cfg n db goal labels steps = some (some (s, calls)) ∧ s.claims = [] :=
  MM.translate_succeeds cfg db goal labels steps hwf hv

theorem translation_accepted (cfg : Cfg) (db : DB) (goal : MM.Term) (labels : List Lbl) (steps : List Nat)
    (hwf : db.wf = true) (hv : mmVerify db goal labels steps = true) :
    ∃ n s calls g c p,
      translateFull cfg n db goal labels steps = some (some (s, calls)) ∧
      PySt.trackAll n (PySt.init [image db goal]) calls ([], [], []) = some (some (s, (g, c, p))) ∧
      (CanonCalls [] calls →
        verify g c p = some (db.axiomImages.map NPat.expand, [(image db goal).expand])) :=
  MM.translate_verifies cfg db goal labels steps hwf hv

/-- the same for any successful translation, valid Metamath proof or not: what the checker accepts is
always the image of the database and of the target (no other statement can be smuggled in) -/
theorem accepted_translation_claims_the_target (cfg : Cfg) (n : Nat) (db : DB) (goal : MM.Term) (labels : List Lbl)
    (steps : List Nat) (s : PySt) (calls : List Call) (hwf : db.wf = true)
    (hex : translateFull cfg n db goal labels steps = some (some (s, calls)))
    (hcanon : CanonCalls [] calls) (hfin : s.claims = []) :
    ∃ g c p,
      PySt.trackAll n (PySt.init [image db goal]) calls ([], [], []) = some (some (s, (g, c, p))) ∧
      verify g c p = some (db.axiomImages.map NPat.expand, [(image db goal).expand]) :=
  MM.translate_accepted' cfg n db goal labels steps s calls hwf hex hcanon hfin

theorem layout_independent (cfg₁ cfg₂ : Cfg) (n₁ n₂ : Nat) (db : DB) (goal : MM.Term)
    (labels₁ labels₂ : List Lbl) (steps₁ steps₂ : List Nat)
    (s₁ s₂ : PySt) (calls₁ calls₂ : List Call) (g₁ c₁ p₁ g₂ c₂ p₂ : List Instr)
    (hwf : db.wf = true)
    (hex₁ : translateFull cfg₁ n₁ db goal labels₁ steps₁ = some (some (s₁, calls₁)))
    (hT₁ : PySt.trackAll n₁ (PySt.init [image db goal]) calls₁ ([], [], []) = some (some (s₁, (g₁, c₁, p₁))))
    (hcanon₁ : CanonCalls [] calls₁) (hfin₁ : s₁.claims = [])
    (hex₂ : translateFull cfg₂ n₂ db goal labels₂ steps₂ = some (some (s₂, calls₂)))
    (hT₂ : PySt.trackAll n₂ (PySt.init [image db goal]) calls₂ ([], [], []) = some (some (s₂, (g₂, c₂, p₂))))
    (hcanon₂ : CanonCalls [] calls₂) (hfin₂ : s₂.claims = []) :
    verify g₁ c₁ p₁ = verify g₂ c₂ p₂ ∧
      verify g₁ c₁ p₁ = some (db.axiomImages.map NPat.expand, [(image db goal).expand]) :=
  MM.translate_layout_independent cfg₁ cfg₂ n₁ n₂ db goal labels₁ labels₂ steps₁ steps₂ s₁ s₂ calls₁ calls₂
    g₁ c₁ p₁ g₂ c₂ p₂ hwf hex₁ hT₁ hcanon₁ hfin₁ hex₂ hT₂ hcanon₂ hfin₂

/-- every statement of `exec_proof`, its closures and `convert_to_implication` is covered by the translator -/
theorem exec_proof_translated : Gen.XProof.translated = true := XProofTie.translated

/-- one iteration of the loop of `exec_proof` as written (label lookup, dispatch in source order, the interpreter calls of
the branch with their stack positions and deltas, what is appended to `mm_memory`) is `xstep`, for every state, step
number and continuation -/
theorem exec_proof_step_text_is_the_model (cfg : Cfg) (n : Nat) (db : DB) (goal : MM.Term) (labels : List Lbl) (x : XSt)
    (step : Nat) (k : XSt → PyXProof.R) (hwf : db.wf = true) (hn : 5 ≤ n) :
    Gen.XProof.step (XProofTie.ofDB db goal) cfg n labels labels.length x step k =
      PyXProof.bindR (xstep cfg n db labels x step) k :=
  XProofTie.step_tie db goal cfg n labels x step k (DB.wf_WF db hwf) hn

/-- `exec_proof` as written — `mm_memory = []`, `memory_offset = len(labels)`, the loop, the final comparison with the
target's pattern, `publish_proof` — is `execProof`: same exception / out-of-fuel / final tracker state and call history -/
theorem exec_proof_text_is_the_model (cfg : Cfg) (n : Nat) (db : DB) (goal : MM.Term) (labels : List Lbl) (steps : List Nat)
    (s : PySt) (acc : List Call) (hwf : db.wf = true) (hn : 5 ≤ n) :
    XProofTie.outcome (Gen.XProof.exec_proof (XProofTie.ofDB db goal) cfg n labels steps s acc) =
      execProof cfg n db goal labels steps s acc :=
  XProofTie.exec_proof_tie db goal cfg n labels steps s acc (DB.wf_WF db hwf) hn

end C16
