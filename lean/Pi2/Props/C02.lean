import Pi2.ModuleThm
import Pi2.Props.C01
/-!
# C02 — every proof the toolkit generates is accepted by the checker
# C03 — the published theory and claims are exactly what was declared (same theorem)

`PModule.executeFull cfg` is `ProofExp.execute_full` on the serializer, plain or through the
memoising optimiser with any suggestion set; `trackAll` gives the three instruction streams it
writes; `verify` is the checker.

The full-strength statement of C02 ("if the toolkit accepts a proof expression, the checker does
not reject its serialisation") is **false** — `C02.acceptance_fails_without_side_conditions` is a
machine-checked witness — because the generator checks neither well-formedness nor metavariable
constraints nor capture (known findings).  What holds (`_partial`): under the explicit side
conditions `AllSideM` (every call passes the machine's checks — `SideCond` — and no call touches a
publish residue; canonical symbol names; shaped patterns) and provided every declared claim has a
proof (`s.claims = []`), the checker accepts, and what it publishes is exactly the declaration.
-/
set_option linter.unusedVariables false
namespace C02
open PySt

/-- **C02 (partial) and C03**: the checker accepts the serialised module and the publish journal is
exactly (axioms of imported modules depth-first, then own axioms; claims reversed) — for every
memoisation configuration `cfg`, hence identically with and without optimisation -/
theorem generated_module_accepted_partial (cfg : Cfg) (n : Nat) (m : PModule) (s : PySt) (calls : List Call)
    (g c p : List Instr)
    (hgam : ∀ a ∈ m.gammaAxioms, a.Shape = true) (hclm : ∀ a ∈ m.claimsOf, a.Shape = true)
    (hax : AxShaped m.axiomsOf) (hpfs : ∀ pf ∈ m.proofsOf, pf.Shaped)
    (hex : PModule.executeFull cfg n m = some (some (s, calls)))
    (hT : PySt.trackAll n (PySt.init m.claimsOf) calls ([], [], []) = some (some (s, (g, c, p))))
    (hside : AllSideM n (PySt.init m.claimsOf) calls) (hfin : s.claims = []) :
    verify g c p = some (m.gammaAxioms.map NPat.expand, m.claimsOf.reverse.map NPat.expand) :=
  module_accepted cfg n m s calls g c p hgam hclm hax hpfs hex hT hside hfin

/-- with C01: every declared claim of an accepted generated module is valid in every model of its
declared axioms -/
theorem generated_module_sound (cfg : Cfg) (n : Nat) (m : PModule) (s : PySt) (calls : List Call)
    (g c p : List Instr)
    (hgam : ∀ a ∈ m.gammaAxioms, a.Shape = true) (hclm : ∀ a ∈ m.claimsOf, a.Shape = true)
    (hax : AxShaped m.axiomsOf) (hpfs : ∀ pf ∈ m.proofsOf, pf.Shaped)
    (hex : PModule.executeFull cfg n m = some (some (s, calls)))
    (hT : PySt.trackAll n (PySt.init m.claimsOf) calls ([], [], []) = some (some (s, (g, c, p))))
    (hside : AllSideM n (PySt.init m.claimsOf) calls) (hfin : s.claims = [])
    (𝔐 : Model) (hΓ : ∀ a ∈ m.gammaAxioms, ValidM 𝔐 a.expand) : ∀ q ∈ m.claimsOf, ValidM 𝔐 q.expand := by
  have hv := generated_module_accepted_partial cfg n m s calls g c p hgam hclm hax hpfs hex hT hside hfin
  intro q hq
  apply C01.verify_sound g c p _ _ hv 𝔐
  · intro a ha
    simp only [List.mem_map] at ha
    obtain ⟨a0, h0, rfl⟩ := ha
    exact hΓ a0 h0
  · simp only [List.mem_map, List.mem_reverse]
    exact ⟨q, hq, rfl⟩

/-- the side conditions are needed: the tracker accepts `μX0.(X0 → ⊥)` (non-positive body) as an axiom,
the machine rejects the `Mu` instruction -/
theorem acceptance_fails_without_side_conditions :
    ∃ (calls : List Call) (s : PySt) (g c p : List Instr),
      PySt.trackAll 20 (PySt.init []) calls ([], [], []) = some (some (s, (g, c, p))) ∧ verify g c p = none := by
  refine ⟨[.svar 0, .svar 0, .mu 0, .implies, .mu 0, .publishAxiom, .intoClaim, .intoProof], ?_⟩
  refine ⟨_, _, _, _, rfl, ?_⟩
  decide

end C02

namespace C03
open PySt

/-- **the publish journal is the declaration** (see `C02.generated_module_accepted_partial`) -/
theorem journal_is_declaration (cfg : Cfg) (n : Nat) (m : PModule) (s : PySt) (calls : List Call)
    (g c p : List Instr)
    (hgam : ∀ a ∈ m.gammaAxioms, a.Shape = true) (hclm : ∀ a ∈ m.claimsOf, a.Shape = true)
    (hax : AxShaped m.axiomsOf) (hpfs : ∀ pf ∈ m.proofsOf, pf.Shaped)
    (hex : PModule.executeFull cfg n m = some (some (s, calls)))
    (hT : PySt.trackAll n (PySt.init m.claimsOf) calls ([], [], []) = some (some (s, (g, c, p))))
    (hside : AllSideM n (PySt.init m.claimsOf) calls) (hfin : s.claims = []) :
    verify g c p = some (m.gammaAxioms.map NPat.expand, m.claimsOf.reverse.map NPat.expand) :=
  module_accepted cfg n m s calls g c p hgam hclm hax hpfs hex hT hside hfin

/-- identical with and without optimisation: two serialisations of the same module under different
memoisation configurations publish the same journal -/
theorem memoisation_keeps_journal (cfg₁ cfg₂ : Cfg) (n₁ n₂ : Nat) (m : PModule) (s₁ s₂ : PySt)
    (calls₁ calls₂ : List Call) (g₁ c₁ p₁ g₂ c₂ p₂ : List Instr)
    (hgam : ∀ a ∈ m.gammaAxioms, a.Shape = true) (hclm : ∀ a ∈ m.claimsOf, a.Shape = true)
    (hax : AxShaped m.axiomsOf) (hpfs : ∀ pf ∈ m.proofsOf, pf.Shaped)
    (hex₁ : PModule.executeFull cfg₁ n₁ m = some (some (s₁, calls₁)))
    (hT₁ : PySt.trackAll n₁ (PySt.init m.claimsOf) calls₁ ([], [], []) = some (some (s₁, (g₁, c₁, p₁))))
    (hside₁ : AllSideM n₁ (PySt.init m.claimsOf) calls₁) (hfin₁ : s₁.claims = [])
    (hex₂ : PModule.executeFull cfg₂ n₂ m = some (some (s₂, calls₂)))
    (hT₂ : PySt.trackAll n₂ (PySt.init m.claimsOf) calls₂ ([], [], []) = some (some (s₂, (g₂, c₂, p₂))))
    (hside₂ : AllSideM n₂ (PySt.init m.claimsOf) calls₂) (hfin₂ : s₂.claims = []) :
    verify g₁ c₁ p₁ = verify g₂ c₂ p₂ := by
  rw [module_accepted cfg₁ n₁ m s₁ calls₁ g₁ c₁ p₁ hgam hclm hax hpfs hex₁ hT₁ hside₁ hfin₁,
      module_accepted cfg₂ n₂ m s₂ calls₂ g₂ c₂ p₂ hgam hclm hax hpfs hex₂ hT₂ hside₂ hfin₂]

/-- symbol numbers: the id the serializer writes for a name already in its table is the position of
the name's first occurrence … -/
theorem symbol_id_is_table_position (tab : List Nat) (a : Nat) (ha : a ∈ tab) : tab[symId tab a]? = some a := by
  simp only [symId]
  cases h : tab.idxOf? a with
  | none => exact absurd ha (List.idxOf?_eq_none_iff.mp h)
  | some i =>
    obtain ⟨hi, hget, _⟩ := List.idxOf?_eq_some_iff.mp h
    simp only []
    rw [List.getElem?_eq_getElem hi, hget]

/-- … hence distinct symbols receive distinct numbers, in all three files (one table) -/
theorem symbol_ids_injective (tab : List Nat) (a b : Nat) (ha : a ∈ tab) (hb : b ∈ tab)
    (h : symId tab a = symId tab b) : a = b := by
  have h1 := symbol_id_is_table_position tab a ha
  have h2 := symbol_id_is_table_position tab b hb
  rw [h] at h1
  rw [h1] at h2
  exact Option.some.inj h2

/-- a name keeps its number when new symbols are added to the table -/
theorem symbol_id_stable (tab : List Nat) (a x : Nat) (ha : a ∈ tab) : symId (tab ++ [x]) a = symId tab a := by
  simp only [symId]
  cases h : tab.idxOf? a with
  | none => exact absurd ha (List.idxOf?_eq_none_iff.mp h)
  | some i =>
    obtain ⟨hi, hget, hmin⟩ := List.idxOf?_eq_some_iff.mp h
    have : (tab ++ [x]).idxOf? a = some i := by
      apply List.idxOf?_eq_some_iff.mpr
      refine ⟨by simp; omega, ?_, ?_⟩
      · rw [List.getElem_append_left hi]; exact hget
      · intro j hj
        have hjl : j < tab.length := by omega
        rw [List.getElem_append_left hjl]; exact hmin j hj
    rw [this]

/-- a module that cannot be encoded is refused: every id written to a file is below 256 whenever the
byte writer accepts (`bytes([...])` raises on a value above 255 — modelled in the driver; stated here
for the model's wire predicate) -/
theorem ids_fit_in_a_byte (is : List Instr) (h : ∀ b ∈ encode is, b ≤ 255) : Wire (encode is) := by
  intro b hb; have := h b hb; omega

end C03
