import Pi2.LemmaThm
import Pi2.Gen.Lemmas
/-!
# C10 — every library lemma returns its documented schema

`Gen.lemmaDefs` are the bodies of the schematic methods of `proofs/propositional.py` and `tautology.py`
(translated on every run), `Gen.lemmaSpecs` their documented schemas.  For every documented entry point,
applied to ANY argument patterns and ANY premise proofs whose conclusions have the documented shape (any
instantiation `ρ` of the schema's metavariables, including binders, substitutions and constrained
metavariables):

* `conc_stable` — the conclusion the thunk advertises is the instance of the documented conclusion;
* `conclusion_is_schema` — the returned proof tree means (`Pf.Sem`: the documented rules) that instance;
* `replays_to_schema` — whenever the run of the returned tree on the basic interpreter returns, it returns
  the instance.

The two facts about the generated tables are checked by kernel evaluation (`all_defs_wf`,
`all_schemas_hold_at_generic_point`); everything else is `Pi2.LemmaThm` (homomorphism and stability, proved
once for the language).
-/
open Pat

namespace C10
open Lem

/-- no body mentions a metavariable of its own; the instantiated axioms get three arguments -/
theorem all_defs_wf : ∀ d ∈ Gen.lemmaDefs, d.wf = true := by decide +kernel

/-- at the generic point (parameters and premises as documented), the conclusion is the documented one -/
theorem all_schemas_hold_at_generic_point : ∀ s ∈ Gen.lemmaSpecs, s.holds Gen.lemmaDefs = true := by
  decide +kernel

/-- the documented pattern parameters are the distinct metavariables `phi 0, …, phi (n-1)` -/
theorem all_params_generic : ∀ s ∈ Gen.lemmaSpecs, s.params = (List.range s.params.length).map phi := by
  decide +kernel

theorem holds_iff (defs : List Def) (s : Spec) (h : s.holds defs = true) :
    ∃ g, (sem algC defs)[s.idx]? = some g ∧ g s.params s.premises = some s.concl := by
  unfold Spec.holds at h
  split at h
  · rename_i f hf
    exact ⟨f, hf, eq_of_beq h⟩
  · cases h

/-- conclusions: for every documented entry point, all argument patterns, all premise conclusions of the
documented shape -/
theorem conc_stable (s : Lem.Spec) (hs : s ∈ Gen.lemmaSpecs) (ρ : Nat → Option Pat) :
    ∃ g, (Lem.sem Lem.algC Gen.lemmaDefs)[s.idx]? = some g ∧
      g (s.params.map (Py.inst ρ)) (s.premises.map (Py.inst ρ)) = some (Py.inst ρ s.concl) := by
  obtain ⟨g, hg, h⟩ := holds_iff Gen.lemmaDefs s (all_schemas_hold_at_generic_point s hs)
  exact ⟨g, hg, sem_stable Gen.lemmaDefs all_defs_wf ρ s.idx g hg _ _ _ h⟩

/-- proof trees: any premise proofs of the required shape -/
theorem conclusion_is_schema (s : Lem.Spec) (hs : s ∈ Gen.lemmaSpecs) (ρ : Nat → Option Pat)
    (ts : List Lem.GTh) (hprem : ts.map Lem.GTh.conc = s.premises.map (Py.inst ρ)) :
    ∃ f th, (Lem.sem Lem.algG Gen.lemmaDefs)[s.idx]? = some f ∧
      f (s.params.map (Py.inst ρ)) ts = some th ∧
      th.conc = Py.inst ρ s.concl ∧ Pf.Sem th.pf (Py.inst ρ s.concl) := by
  obtain ⟨g, hg, h⟩ := conc_stable s hs ρ
  obtain ⟨f, hf, hfg⟩ := sem_hom_get Gen.lemmaDefs s.idx g hg
  have hh := hfg (s.params.map (Py.inst ρ)) ts
  rw [hprem, h] at hh
  cases hft : f (s.params.map (Py.inst ρ)) ts with
  | none => rw [hft] at hh; cases hh
  | some th =>
    rw [hft] at hh
    simp only [Option.map_some, Option.some.injEq] at hh
    exact ⟨f, th, hf, hft, hh, hh ▸ th.ok⟩

/-- replay: whenever the basic interpreter run of the returned tree returns (shaped tree and axioms), it
returns the schema -/
theorem replays_to_schema (s : Lem.Spec) (hs : s ∈ Gen.lemmaSpecs) (ρ : Nat → Option Pat)
    (ts : List Lem.GTh) (hprem : ts.map Lem.GTh.conc = s.premises.map (Py.inst ρ))
    (f : Lem.Fun Lem.GTh) (th : Lem.GTh)
    (hf : (Lem.sem Lem.algG Gen.lemmaDefs)[s.idx]? = some f)
    (hth : f (s.params.map (Py.inst ρ)) ts = some th)
    (ax : List NPat) (hax : AxShaped ax) (hsh : th.pf.Shaped) (k : Nat) (c : NPat)
    (hrun : Pf.runBasicF ax k th.pf = some (some c)) : c.expand = Py.inst ρ s.concl := by
  obtain ⟨f', th', hf', hth', hc, _⟩ := conclusion_is_schema s hs ρ ts hprem
  rw [hf] at hf'
  cases hf'
  rw [hth] at hth'
  cases hth'
  have hS := (Pf.runBasicF_sem ax k th.pf c hax hsh hrun).1
  rw [← hc]
  exact Pf.Sem.functional hS th.ok

/-! ## applied to ANY argument patterns -/

/-- the instantiation sending the `i`-th parameter to the `i`-th argument, and the remaining metavariables
of the schema (those of the premises) wherever `ρ'` sends them -/
def argSubst (args : List Pat) (ρ' : Nat → Option Pat) (i : Nat) : Option Pat :=
  if i < args.length then args[i]? else ρ' i

theorem params_argSubst (args : List Pat) (ρ' : Nat → Option Pat) :
    ((List.range args.length).map phi).map (Py.inst (argSubst args ρ')) = args := by
  apply List.ext_getElem
  · simp
  · intro i h1 h2
    simp only [List.getElem_map, List.getElem_range]
    rw [inst_phi]
    unfold argSubst
    rw [if_pos h2, List.getElem?_eq_getElem h2]

theorem spec_params_args (s : Lem.Spec) (hs : s ∈ Gen.lemmaSpecs) (args : List Pat)
    (hlen : args.length = s.params.length) (ρ' : Nat → Option Pat) :
    s.params.map (Py.inst (argSubst args ρ')) = args := by
  have := all_params_generic s hs
  rw [← hlen] at this
  rw [this]
  exact params_argSubst args ρ'

/-- explicit arguments: the entry point applied to any `args` (one per documented parameter) and any
premise proofs of the documented shape returns a tree that means the documented conclusion at `args` -/
theorem conclusion_is_schema_args (s : Lem.Spec) (hs : s ∈ Gen.lemmaSpecs) (args : List Pat)
    (hlen : args.length = s.params.length) (ρ' : Nat → Option Pat) (ts : List Lem.GTh)
    (hprem : ts.map Lem.GTh.conc = s.premises.map (Py.inst (argSubst args ρ'))) :
    ∃ f th, (Lem.sem Lem.algG Gen.lemmaDefs)[s.idx]? = some f ∧ f args ts = some th ∧
      th.conc = Py.inst (argSubst args ρ') s.concl ∧
      Pf.Sem th.pf (Py.inst (argSubst args ρ') s.concl) := by
  have := conclusion_is_schema s hs (argSubst args ρ') ts hprem
  rw [spec_params_args s hs args hlen ρ'] at this
  exact this

theorem conc_stable_args (s : Lem.Spec) (hs : s ∈ Gen.lemmaSpecs) (args : List Pat)
    (hlen : args.length = s.params.length) (ρ' : Nat → Option Pat) :
    ∃ g, (Lem.sem Lem.algC Gen.lemmaDefs)[s.idx]? = some g ∧
      g args (s.premises.map (Py.inst (argSubst args ρ'))) =
        some (Py.inst (argSubst args ρ') s.concl) := by
  have := conc_stable s hs (argSubst args ρ')
  rw [spec_params_args s hs args hlen ρ'] at this
  exact this

/-! ## non-vacuity -/

/-- a premise proof: an axiom of the module -/
def axTh (a : Pat) : GTh := ⟨.loadAxiom (NPat.ofPat a), a, by
  have := Pf.Sem.loadAxiom (a := NPat.ofPat a); rw [ofPat_expand] at this; exact this⟩

/-- the documented schema of `imp_transitivity`: from `φ₀ → φ₁` and `φ₁ → φ₂` conclude `φ₀ → φ₂` -/
def isImpTransitivity (s : Spec) : Bool :=
  s.name == "imp_transitivity" && s.params == [] &&
    s.premises == [.imp (phi 0) (phi 1), .imp (phi 1) (phi 2)] && s.concl == .imp (phi 0) (phi 2)

theorem impTransitivity_documented : Gen.lemmaSpecs.any isImpTransitivity = true := by decide +kernel

/-- `imp_transitivity` applied to proofs of `σ₀ → ∃x₀.x₀` and `∃x₀.x₀ → (σ₁ σ₂)`: a tree meaning
`σ₀ → (σ₁ σ₂)` -/
example : ∃ s ∈ Gen.lemmaSpecs, s.name = "imp_transitivity" ∧
    ∃ f th, (Lem.sem Lem.algG Gen.lemmaDefs)[s.idx]? = some f ∧
      f [] [axTh (.imp (.sym 0) (.ex 0 (.evar 0))), axTh (.imp (.ex 0 (.evar 0)) (.app (.sym 1) (.sym 2)))]
        = some th ∧
      th.conc = .imp (.sym 0) (.app (.sym 1) (.sym 2)) ∧
      Pf.Sem th.pf (.imp (.sym 0) (.app (.sym 1) (.sym 2))) := by
  obtain ⟨s, hs, his⟩ := List.any_eq_true.1 impTransitivity_documented
  simp only [isImpTransitivity, Bool.and_eq_true, beq_iff_eq] at his
  obtain ⟨⟨⟨hname, hpar⟩, hprem⟩, hconcl⟩ := his
  refine ⟨s, hs, hname, ?_⟩
  have := conclusion_is_schema s hs
    (fun i => [Pat.sym 0, Pat.ex 0 (.evar 0), Pat.app (.sym 1) (.sym 2)][i]?)
    [axTh (.imp (.sym 0) (.ex 0 (.evar 0))), axTh (.imp (.ex 0 (.evar 0)) (.app (.sym 1) (.sym 2)))]
    (by rw [hprem]; rfl)
  rw [hpar, hconcl] at this
  exact this

/-- …and the returned tree does run on the basic interpreter (module axioms = the two premises), returning
that conclusion: the hypothesis of `replays_to_schema` is satisfiable -/
def replayImpTransitivity : Option NPat :=
  let a1 : Pat := .imp (.sym 0) (.ex 0 (.evar 0))
  let a2 : Pat := .imp (.ex 0 (.evar 0)) (.app (.sym 1) (.sym 2))
  match Gen.lemmaDefs.findIdx? (·.name == "imp_transitivity") with
  | some i =>
    match (sem algG Gen.lemmaDefs)[i]? with
    | some f =>
      match f [] [axTh a1, axTh a2] with
      | some th => (Pf.runBasicF [NPat.ofPat a1, NPat.ofPat a2] 60 th.pf).bind id
      | none => none
    | none => none
  | none => none

example : replayImpTransitivity.map NPat.expand = some (.imp (.sym 0) (.app (.sym 1) (.sym 2))) := by
  decide +kernel

end C10

#print axioms C10.all_defs_wf
#print axioms C10.all_schemas_hold_at_generic_point
#print axioms C10.conc_stable
#print axioms C10.conclusion_is_schema
#print axioms C10.replays_to_schema
#print axioms C10.conclusion_is_schema_args
