import Pi2.KDefTieM
import Pi2.Props.C20c
/-!
# C20 — Kore definitions with SEVERAL modules

The specification `KDefSpec.sigOfDefinitionM` (`Pi2/KDefSpec.lean`, section "definitions with SEVERAL modules") says what a
definition of any number of modules means; it was written after probing the real `LanguageSemantics.from_kore_definition`
(`vlib/try_kdef.py` compares specification / generated text / real code on generated several-module definitions on every run).

PROVED here:
* `multi_spec_is_the_one_module_spec`: on every one-module definition `sigOfDefinitionM` is `sigOfDefinition`;
* `kore_definition_text_is_the_model_multi_one`, `k_pipeline_text_is_the_model_multi_one`: the tie theorems of `Pi2/Props/C20.lean`
  restated with the several-module specification (one module that does not import itself, every valid set order, fuel ≥ 2);
* `multi_spec_one_counter`, `multi_spec_signature_of_all_modules`: the ordinals of `sigOfDefinitionM` run on across the modules; its
  signature is that of all modules, its rules those the main module reaches;
* `Example` (non-vacuity, `decide +kernel`): a diamond of four modules (0; 1 and 2 import 0; 3 imports 1 and 2; rules in 2 and 3
  that use symbols of three modules; an axiom that is not a rule in 1) is in `InFragmentM`, the specification accepts it, and the
  GENERATED `from_kore_definition` — for the identity set order and for the reversing one — returns a store with the
  specification's signature, counter, `get_axiom`, cached scopes, `get_sort` / `get_symbol`; `island`: a rule in a module that the
  main module does not import is converted (its scope is cached) but `get_axiom` does not find it, in the specification and in the
  generated text.
NOT proved: the tie for ALL definitions of `InFragmentM` and ALL valid set orders (the general several-module store).
-/
namespace C20
section Multi
open PyI PyM PyK Kore Gen.PyKDef KDefSpec KDefTie KDefTieM

/-- on every one-module definition (accepted or refused) the several-module specification is the one-module one -/
theorem multi_spec_is_the_one_module_spec (m : KModuleDef) : sigOfDefinitionM ⟨[m]⟩ = sigOfDefinition ⟨[m]⟩ :=
  sigOfDefinitionM_one m

/-- `kore_definition_text_is_the_model` with the several-module specification, on the one-module fragment -/
theorem kore_definition_text_is_the_model_multi_one (so : SetOrder) (hso : so.Valid) (n : Nat) (d : KDefinition) (hf : InFragment d) :
    Gen.PyKDef.translated = true ∧
    match sigOfDefinitionM d with
    | none => LanguageSemantics.from_kore_definition so (n + 2) d = raise
    | some ds => ∃ h, LanguageSemantics.from_kore_definition so (n + 2) d = ret h ∧
        sigView h = ds.sg ∧
        (∀ o, LanguageSemantics.get_axiom (n + 2) h o = some ((ds.rule? o).map axiomOf)) ∧
        (∀ o, h._cached_axiom_scopes.lookup o = (ds.rule? o).map fun ru => scopeObj ru.scope) ∧
        (∀ k, (LanguageSemantics.get_sort so (n + 2) h k).map (Option.map fun s => s.name)
            = some (if ds.sg.sorts.contains k then some k else none)) ∧
        (∀ k, (LanguageSemantics.get_symbol so (n + 2) h k).map (Option.map symDeclOf) = some (ds.sg.symbols.find? (·.name == k))) ∧
        (∀ s, (LanguageSemantics.resolve_to_ksymbol so (n + 2) h (.sym s)).map (Option.map (Option.map symDeclOf))
            = ret (if s ≥ 2001 ∧ s < 100000 ∧ (s - 2001) % 2 = 0 then ds.sg.symbols.find? (·.name == (s - 2001) / 2) else none)) := by
  obtain ⟨m, rfl⟩ := inFragment_one hf
  rw [sigOfDefinitionM_one]
  exact kore_definition_text_is_the_model so hso n _ hf

/-- `k_pipeline_text_is_the_model` with the several-module specification, on the one-module fragment -/
theorem k_pipeline_text_is_the_model_multi_one (so : SetOrder) (hso : so.Valid) (n k : Nat) (d : KDefinition) (hf : InFragment d)
    (ds : DefSem) (hd : sigOfDefinitionM d = some ds) (tr : PyLLVMTrace) (init : NPat) (s0 : Step) (ss : List Step)
    (ht : traceSteps ds tr = some (init, s0 :: ss)) (hrw : ∀ s ∈ s0 :: ss, s.rule.kind = .rewrite) :
    ∃ ls ls' hints,
      LanguageSemantics.from_kore_definition so (n + 2) d = ret ls ∧
      get_proof_hints (n + 2) ls tr = ret (ls', hints) ∧
      sigView ls' = ds.sg ∧
      (Gen.PyKore.ExecutionProofExp.from_proof_hints k hints (semView ls')
          = (match traceF ds.sg k (initSt init) (modelSteps (s0 :: ss)) with
             | none => none
             | some none => some none
             | some (some st) => ret (some (KoreTie.withSt (Gen.PyKore.ExecutionProofExp.__init__ (semView ls') init) st)))
        ∨ (traceF ds.sg k (initSt init) (modelSteps (s0 :: ss)) = none
            ∧ Gen.PyKore.ExecutionProofExp.from_proof_hints k hints (semView ls') = some none)) := by
  obtain ⟨m, rfl⟩ := inFragment_one hf
  rw [sigOfDefinitionM_one] at hd
  exact k_pipeline_text_is_the_model so hso n k _ hf ds hd tr init s0 ss ht hrw

/-- ONE counter in the specification: a sentence of ANY module that is accepted leaves the counter or (an `Axiom`) raises it by
one, and a rule it adds has the counter's value as its ordinal — the ordinals never restart at a module boundary
(`addModule` hands the counter on: `modulesOfDefinition`) -/
theorem multi_spec_one_counter {d d' : DefSemM} {s : KSentence} (h : addSentenceM d s = some d') :
    d'.all.nAxioms = d.all.nAxioms + (match s with | .«axiom» _ => 1 | _ => 0) ∧
    (d'.all.rules = d.all.rules ∨ ∃ ru, d'.all.rules = d.all.rules ++ [ru] ∧ ru.ordinal = d.all.nAxioms) :=
  ⟨addSentenceM_counter h, addSentenceM_rules h⟩

/-- the signature and the axiom count of `sigOfDefinitionM` are those of ALL modules; its rules are the rules of all modules cut
down to the ordinals the main (= last) module reaches -/
theorem multi_spec_signature_of_all_modules (d : KDefinition) (ds : DefSem) (h : sigOfDefinitionM d = some ds) :
    ∃ all ms, modulesOfDefinition d = some (all, ms) ∧ ds.sg = all.sg ∧ ds.nAxioms = all.nAxioms ∧
      ds.rules = all.rules.filter fun r => (mainOrdinals ms).contains r.ordinal :=
  sigOfDefinitionM_sig d ds h

end Multi

/-! ## non-vacuity: a diamond of modules -/
namespace ExampleMulti
open PyI PyM PyK Kore Gen.PyKDef KDefSpec KDefTie KDefTieM

def S : KSort := .app 1
def a : KTerm := .app 10 [] []
def b : KTerm := .app 11 [] []
def f (t : KTerm) : KTerm := .app 13 [] [t]
def rw (l r : KTerm) : KSentence := .«axiom» (.rewrites S (.and S l (.top S)) (.and S r (.top S)))

/-- 0: sort, `a`;  1 imports 0: `b`, an axiom that is not a rule;  2 imports 0: `f`, the rule `f(X) => a` (ordinal 1);
3 imports 1 and 2: the rule `b => f(a)` (ordinal 2) -/
def diamond : KDefinition :=
  ⟨[⟨0, [.sortDecl 1 false, .symbolDecl 10 [] [] S []]⟩,
    ⟨1, [.«import» 0, .symbolDecl 11 [] [] S [], .«axiom» (.top S)]⟩,
    ⟨2, [.«import» 0, .symbolDecl 13 [] [S] S [.app 1000001 [] []], rw (f (.evar 7)) a]⟩,
    ⟨3, [.«import» 1, .«import» 2, rw b (f a)]⟩]⟩

/-- like `diamond`, but the last module imports only 1: the rule of module 2 is not reachable from the main module -/
def island : KDefinition :=
  ⟨[⟨0, [.sortDecl 1 false, .symbolDecl 10 [] [] S []]⟩,
    ⟨1, [.«import» 0, .symbolDecl 11 [] [] S [], .«axiom» (.top S)]⟩,
    ⟨2, [.«import» 0, .symbolDecl 13 [] [S] S [], rw (f (.evar 7)) a]⟩,
    ⟨3, [.«import» 1, rw b (f a)]⟩]⟩

/-- syntactic equality of patterns (ordered maps), by structural recursion: the kernel evaluates it -/
def peq : NPat → NPat → Bool
  | .evar x, .evar y => x == y | .svar x, .svar y => x == y | .sym x, .sym y => x == y
  | .imp l r, .imp l' r' => peq l l' && peq r r'
  | .app l r, .app l' r' => peq l l' && peq r r'
  | .ex x p, .ex y q => x == y && peq p q
  | .mu x p, .mu y q => x == y && peq p q
  | .mv i e s po ne ho, .mv i' e' s' po' ne' ho' => i == i' && e == e' && s == s' && po == po' && ne == ne' && ho == ho'
  | .esub p x q, .esub p' x' q' => peq p p' && x == x' && peq q q'
  | .ssub p x q, .ssub p' x' q' => peq p p' && x == x' && peq q q'
  | .inst p m, .inst p' m' => peq p p' && peqL m m'
  | _, _ => false
where
  peqL : List (Nat × NPat) → List (Nat × NPat) → Bool
    | [], [] => true
    | (k, p) :: r, (k', p') :: r' => k == k' && peq p p' && peqL r r'
    | _, _ => false

def axEq : Option PyAxiom → Option PyAxiom → Bool
  | none, none => true
  | some (.rewriting x), some (.rewriting y) => x.ordinal == y.ordinal && peq x.pattern y.pattern
  | some (.equational x), some (.equational y) => x.ordinal == y.ordinal && peq x.pattern y.pattern
  | _, _ => false

def scopeKeys (s : PyScope) : List Nat × List Nat := (s._metavars.map (·.1), s._sort_param_metavars.map (·.1))
def declKey (d : SymDecl) : Nat × Nat × Nat × Bool × Bool × Bool := (d.name, d.nSortParams, d.nInputs, d.isCell, d.isFunctional, d.isKseq)

/-- the generated builder under the set order `so` against the meaning `ds` (and the rules `allRules` of all modules) -/
def tieOK (so : SetOrder) (d : KDefinition) (ds : DefSem) (allRules : List Rule) : Bool :=
  match LanguageSemantics.from_kore_definition so 20 d with
  | some (some h) =>
      (sigView h).sorts == ds.sg.sorts && (sigView h).symbols.map declKey == ds.sg.symbols.map declKey &&
      h.counters == [ds.nAxioms] &&
      (List.range (ds.nAxioms + 2)).all (fun o =>
        (match LanguageSemantics.get_axiom 20 h o with
         | some r => axEq r ((ds.rule? o).map axiomOf)
         | none => false) &&
        (h._cached_axiom_scopes.lookup o).map scopeKeys == ((allRules.find? (·.ordinal == o)).map fun ru => scopeKeys (scopeObj ru.scope))) &&
      [1, 2, 10, 11, 13, 14].all (fun k =>
        (LanguageSemantics.get_sort so 20 h k).map (Option.map fun s => s.name) == some (if ds.sg.sorts.contains k then some k else none) &&
        (LanguageSemantics.get_symbol so 20 h k).map (Option.map fun s => declKey (symDeclOf s))
          == some ((ds.sg.symbols.find? (·.name == k)).map declKey))
  | _ => false

def checkDef (d : KDefinition) (ordinals allOrdinals : List Nat) : Bool :=
  inFragmentM d &&
  match sigOfDefinitionM d, allRulesOfDefinition d with
  | some ds, some allRules =>
      ds.sg.sorts == [1] && ds.sg.symbols.map (·.name) == [10, 11, 13] && ds.nAxioms == 3 &&
      ds.rules.map (·.ordinal) == ordinals && allRules.map (·.ordinal) == allOrdinals &&
      tieOK id d ds allRules && tieOK List.reverse d ds allRules
  | _, _ => false

/-- a hint stream over the diamond: `b =[2]=> f(a) =[1, X ↦ a]=> a` -/
def trace : PyLLVMTrace := { initial_config := b, trace := [.rule 2 [], .config (f a), .rule 1 [(7, a)], .config a] }

def checkTrace : Bool :=
  match sigOfDefinitionM diamond, LanguageSemantics.from_kore_definition id 20 diamond with
  | some ds, some (some h) =>
      (match traceStepsR ds trace, get_proof_hints 20 h trace with
       | some (_, _, steps), some (some (_, hints)) =>
           steps.length == 2 && hints.length == 2 &&
           (steps.zip hints).all fun (s, hn) => axEq (some (axiomOf s.rule)) (some hn.«axiom») &&
             peq s.before hn.configuration_before && peq s.after hn.configuration_after
       | _, _ => false) &&
      -- over `island` the same stream is refused on both sides: the rule 1 is not reachable from the main module
      (match sigOfDefinitionM island, LanguageSemantics.from_kore_definition id 20 island with
       | some ds', some (some h') => (traceStepsR ds' trace).isNone && (get_proof_hints 20 h' trace matches some none)
       | _, _ => false)
  | _, _ => false

set_option maxRecDepth 100000 in
theorem diamond_ok : checkDef diamond [1, 2] [1, 2] = true := by decide +kernel

set_option maxRecDepth 100000 in
theorem island_ok : checkDef island [2] [1, 2] = true := by decide +kernel

set_option maxRecDepth 100000 in
theorem trace_ok : checkTrace = true := by decide +kernel

theorem diamond_in_fragment : InFragmentM diamond := by decide +kernel

theorem reverse_valid : SetOrder.Valid List.reverse := fun l => List.reverse_perm l

/-- broken several-module definitions are refused by the specification: an import of a later module, a module name used twice, a
module imported twice, a symbol over a sort of a module that is not imported -/
theorem refusals :
    sigOfDefinitionM ⟨[⟨0, [.«import» 1]⟩, ⟨1, []⟩]⟩ = none ∧
    sigOfDefinitionM ⟨[⟨0, []⟩, ⟨0, []⟩]⟩ = none ∧
    sigOfDefinitionM ⟨[⟨0, []⟩, ⟨1, [.«import» 0, .«import» 0]⟩]⟩ = none ∧
    sigOfDefinitionM ⟨[⟨0, [.sortDecl 1 false]⟩, ⟨1, [.symbolDecl 10 [] [] S []]⟩]⟩ = none ∧
    (sigOfDefinitionM ⟨[⟨0, [.sortDecl 1 false]⟩, ⟨1, [.«import» 0, .symbolDecl 10 [] [] S []]⟩]⟩).isSome = true := by
  refine ⟨?_, ?_, ?_, ?_, ?_⟩ <;> decide +kernel

end ExampleMulti
end C20

#print axioms C20.multi_spec_is_the_one_module_spec
#print axioms C20.kore_definition_text_is_the_model_multi_one
#print axioms C20.k_pipeline_text_is_the_model_multi_one
#print axioms C20.multi_spec_one_counter
#print axioms C20.multi_spec_signature_of_all_modules
#print axioms C20.ExampleMulti.diamond_ok
#print axioms C20.ExampleMulti.island_ok
#print axioms C20.ExampleMulti.trace_ok
#print axioms C20.ExampleMulti.refusals
