import Pi2.Rules
import Pi2.MatchThm
/-!
# C07 — the Python proof rules apply exactly when the documented rule applies

For shaped conclusions (see C12).  `some (some c)`: the rule returned `c`; `some none`: it raised.
The documented rules, on full expansions:
* modus ponens: from `l → r` and `l` conclude `r`;
* generalization: from `l → r` with `x` not free in `r` (the checker's `e_fresh` judgement) conclude `(∃x.l) → r`;
* instantiation: the conclusion instantiated.
-/
set_option linter.unusedVariables false
namespace C07
open NPat

/-- modus ponens returns a conclusion **only** when the rule applies, and then the right one -/
theorem mp_returns_iff (n : Nat) (a b c : NPat) (ha : a.Shape = true) (hb : b.Shape = true)
    (h : pyMP n a b = some (some c)) :
    ∃ l r, a.expand = .imp l r ∧ l = b.expand ∧ c.expand = r := by
  simp only [pyMP, Option.bind_eq_bind, Option.bind_eq_some_iff] at h
  obtain ⟨q, hh, h⟩ := h
  obtain ⟨he, hs, _⟩ := headF_expand n a q ha hh
  cases q with
  | imp l r =>
    simp only [Option.bind_eq_some_iff, Option.pure_def, Option.some.injEq] at h
    obtain ⟨eq, hp, h⟩ := h
    have hsl : l.Shape = true ∧ r.Shape = true := by simpa [NPat.Shape] using hs
    have hdec := peqF_expand n l b eq hsl.1 hb hp
    cases eq with
    | false => simp at h
    | true =>
      simp only [if_true, Option.some.injEq] at h
      subst h
      have hlb : l.expand = b.expand := by simpa using hdec.symm
      exact ⟨l.expand, r.expand, by rw [← he]; simp only [NPat.expand], hlb, rfl⟩
  | _ => simp at h

/-- …and it raises whenever the rule is inapplicable: a premise that is not an implication, or a
mismatching antecedent — also under notation -/
theorem mp_raises_iff (n : Nat) (a b : NPat) (ha : a.Shape = true) (hb : b.Shape = true)
    (h : pyMP n a b = some none) : ¬ ∃ l r, a.expand = .imp l r ∧ l = b.expand := by
  simp only [pyMP, Option.bind_eq_bind, Option.bind_eq_some_iff] at h
  obtain ⟨q, hh, h⟩ := h
  obtain ⟨he, hs, hni⟩ := headF_expand n a q ha hh
  rintro ⟨l0, r0, hl, hlb⟩
  rw [← he] at hl
  cases q with
  | imp l r =>
    simp only [Option.bind_eq_some_iff, Option.pure_def, Option.some.injEq] at h
    obtain ⟨eq, hp, h⟩ := h
    have hsl : l.Shape = true ∧ r.Shape = true := by simpa [NPat.Shape] using hs
    have hdec := peqF_expand n l b eq hsl.1 hb hp
    simp only [NPat.expand, Pat.imp.injEq] at hl
    cases eq with
    | true => simp at h
    | false =>
      have hne : ¬ l.expand = b.expand := by simpa using hdec.symm
      exact hne (by rw [hl.1, hlb])
  | inst p m => simp [NPat.isInst] at hni
  | _ => simp [NPat.expand] at hl

/-- generalization returns a conclusion only when `x` is judged fresh in the (expanded) consequent -/
theorem gen_returns_iff (n : Nat) (a c : NPat) (x : VId) (ha : a.Shape = true)
    (h : pyGen n a x = some (some c)) :
    ∃ l r, a.expand = .imp l r ∧ r.eFresh x = true ∧ c.expand = .imp (.ex x l) r := by
  simp only [pyGen, Option.bind_eq_bind, Option.bind_eq_some_iff] at h
  obtain ⟨q, hh, h⟩ := h
  obtain ⟨he, hs, _⟩ := headF_expand n a q ha hh
  cases q with
  | imp l r =>
    simp only [Option.bind_eq_some_iff, Option.pure_def, Option.some.injEq] at h
    obtain ⟨fr, hp, h⟩ := h
    have hsl : l.Shape = true ∧ r.Shape = true := by simpa [NPat.Shape] using hs
    have hfr := evarIsFreeF_expand n x r fr hsl.2 hp
    cases fr with
    | false => simp at h
    | true =>
      simp only [if_true, Option.some.injEq] at h
      subst h
      exact ⟨l.expand, r.expand, by rw [← he]; simp only [NPat.expand], hfr.symm,
        by simp only [NPat.expand]⟩
  | _ => simp at h

/-- …and raises when the variable occurs free in the consequent (also under notation) or the premise
is not an implication -/
theorem gen_raises_iff (n : Nat) (a : NPat) (x : VId) (ha : a.Shape = true)
    (h : pyGen n a x = some none) : ¬ ∃ l r, a.expand = .imp l r ∧ r.eFresh x = true := by
  simp only [pyGen, Option.bind_eq_bind, Option.bind_eq_some_iff] at h
  obtain ⟨q, hh, h⟩ := h
  obtain ⟨he, hs, hni⟩ := headF_expand n a q ha hh
  rintro ⟨l0, r0, hl, hfr0⟩
  rw [← he] at hl
  cases q with
  | imp l r =>
    simp only [Option.bind_eq_some_iff, Option.pure_def, Option.some.injEq] at h
    obtain ⟨fr, hp, h⟩ := h
    have hsl : l.Shape = true ∧ r.Shape = true := by simpa [NPat.Shape] using hs
    have hfr := evarIsFreeF_expand n x r fr hsl.2 hp
    simp only [NPat.expand, Pat.imp.injEq] at hl
    cases fr with
    | true => simp at h
    | false =>
      rw [hl.2, hfr0] at hfr
      exact absurd hfr (by simp)
  | inst p m => simp [NPat.isInst] at hni
  | _ => simp [NPat.expand] at hl

/-- schema instantiation returns exactly the instantiated conclusion -/
theorem inst_returns (n : Nat) (a c : NPat) (δ : List (Nat × NPat)) (ha : a.Shape = true)
    (hδ : ShapeMap δ = true) (h : pyInst n a δ = some c) :
    c.expand = Py.inst (Py.lookup (expand.expandMap δ)) a.expand := by
  simp only [pyInst] at h
  split at h
  · rename_i he
    simp at h; subst h
    have : δ = [] := by simpa using he
    subst this
    have hs := shape_expand a ha
    simp [NPat.expand.expandMap]
    have : (Py.lookup ([] : List (Nat × Pat))) = fun _ => none := by funext k; rfl
    rw [this, Py.inst_empty _ hs]
  · exact (instF_expand n δ a c ha hδ h).1

/-! Non-vacuity (the F3 case: `x0` free in the consequent only under notation) -/
def andN (p q : NPat) : NPat :=
  .inst (.inst (.imp (.mv 0 [] [] [] [] []) (.inst (.mu 0 (.svar 0)) [])) [(0, .imp (.mv 0 [] [] [] [] []) (.inst (.imp (.mv 0 [] [] [] [] []) (.inst (.mu 0 (.svar 0)) [])) [(0, .mv 1 [] [] [] [] [])]))]) [(0, p), (1, q)]
example : pyGen 60 (.imp (.evar 1) (andN (.evar 0) (.evar 1))) 0 = some none := by rfl
example : (pyGen 60 (.imp (.evar 0) (andN (.evar 1) (.evar 1))) 0).isSome = true := by rfl

end C07

