import Pi2.SlotBudget
import Pi2.KModMemoEx
/-!
# C03 / C08 — the slot budget: an optimised serialisation never needs a memory slot beyond 255

The binary format addresses a memory slot with ONE byte.  `ProofExp.serialize(optimize=True)` runs the counting pass, whose
`finalize()` first executes `self._max_allowed_slots -= len(self.memory)` (the analyser's memory holds the published axioms)
and then suggests at most that many patterns; the memoising pass saves every suggested pattern at most once and every axiom
takes one further slot when it is published.  Two seeded changes broke exactly this arithmetic (dropping the subtraction; a
checker that refuses slot 255).  The budget is a parameter `B` of the statements (`B = 256` in the code).

* `finalize_budget` — the counting pass (the translated `finalize`, `Pi2/Gen/PyCount.lean`);
* `memo_run_memory_bound` — the memoising pass (`PModule.executeFull { memo := some S }`, every `Pf`: the language of
  proof expressions has no `save`, only the patterns compiled for `dynInst` can be saved);
* `optimized_run_fits`, `optimized_slots_fit_in_a_byte` — the two together;
* `budget_attained` — the bound is attained (129 axioms: 256 entries, last slot 255).
-/
set_option linter.unusedVariables false
namespace C03
open PySt SlotBudget CountSup Gen.PyCount

/-! ## 1. the counting pass -/

/-- **`finalize` respects the budget.**  Hypotheses: the call succeeds (in particular `assert not self._finalized` passed:
first conjunct), nothing was suggested before (`_suggested_for_memoization` is only written by `finalize`), and the budget
field still holds `B` (`__init__`: 256; only `finalize` writes it).  Then the returned set has at most `B − len(memory)`
elements, without repetitions. -/
theorem finalize_budget {K : Type} [DecidableEq K] [PyPattern K] (B : Nat) (o : Orders K) (t : Nat) (σ : Self K)
    {R : PySet K} {σ' : Self K} {t' : Nat} (h : finalize o t σ = some (R, σ', t'))
    (hsug : σ._suggested_for_memoization = []) (hmax : σ._max_allowed_slots = (B : Int)) :
    σ._finalized = false ∧ R.length ≤ B - σ.memory.length ∧ R.Nodup := by
  obtain ⟨hf, hlen, hnd⟩ := finalize_length o t σ h
  rw [hsug, hmax] at hlen
  refine ⟨hf, ?_, hnd (by rw [hsug]; exact List.nodup_nil)⟩
  simp only [List.length_nil, Nat.zero_add] at hlen
  omega

/-- the general form: old suggestions plus at most `_max_allowed_slots − len(memory)` new ones -/
theorem finalize_budget_general {K : Type} [DecidableEq K] [PyPattern K] (o : Orders K) (t : Nat) (σ : Self K)
    {R : PySet K} {σ' : Self K} {t' : Nat} (h : finalize o t σ = some (R, σ', t')) :
    R.length ≤ σ._suggested_for_memoization.length + (σ._max_allowed_slots - (σ.memory.length : Int)).toNat :=
  (finalize_length o t σ h).2.1

/-! ## 2. the memoising pass -/

/-- **the memory of a memoising run.**  `S` is the suggestion list handed to `MemoizingInterpreter`; `Canonical S`: its
elements are shaped and are matched by the set-membership test (`NPat.seq`) only by themselves (`canonical_of_noInst`:
true when they contain no notation node).  The module and its proof expressions are arbitrary: `Pf` has no `save`
constructor, so a proof can write to the memory only through the memoiser (the patterns of a `dynInst`).  If
`execute_full` succeeds then the `Pattern` entries of the final memory are pairwise different elements of `S` and the
`Proved` entries are exactly `gammaAxioms` (own and imported axioms, one slot per occurrence); hence the number of slots. -/
theorem memo_run_memory_bound (S : List NPat) (hS : Canonical S) (n : Nat) (m : PModule) (s : PySt) (calls : List Call)
    (h : PModule.executeFull { memo := some S } n m = some (some (s, calls))) :
    (patsOf s.memory).Nodup ∧ (∀ p ∈ patsOf s.memory, p ∈ S) ∧ provedOf s.memory = m.gammaAxioms ∧
    s.memory.length = (patsOf s.memory).length + m.gammaAxioms.length ∧
    s.memory.length ≤ S.length + m.gammaAxioms.length := by
  obtain ⟨⟨hnd, hsub⟩, hk⟩ := executeFull_memory S hS n m s calls h
  refine ⟨hnd, hsub, hk, by rw [length_split, hk], executeFull_memory_length S hS n m s calls h⟩

/-- suggestion lists without notation nodes are `Canonical` -/
theorem canonical_plain (S : List NPat) (hs : ∀ c ∈ S, c.Shape = true) (hn : ∀ c ∈ S, noInst c = true) : Canonical S :=
  canonical_of_noInst S hs hn

/-! ## 1 + 2: the optimised serialisation fits -/

/-- **the optimised run stays within the budget.**  The counting state `σ` (keys `K`, `repr` maps a key to the model
pattern) has suggested nothing yet, its budget is `B`, and its memory holds the published axioms of the module
(`len(memory) = |gammaAxioms|`); the module has at most `B` axioms (otherwise already the axioms do not fit and the
serializer refuses, C03).  `L` lists the set `finalize` returns (any order).  Then the memoising run needs at most `B`
slots. -/
theorem optimized_run_fits {K : Type} [DecidableEq K] [PyPattern K] (repr : K → NPat) (B : Nat) (o : Orders K) (t : Nat)
    (σ : Self K) {R : PySet K} {σ' : Self K} {t' : Nat} (m : PModule)
    (hfin : finalize o t σ = some (R, σ', t'))
    (hsug : σ._suggested_for_memoization = []) (hmax : σ._max_allowed_slots = (B : Int))
    (hmem : σ.memory.length = m.gammaAxioms.length) (hax : m.gammaAxioms.length ≤ B)
    (L : List NPat) (hL : L.Perm (R.map repr)) (hC : Canonical L)
    (n : Nat) (s : PySt) (calls : List Call)
    (h : PModule.executeFull { memo := some L } n m = some (some (s, calls))) :
    s.memory.length ≤ B := by
  obtain ⟨_, hlen, _⟩ := finalize_budget B o t σ hfin hsug hmax
  have h1 := executeFull_memory_length L hC n m s calls h
  have h2 : L.length = R.length := by rw [hL.length_eq, List.length_map]
  omega

/-- … hence every slot operand the serializer writes for that run is below `B`: with `B = 256` every `Load i` is a
one-byte operand (`Wire`); the serialisation is the replay `trackAll` of the calls, as in `module_accepted`; a `Save` writes no operand (its slot is the current length of the memory, below the final
length).  Ids of variables and symbols are a separate matter (`ids_fit_in_a_byte`). -/
theorem optimized_slots_fit_in_a_byte {K : Type} [DecidableEq K] [PyPattern K] (repr : K → NPat) (o : Orders K) (t : Nat)
    (σ : Self K) {R : PySet K} {σ' : Self K} {t' : Nat} (m : PModule)
    (hfin : finalize o t σ = some (R, σ', t'))
    (hsug : σ._suggested_for_memoization = []) (hmax : σ._max_allowed_slots = 256)
    (hmem : σ.memory.length = m.gammaAxioms.length) (hax : m.gammaAxioms.length ≤ 256)
    (L : List NPat) (hL : L.Perm (R.map repr)) (hC : Canonical L)
    (n : Nat) (s : PySt) (calls : List Call)
    (h : PModule.executeFull { memo := some L } n m = some (some (s, calls)))
    (g c p : List Instr)
    (hT : PySt.trackAll n (PySt.init m.claimsOf) calls ([], [], []) = some (some (s, (g, c, p)))) :
    ∀ i, (Instr.load i ∈ g ∨ Instr.load i ∈ c ∨ Instr.load i ∈ p) → i ≤ 255 ∧ Wire (encode [Instr.load i]) := by
  have hB := optimized_run_fits repr 256 o t σ m hfin hsug hmax hmem hax L hL hC n s calls h
  obtain ⟨_, hg, hc, hp⟩ := trackAll_slots n calls _ s _ _ hT (AllBelow.nil _)
  intro i hi
  have : i < 256 := by
    rcases hi with hi | hi | hi
    · exact Nat.lt_of_lt_of_le (hg i hi) hB
    · exact Nat.lt_of_lt_of_le (hc i hi) hB
    · exact Nat.lt_of_lt_of_le (hp i hi) hB
  exact ⟨by omega, wire_load i this⟩

/-- the serializer's own replay (`trackAll`, any fuel) of ANY history writes only `Load` operands below the final number
of slots -/
theorem load_operands_below_memory (k : Nat) (cl : List NPat) (calls : List Call) (s' : PySt) (g c p : List Instr)
    (hT : PySt.trackAll k (PySt.init cl) calls ([], [], []) = some (some (s', (g, c, p)))) :
    ∀ i, (Instr.load i ∈ g ∨ Instr.load i ∈ c ∨ Instr.load i ∈ p) → i < s'.memory.length := by
  obtain ⟨_, hg, hc, hp⟩ := trackAll_slots k calls _ s' _ _ hT (AllBelow.nil _)
  intro i hi
  rcases hi with hi | hi | hi
  · exact hg i hi
  · exact hc i hi
  · exact hp i hi

/-! ## 3. the bound is attained

The module the seeded change was caught with: `k` axioms (symbols `0 … k−1`), each also a claim, each proved by
`load_axiom`.  The counting run records every axiom twice (gamma and claim phase) and its memory holds the `k` published
axioms, so `finalize` suggests `B − k` of them (`counting_suggests`); the memoising run saves each suggested axiom and
publishes all `k`: `(B − k) + k = B` entries, and the last proof is `Load (B − 1)`.  With `B = 256`, `k = 129`: 256 entries,
last slot 255.  (`NPat.seq` is defined by well-founded recursion, which the kernel does not evaluate: the run is evaluated
through `KMod.executeFullP`, the same text with the membership test as a parameter, and transported by `executeFullP_eq`.) -/

def axs (k : Nat) : List NPat := (List.range k).map NPat.sym
def budgetModule (k : Nat) : PModule := .mk (axs k) (axs k) ((axs k).map Pf.loadAxiom) []
def sugg (j : Nat) : NPat → Bool
  | .sym i => decide (i < j)
  | _ => false

theorem seq_axs (j : Nat) (p : NPat) : (axs j).any (NPat.seq p) = sugg j p := by
  cases p with
  | sym s =>
    rw [Bool.eq_iff_iff]
    simp [axs, List.any_map, List.any_eq_true, NPat.seq, sugg]
  | _ => simp [axs, NPat.seq, sugg, List.any_map, Function.comp]

theorem canonical_axs (j : Nat) : Canonical (axs j) := by
  apply canonical_of_noInst <;>
  · intro c hc
    simp only [axs, List.mem_map] at hc
    obtain ⟨i, _, rfl⟩ := hc
    simp [NPat.Shape, noInst]

/-- the memoising run of `budgetModule k` with the first `j` axioms suggested ends with `B` memory entries, and its proof
stream contains `Load (B − 1)` -/
def attained (B j k : Nat) : Bool :=
  match KMod.executeFullP (sugg j) 5 (budgetModule k) with
  | some (some (s, calls)) =>
      s.memory.length == B &&
      (match PySt.trackAll 5 (PySt.init (budgetModule k).claimsOf) calls ([], [], []) with
       | some (some (_, (_, _, p))) => p.contains (Instr.load (B - 1))
       | _ => false)
  | _ => false

set_option maxRecDepth 1000000 in
theorem attained_256 : attained 256 127 129 = true := by decide +kernel

set_option maxRecDepth 100000 in
theorem attained_8 : attained 8 3 5 = true := by decide +kernel

/-- **the budget is attained**: 129 axioms, 127 suggestions — the run succeeds with exactly 256 memory entries (so
`memo_run_memory_bound` is sharp: `127 + 129`), and the serializer writes `Load 255` -/
theorem budget_attained : ∃ s calls, PModule.executeFull { memo := some (axs 127) } 5 (budgetModule 129) = some (some (s, calls)) ∧
    s.memory.length = 256 ∧ s.memory.length = (axs 127).length + (budgetModule 129).gammaAxioms.length ∧
    ∃ s' g c p, PySt.trackAll 5 (PySt.init (budgetModule 129).claimsOf) calls ([], [], []) = some (some (s', (g, c, p))) ∧
      Instr.load 255 ∈ p := by
  have h := attained_256
  unfold attained at h
  rw [← KMod.executeFullP_eq (axs 127) (sugg 127) (seq_axs 127)] at h
  split at h
  · rename_i s calls heq
    simp only [Bool.and_eq_true, beq_iff_eq] at h
    obtain ⟨hlen, h⟩ := h
    refine ⟨s, calls, heq, hlen, ?_, ?_⟩
    · rw [hlen]; simp [axs, budgetModule, PModule.gammaAxioms, PModule.gammaAxioms.gammaList]
    · split at h
      · rename_i s' g c p heq2
        exact ⟨s', g, c, p, heq2, by simpa using h⟩
      · cases h
  · cases h

/-! ### … and the suggestions are what the counting pass returns -/

/-- the keys of the counting pass for this module: the symbol numbers -/
instance : PyPattern Nat where
  isImplies _ := false
  isApp _ := false
  isExists _ := false
  isMu _ := false
  left := id
  right := id
  subpattern := id
  size _ := 0
  left_lt := by intro p h; simp at h
  right_lt := by intro p h; simp at h
  subpattern_lt := by intro p h; simp at h

/-- the counting state after the counting run on `budgetModule k`: every axiom recorded twice (`symbol` in the gamma and
in the claim phase), the `k` published axioms in the memory; budget `B` -/
def countState (B k : Nat) : Option (Self Nat) :=
  ((List.range k ++ List.range k).foldlM (fun σ i => _collect_patterns 2 σ i) (init : Self Nat)).map fun σ =>
    { σ with memory := (List.range k).map fun i => MemItem.proved ⟨i⟩, _max_allowed_slots := B }

/-- `finalize` on that state returns the first `B − k` axioms -/
def counted (B k : Nat) : Bool :=
  match countState B k with
  | some σ => (match finalize (fun _ l => l) 0 σ with
      | some (R, _, _) => R == List.range (B - k)
      | none => false)
  | none => false

/-- scaled instance (budget 8, 5 axioms: the 3 suggestions of `attained_8`); the instance `counted 256 129` evaluates to
`true` with `#eval` but exceeds the default heartbeats under `decide +kernel` -/
theorem counting_suggests : counted 8 5 = true ∧ (List.range (8 - 5)).map NPat.sym = axs 3 := by
  constructor
  · decide +kernel
  · rfl

end C03

#print axioms C03.finalize_budget
#print axioms C03.finalize_budget_general
#print axioms C03.memo_run_memory_bound
#print axioms C03.canonical_plain
#print axioms C03.optimized_run_fits
#print axioms C03.optimized_slots_fit_in_a_byte
#print axioms C03.load_operands_below_memory
#print axioms C03.budget_attained
#print axioms C03.counting_suggests
