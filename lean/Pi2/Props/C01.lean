import Pi2.Codec
import Pi2.Sound.Machine
import Pi2.Gen.Schemas
import Pi2.RustTie
import Pi2.RustExecTie
/-!
# C01 — checker soundness

Property theorems only; helper lemmas live in `Pi2/Sound/*`.
-/
set_option linter.unusedVariables false
open Pat

namespace C01

/-- **C01 (instruction level).**  If the machine accepts the three instruction lists, every
published claim is valid in every model in which the published axioms are valid — under every
admissible semantic instantiation of metavariables and every standard valuation, for carriers of
any type (in particular the finite carriers 1‥3 of the property text). -/
theorem verify_sound (g c p : List Instr) (axs cls : List Pat)
    (h : verify g c p = some (axs, cls)) (𝔐 : Model)
    (hΓ : ∀ a ∈ axs, ValidM 𝔐 a) : ∀ q ∈ cls, ValidM 𝔐 q :=
  _root_.verify_sound g c p axs cls h 𝔐 hΓ

/-- **C01 (byte level).**  The same for the three byte strings the checker reads. -/
theorem verifyBytes_sound (g c p : List Nat) (axs cls : List Pat)
    (h : verifyBytes g c p = some (axs, cls)) (𝔐 : Model)
    (hΓ : ∀ a ∈ axs, ValidM 𝔐 a) : ∀ q ∈ cls, ValidM 𝔐 q := by
  simp only [verifyBytes] at h
  cases hg : decode g with
  | none => simp [hg] at h
  | some gi =>
    cases hc : decode c with
    | none => simp [hg, hc] at h
    | some ci =>
      cases hp : decode p with
      | none => simp [hg, hc, hp] at h
      | some pi =>
        simp [hg, hc, hp] at h
        exact _root_.verify_sound gi ci pi axs cls h 𝔐 hΓ

/-- Corollary for the empty theory: accepted claims are valid in *all* models. -/
theorem verifyBytes_sound_empty (c p : List Nat) (cls : List Pat)
    (h : verifyBytes [] c p = some ([], cls)) : ∀ q ∈ cls, Valid q :=
  fun q hq 𝔐 => verifyBytes_sound [] c p [] cls h 𝔐 (by simp) q hq

/-- The machine invariant behind the theorem, for every reachable state of every phase:
every `Proved` term on the stack or in memory is valid. -/
theorem proved_terms_valid (𝔐 : Model) (ph : Phase) (is : List Instr) (s s' : St) (js : List Pat)
    (hs : MInv 𝔐 s) (h : run ph s is = some (s', js))
    (hax : ph = .gamma → ∀ a ∈ js, ValidM 𝔐 a) : MInv 𝔐 s' :=
  run_inv 𝔐 ph is s s' js hs h hax

/-! ## Tie to the source: the axiom schemas hard-wired in `execute_instructions`

`Gen.rust_*` are regenerated from `rust/src/lib.rs` on every run.  They must be the schemas the
model pushes, and they are valid. -/

theorem schemas_tied :
    Gen.rust_prop1 = prop1P ∧ Gen.rust_prop2 = prop2P ∧ Gen.rust_prop3 = prop3P ∧
    Gen.rust_quantifier = quantP ∧ Gen.rust_existence = existP := by decide

theorem rust_schemas_valid :
    Valid Gen.rust_prop1 ∧ Valid Gen.rust_prop2 ∧ Valid Gen.rust_prop3 ∧
    Valid Gen.rust_quantifier ∧ Valid Gen.rust_existence := by
  obtain ⟨h1, h2, h3, h4, h5⟩ := schemas_tied
  rw [h1, h2, h3, h4, h5]
  exact ⟨fun _ => prop1_validM, fun _ => prop2_validM, fun _ => prop3_validM,
         fun _ => quant_validM, fun _ => exist_validM⟩

/-! ## Non-vacuity: a concrete accepted proof (φ0 → φ0, the shipped `imp_refl`) -/

def implReflClaim : List Nat := [137, 0, 137, 0, 5, 30]
/-- bytes of `proofs/propositional.ml-proof`-style imp_refl:
`φ0→φ0`, `φ0`, Prop2, Instantiate [1,2] … built so that the term is on top of its plugs. -/
def reflProof : List Nat :=
  [ 137, 0,                    -- φ0                      (plug for id 2, deepest)
    137, 0, 137, 0, 5,         -- φ0 → φ0                 (plug for id 1)
    13,                        -- Prop2
    26, 2, 1, 2,               -- Instantiate {1 ↦ φ0→φ0, 2 ↦ φ0}
    137, 0, 137, 0, 5,         -- φ0 → φ0                 (plug for id 1)
    12,                        -- Prop1
    26, 1, 1,                  -- Instantiate {1 ↦ φ0→φ0}
    21,                        -- ModusPonens
    137, 0,                    -- φ0                      (plug for id 1)
    12,                        -- Prop1
    26, 1, 1,                  -- Instantiate {1 ↦ φ0}
    21,                        -- ModusPonens
    30 ]                       -- Publish

example : verifyBytes [] implReflClaim reflProof = some ([], [imp (phi 0) (phi 0)]) := by decide

example : Valid (imp (phi 0) (phi 0)) :=
  verifyBytes_sound_empty implReflClaim reflProof [imp (phi 0) (phi 0)] (by decide) _ (List.mem_singleton.mpr rfl)

/-! ## Why the two capture checks added by the `fix:` commit are necessary

`applySSubstPinned` is `apply_ssubst` as on the pinned tree (no element-capture check under
`Exists`).  It maps the valid `(∃x0.X0) → X0` to `(∃x0.x0) → x0`, false at the element `false`
of a two-element model: the Substitution rule of the pinned checker is unsound. -/

def premiseP : Pat := imp (ex 0 (svar 0)) (svar 0)
def conclP : Pat := imp (ex 0 (evar 0)) (evar 0)

theorem pinned_accepts : applySSubstPinned 0 (evar 0) premiseP = some conclP := by decide
theorem fixed_rejects : applySSubst 0 (evar 0) premiseP = none := by decide

theorem premise_valid : Valid premiseP := by
  intro 𝔐 σ hσ ρ hρ m
  simp only [premiseP, eval]
  rintro ⟨a, ha⟩
  simpa [Val.setE] using ha

def twoModel : Model := { M := Bool, sym := fun _ _ => False, app := fun _ _ _ => False }
def rho0 : Val Bool := { e := fun _ b => b = true, s := fun _ _ => False }

theorem concl_invalid : ¬ Valid conclP := by
  intro h
  have hadm : AllAdm (fun (_ : MVKey) (_ : Val Bool) (_ : Bool) => False) :=
    ⟨⟨fun _ _ _ _ _ _ => rfl⟩, ⟨fun _ _ _ _ _ _ => rfl⟩, ⟨fun _ _ _ _ _ _ _ h => h, fun _ _ _ _ _ _ _ h => h⟩⟩
  have := h twoModel (fun _ _ _ => False) hadm rho0 (fun x => ⟨true, rfl⟩) false
  simp only [conclP, eval, rho0] at this
  have h2 : false = true := this ⟨false, by simp only [Val.setE]; rfl⟩
  exact Bool.noConfusion h2

/-- the Substitution rule without the capture check is unsound -/
theorem pinned_substitution_unsound :
    ∃ X plug p r, applySSubstPinned X plug p = some r ∧ Valid p ∧ ¬ Valid r :=
  ⟨0, evar 0, premiseP, conclP, pinned_accepts, premise_valid, concl_invalid⟩

/-- the four syntactic judgements as written in `rust/src/lib.rs` (translated on every run) are the model's -/
theorem rust_judgements_tied :
    Gen.Rust.translated = true ∧
    (∀ p e, Gen.Rust.e_fresh p e = Pat.eFresh e p) ∧ (∀ p s, Gen.Rust.s_fresh p s = Pat.sFresh s p) ∧
    (∀ p s, Gen.Rust.positive p s = Pat.pos s p) ∧ (∀ p s, Gen.Rust.negative p s = Pat.ng s p) :=
  ⟨RustTie.translated, RustTie.e_fresh_eq, RustTie.s_fresh_eq, RustTie.positive_eq, RustTie.negative_eq⟩

/-- `apply_esubst` / `apply_ssubst` as written in `rust/src/lib.rs` (translated on every run, a panic is `none`) are
the functions whose semantic substitution lemmas (`applyESubst_sem`, `applySSubst_sem`) the soundness proof uses -/
theorem rust_substitution_tied :
    Gen.Rust.substTranslated = true ∧
    (∀ p x plug, Gen.Rust.apply_esubst p x plug = Pat.applyESubst x plug p) ∧
    (∀ p x plug, Gen.Rust.apply_ssubst p x plug = Pat.applySSubst x plug p) :=
  ⟨RustTie.substTranslated, RustTie.apply_esubst_eq, RustTie.apply_ssubst_eq⟩


/-- **The theorem for the checker as written**: `verify` of `rust/src/lib.rs` — translated statement by statement on every
run (`Pi2/Gen/RustExec.lean`: every arm of `execute_instructions`, the stack helpers, `well_formed`, the three phases
and the final `assert!`; a panic is `none`) — accepts three byte strings only if the model does (`RustExecTie`), and
then every claim it discharged is valid in every model of the published axioms. -/
theorem rust_verify_text_sound (g c p : List Nat) (r0 : RustExec.RSt) (h : (Gen.Rust.verify g c p r0).isSome = true) :
    Gen.Rust.execTranslated = true ∧
    ∃ axs cls, verifyBytes g c p = some (axs, cls) ∧
      ∀ 𝔐 : Model, (∀ a ∈ axs, ValidM 𝔐 a) → ∀ q ∈ cls, ValidM 𝔐 q := by
  obtain ⟨axs, cls, hv⟩ := (RustExecTie.verify_accepts_iff g c p r0).1 h
  exact ⟨RustExecTie.translated, axs, cls, hv, fun 𝔐 hΓ => verifyBytes_sound g c p axs cls hv 𝔐 hΓ⟩

end C01
