import Pi2.NotationThm
import Pi2.Sound.Inst
import Pi2.RustTie
import Pi2.PyTie
import Pi2.InstUThm
import Pi2.RustInstTie
import Pi2.RustExecInv
/-!
# C11 — substitution and instantiation obey their algebra

`substE/substS` are an independent textbook definition on *concrete* patterns (no metavariables,
no pending substitutions).  The checker's functions (`applyESubst`, partial because of the capture
check) and the generator's (`Py.esub`, total, capture-unaware) agree with it; both are the identity
when the variable is judged fresh; both defer on metavariables; instantiation is simultaneous,
distributes over every constructor and resolves pending substitutions; and the semantic
substitution lemma holds.  Composition of instantiations and the notation layer are in
`Pi2.NotationThm` (imported by C12).
-/
set_option linter.unusedVariables false
open Pat
namespace C11

/-- concrete = no metavariable and no pending substitution -/
def concrete : Pat → Bool
  | evar _ => true | svar _ => true | sym _ => true
  | imp l r => concrete l && concrete r
  | app l r => concrete l && concrete r
  | ex _ p => concrete p | mu _ p => concrete p
  | mv .. => false | esub .. => false | ssub .. => false

/-- textbook element-variable substitution: replace the free occurrences -/
def substE (x : VId) (plug : Pat) : Pat → Pat
  | evar y => if y = x then plug else evar y
  | imp l r => imp (substE x plug l) (substE x plug r)
  | app l r => app (substE x plug l) (substE x plug r)
  | ex y p => if y = x then ex y p else ex y (substE x plug p)
  | mu Y p => mu Y (substE x plug p)
  | q => q

def substS (X : VId) (plug : Pat) : Pat → Pat
  | svar Y => if Y = X then plug else svar Y
  | imp l r => imp (substS X plug l) (substS X plug r)
  | app l r => app (substS X plug l) (substS X plug r)
  | ex y p => ex y (substS X plug p)
  | mu Y p => if Y = X then mu Y p else mu Y (substS X plug p)
  | q => q

/-- the checker's `apply_esubst`, whenever it does not reject, is the textbook substitution -/
theorem rust_esubst_textbook (x : VId) (plug : Pat) : ∀ (p r : Pat), concrete p = true →
    applyESubst x plug p = some r → r = substE x plug p := by
  intro p
  induction p with
  | evar y => intro r _ h; simp only [applyESubst] at h; simp only [substE]; split at h <;> simp_all
  | svar _ => intro r _ h; simp [applyESubst] at h; simp [substE, h]
  | sym _ => intro r _ h; simp [applyESubst] at h; simp [substE, h]
  | imp l r ihl ihr =>
    intro q hc h; simp [concrete] at hc; simp only [applyESubst] at h
    cases hl : applyESubst x plug l with
    | none => simp [hl] at h
    | some l' =>
      cases hr : applyESubst x plug r with
      | none => simp [hl, hr] at h
      | some r' => simp [hl, hr] at h; subst h; simp [substE, ihl l' hc.1 hl, ihr r' hc.2 hr]
  | app l r ihl ihr =>
    intro q hc h; simp [concrete] at hc; simp only [applyESubst] at h
    cases hl : applyESubst x plug l with
    | none => simp [hl] at h
    | some l' =>
      cases hr : applyESubst x plug r with
      | none => simp [hl, hr] at h
      | some r' => simp [hl, hr] at h; subst h; simp [substE, ihl l' hc.1 hl, ihr r' hc.2 hr]
  | ex y p ih =>
    intro q hc h; simp [concrete] at hc; simp only [applyESubst] at h; simp only [substE]
    split at h
    · simp_all
    · rename_i hy
      split at h <;> try contradiction
      cases hp : applyESubst x plug p with
      | none => simp [hp] at h
      | some p' => simp [hp] at h; subst h; simp [hy, ih p' hc hp]
  | mu Y p ih =>
    intro q hc h; simp [concrete] at hc; simp only [applyESubst] at h; simp only [substE]
    split at h <;> try contradiction
    cases hp : applyESubst x plug p with
    | none => simp [hp] at h
    | some p' => simp [hp] at h; subst h; simp [ih p' hc hp]
  | mv _ _ _ _ _ _ => intro r hc; simp [concrete] at hc
  | esub _ _ _ _ _ => intro r hc; simp [concrete] at hc
  | ssub _ _ _ _ _ => intro r hc; simp [concrete] at hc

theorem rust_ssubst_textbook (X : VId) (plug : Pat) : ∀ (p r : Pat), concrete p = true →
    applySSubst X plug p = some r → r = substS X plug p := by
  intro p
  induction p with
  | svar y => intro r _ h; simp only [applySSubst] at h; simp only [substS]; split at h <;> simp_all
  | evar _ => intro r _ h; simp [applySSubst] at h; simp [substS, h]
  | sym _ => intro r _ h; simp [applySSubst] at h; simp [substS, h]
  | imp l r ihl ihr =>
    intro q hc h; simp [concrete] at hc; simp only [applySSubst] at h
    cases hl : applySSubst X plug l with
    | none => simp [hl] at h
    | some l' =>
      cases hr : applySSubst X plug r with
      | none => simp [hl, hr] at h
      | some r' => simp [hl, hr] at h; subst h; simp [substS, ihl l' hc.1 hl, ihr r' hc.2 hr]
  | app l r ihl ihr =>
    intro q hc h; simp [concrete] at hc; simp only [applySSubst] at h
    cases hl : applySSubst X plug l with
    | none => simp [hl] at h
    | some l' =>
      cases hr : applySSubst X plug r with
      | none => simp [hl, hr] at h
      | some r' => simp [hl, hr] at h; subst h; simp [substS, ihl l' hc.1 hl, ihr r' hc.2 hr]
  | ex y p ih =>
    intro q hc h; simp [concrete] at hc; simp only [applySSubst] at h; simp only [substS]
    split at h <;> try contradiction
    cases hp : applySSubst X plug p with
    | none => simp [hp] at h
    | some p' => simp [hp] at h; subst h; simp [ih p' hc hp]
  | mu Y p ih =>
    intro q hc h; simp [concrete] at hc; simp only [applySSubst] at h; simp only [substS]
    split at h
    · simp_all
    · rename_i hy
      split at h <;> try contradiction
      cases hp : applySSubst X plug p with
      | none => simp [hp] at h
      | some p' => simp [hp] at h; subst h; simp [hy, ih p' hc hp]
  | mv _ _ _ _ _ _ => intro r hc; simp [concrete] at hc
  | esub _ _ _ _ _ => intro r hc; simp [concrete] at hc
  | ssub _ _ _ _ _ => intro r hc; simp [concrete] at hc

/-- the generator's `apply_esubst` is the textbook substitution on concrete patterns -/
theorem py_esubst_textbook (x : VId) (plug : Pat) : ∀ p : Pat, concrete p = true → Py.esub x plug p = substE x plug p := by
  intro p; induction p <;> simp_all [concrete, Py.esub, substE]

theorem py_ssubst_textbook (X : VId) (plug : Pat) : ∀ p : Pat, concrete p = true → Py.ssub X plug p = substS X plug p := by
  intro p; induction p <;> simp_all [concrete, Py.ssub, substS]

/-- identity when the variable does not occur free (judged fresh), on concrete patterns -/
theorem substE_id_of_fresh (x : VId) (plug : Pat) : ∀ p : Pat, concrete p = true → p.eFresh x = true → substE x plug p = p := by
  intro p; induction p with
  | evar y => intro _ h; simp [eFresh] at h; simp [substE, h]
  | ex y p ih =>
    intro hc h; simp [concrete] at hc; simp [eFresh] at h; simp only [substE]
    split
    · rfl
    · rename_i hy; rcases h with h | h
      · exact absurd h.symm hy
      · rw [ih hc h]
  | imp l r ihl ihr => intro hc h; simp [concrete] at hc; simp [eFresh] at h; simp [substE, ihl hc.1 h.1, ihr hc.2 h.2]
  | app l r ihl ihr => intro hc h; simp [concrete] at hc; simp [eFresh] at h; simp [substE, ihl hc.1 h.1, ihr hc.2 h.2]
  | mu Y p ih => intro hc h; simp [concrete] at hc; simp [eFresh] at h; simp [substE, ih hc h]
  | _ => intros; simp [substE]

theorem substS_id_of_fresh (X : VId) (plug : Pat) : ∀ p : Pat, concrete p = true → p.sFresh X = true → substS X plug p = p := by
  intro p; induction p with
  | svar y => intro _ h; simp [sFresh] at h; simp [substS, h]
  | mu Y p ih =>
    intro hc h; simp [concrete] at hc; simp [sFresh] at h; simp only [substS]
    split
    · rfl
    · rename_i hy; rcases h with h | h
      · exact absurd h.symm hy
      · rw [ih hc h]
  | imp l r ihl ihr => intro hc h; simp [concrete] at hc; simp [sFresh] at h; simp [substS, ihl hc.1 h.1, ihr hc.2 h.2]
  | app l r ihl ihr => intro hc h; simp [concrete] at hc; simp [sFresh] at h; simp [substS, ihl hc.1 h.1, ihr hc.2 h.2]
  | ex y p ih => intro hc h; simp [concrete] at hc; simp [sFresh] at h; simp [substS, ih hc h]
  | _ => intros; simp [substS]

/-- deferred on metavariables — unless the metavariable declares the variable fresh, in which case
the substitution is the identity; both implementations agree (F12 aligned the checker) -/
theorem esubst_deferred_on_mv (x : VId) (plug : Pat) (id : VId) (ef sf ps ns hs : List VId) :
    applyESubst x plug (mv id ef sf ps ns hs) = some (Py.esub x plug (mv id ef sf ps ns hs)) ∧
    (ef.contains x = false → Py.esub x plug (mv id ef sf ps ns hs) = esub (mv id ef sf ps ns hs) x plug) ∧
    (ef.contains x = true → Py.esub x plug (mv id ef sf ps ns hs) = mv id ef sf ps ns hs) := by
  refine ⟨?_, ?_, ?_⟩
  · simp only [applyESubst, Py.esub]; split <;> rfl
  · intro h; simp only [Py.esub, h]; rfl
  · intro h; simp only [Py.esub, h]; rfl

theorem ssubst_deferred_on_mv (X : VId) (plug : Pat) (id : VId) (ef sf ps ns hs : List VId) :
    applySSubst X plug (mv id ef sf ps ns hs) = some (Py.ssub X plug (mv id ef sf ps ns hs)) ∧
    (sf.contains X = false → Py.ssub X plug (mv id ef sf ps ns hs) = ssub (mv id ef sf ps ns hs) X plug) ∧
    (sf.contains X = true → Py.ssub X plug (mv id ef sf ps ns hs) = mv id ef sf ps ns hs) := by
  refine ⟨?_, ?_, ?_⟩
  · simp only [applySSubst, Py.ssub]; split <;> rfl
  · intro h; simp only [Py.ssub, h]; rfl
  · intro h; simp only [Py.ssub, h]; rfl

/-- instantiation is simultaneous: the value put for a metavariable is not instantiated again -/
theorem inst_simultaneous (δ : VId → Option Pat) (id : VId) (q : Pat) (h : δ id = some q) :
    Py.inst δ (mv id [] [] [] [] []) = q ∧ inst δ (mv id [] [] [] [] []) = some q := by
  simp [Py.inst, inst, h, okPlug]

/-- instantiation distributes over every constructor and resolves pending substitutions -/
theorem inst_distrib (δ : VId → Option Pat) (l r p : Pat) (x : VId) :
    Py.inst δ (imp l r) = imp (Py.inst δ l) (Py.inst δ r) ∧
    Py.inst δ (app l r) = app (Py.inst δ l) (Py.inst δ r) ∧
    Py.inst δ (ex x p) = ex x (Py.inst δ p) ∧
    Py.inst δ (mu x p) = mu x (Py.inst δ p) ∧
    Py.inst δ (esub p x r) = Py.esub x (Py.inst δ r) (Py.inst δ p) ∧
    Py.inst δ (ssub p x r) = Py.ssub x (Py.inst δ r) (Py.inst δ p) := by
  simp [Py.inst]

/-- the substitution lemma of the semantics (checker side) -/
theorem substitution_lemma_E (𝔐 : Model) (σ : MVKey → Sem 𝔐.M) (hσ : AllAdm σ) (x : VId) (plug p r : Pat)
    (h : applyESubst x plug p = some r) (ρ : Val 𝔐.M) :
    eval 𝔐 σ r ρ = eval 𝔐 σ p (ρ.setE x (eval 𝔐 σ plug ρ)) :=
  applyESubst_sem 𝔐 σ hσ.1 hσ.2.1 x plug p r h ρ

theorem substitution_lemma_S (𝔐 : Model) (σ : MVKey → Sem 𝔐.M) (hσ : AllAdm σ) (X : VId) (plug p r : Pat)
    (h : applySSubst X plug p = some r) (ρ : Val 𝔐.M) :
    eval 𝔐 σ r ρ = eval 𝔐 σ p (ρ.setS X (eval 𝔐 σ plug ρ)) :=
  applySSubst_sem 𝔐 σ hσ.1 hσ.2.1 X plug p r h ρ

/-- the generator's substitution coincides with the checker's whenever the checker accepts — for
**all** patterns (the checker only adds the capture checks) -/
theorem py_esubst_eq_rust (x : VId) (plug : Pat) : ∀ (p r : Pat),
    applyESubst x plug p = some r → Py.esub x plug p = r := by
  intro p
  induction p with
  | evar y => intro r h; simp only [applyESubst] at h; simp only [Py.esub]; split at h <;> simp_all
  | svar _ => intro r h; simp [applyESubst] at h; simp [Py.esub, h]
  | sym _ => intro r h; simp [applyESubst] at h; simp [Py.esub, h]
  | imp l r ihl ihr =>
    intro q h; simp only [applyESubst] at h
    cases hl : applyESubst x plug l with
    | none => simp [hl] at h
    | some l' =>
      cases hr : applyESubst x plug r with
      | none => simp [hl, hr] at h
      | some r' => simp [hl, hr] at h; subst h; simp [Py.esub, ihl l' hl, ihr r' hr]
  | app l r ihl ihr =>
    intro q h; simp only [applyESubst] at h
    cases hl : applyESubst x plug l with
    | none => simp [hl] at h
    | some l' =>
      cases hr : applyESubst x plug r with
      | none => simp [hl, hr] at h
      | some r' => simp [hl, hr] at h; subst h; simp [Py.esub, ihl l' hl, ihr r' hr]
  | ex y p ih =>
    intro q h; simp only [applyESubst] at h; simp only [Py.esub]
    split at h
    · simp_all
    · rename_i hy
      split at h <;> try contradiction
      cases hp : applyESubst x plug p with
      | none => simp [hp] at h
      | some p' => simp [hp] at h; subst h; simp [hy, ih p' hp]
  | mu Y p ih =>
    intro q h; simp only [applyESubst] at h; simp only [Py.esub]
    split at h <;> try contradiction
    cases hp : applyESubst x plug p with
    | none => simp [hp] at h
    | some p' => simp [hp] at h; subst h; simp [ih p' hp]
  | mv id ef sf ps ns hs =>
    intro r h; simp only [applyESubst] at h; simp only [Py.esub]
    split at h <;> simp_all
  | esub _ _ _ _ _ => intro r h; simp [applyESubst] at h; simp [Py.esub, h]
  | ssub _ _ _ _ _ => intro r h; simp [applyESubst] at h; simp [Py.esub, h]

theorem py_ssubst_eq_rust (X : VId) (plug : Pat) : ∀ (p r : Pat),
    applySSubst X plug p = some r → Py.ssub X plug p = r := by
  intro p
  induction p with
  | svar y => intro r h; simp only [applySSubst] at h; simp only [Py.ssub]; split at h <;> simp_all
  | evar _ => intro r h; simp [applySSubst] at h; simp [Py.ssub, h]
  | sym _ => intro r h; simp [applySSubst] at h; simp [Py.ssub, h]
  | imp l r ihl ihr =>
    intro q h; simp only [applySSubst] at h
    cases hl : applySSubst X plug l with
    | none => simp [hl] at h
    | some l' =>
      cases hr : applySSubst X plug r with
      | none => simp [hl, hr] at h
      | some r' => simp [hl, hr] at h; subst h; simp [Py.ssub, ihl l' hl, ihr r' hr]
  | app l r ihl ihr =>
    intro q h; simp only [applySSubst] at h
    cases hl : applySSubst X plug l with
    | none => simp [hl] at h
    | some l' =>
      cases hr : applySSubst X plug r with
      | none => simp [hl, hr] at h
      | some r' => simp [hl, hr] at h; subst h; simp [Py.ssub, ihl l' hl, ihr r' hr]
  | ex y p ih =>
    intro q h; simp only [applySSubst] at h; simp only [Py.ssub]
    split at h <;> try contradiction
    cases hp : applySSubst X plug p with
    | none => simp [hp] at h
    | some p' => simp [hp] at h; subst h; simp [ih p' hp]
  | mu Y p ih =>
    intro q h; simp only [applySSubst] at h; simp only [Py.ssub]
    split at h
    · simp_all
    · rename_i hy
      split at h <;> try contradiction
      cases hp : applySSubst X plug p with
      | none => simp [hp] at h
      | some p' => simp [hp] at h; subst h; simp [hy, ih p' hp]
  | mv id ef sf ps ns hs =>
    intro r h; simp only [applySSubst] at h; simp only [Py.ssub]
    split at h <;> simp_all
  | esub _ _ _ _ _ => intro r h; simp [applySSubst] at h; simp [Py.ssub, h]
  | ssub _ _ _ _ _ => intro r h; simp [applySSubst] at h; simp [Py.ssub, h]

/-- hence the checker's instantiation, whenever it accepts, is the generator's instantiation -/
theorem py_inst_eq_rust (θ : VId → Option Pat) : ∀ (p r : Pat), inst θ p = some r → Py.inst θ p = r := by
  intro p
  induction p with
  | evar _ => intro r h; simp [inst] at h; simp [Py.inst, h]
  | svar _ => intro r h; simp [inst] at h; simp [Py.inst, h]
  | sym _ => intro r h; simp [inst] at h; simp [Py.inst, h]
  | mv id ef sf ps ns hs =>
    intro r h; simp only [inst] at h; simp only [Py.inst]
    cases hθ : θ id with
    | none => simp [hθ] at h; simp [h]
    | some q => simp only [hθ] at h; split at h <;> simp_all
  | imp l r ihl ihr =>
    intro q h; simp only [inst] at h
    cases hl : inst θ l with
    | none => simp [hl] at h
    | some l' =>
      cases hr : inst θ r with
      | none => simp [hl, hr] at h
      | some r' => simp [hl, hr] at h; subst h; simp [Py.inst, ihl l' hl, ihr r' hr]
  | app l r ihl ihr =>
    intro q h; simp only [inst] at h
    cases hl : inst θ l with
    | none => simp [hl] at h
    | some l' =>
      cases hr : inst θ r with
      | none => simp [hl, hr] at h
      | some r' => simp [hl, hr] at h; subst h; simp [Py.inst, ihl l' hl, ihr r' hr]
  | ex x p ih =>
    intro q h; simp only [inst] at h
    cases hp : inst θ p with
    | none => simp [hp] at h
    | some p' => simp [hp] at h; subst h; simp [Py.inst, ih p' hp]
  | mu x p ih =>
    intro q h; simp only [inst] at h
    cases hp : inst θ p with
    | none => simp [hp] at h
    | some p' => simp [hp] at h; subst h; simp [Py.inst, ih p' hp]
  | esub p x plug ihp ihq =>
    intro r h; simp only [inst] at h
    cases hp : inst θ p with
    | none => simp [hp] at h
    | some p' =>
      cases hq : inst θ plug with
      | none => simp [hp, hq] at h
      | some q' =>
        simp [hp, hq] at h
        simp only [Py.inst, ihp p' hp, ihq q' hq]
        exact py_esubst_eq_rust x q' p' r h
  | ssub p x plug ihp ihq =>
    intro r h; simp only [inst] at h
    cases hp : inst θ p with
    | none => simp [hp] at h
    | some p' =>
      cases hq : inst θ plug with
      | none => simp [hp, hq] at h
      | some q' =>
        simp [hp, hq] at h
        simp only [Py.inst, ihp p' hp, ihq q' hq]
        exact py_ssubst_eq_rust x q' p' r h

/-- instantiation composes: instantiating twice equals instantiating once with the composed map
(shaped patterns: see `Pat.Shape`; outside, `MetaVar.apply_esubst`'s e_fresh shortcut breaks it) -/
theorem inst_compose (δ₁ δ₂ : VId → Option Pat) (q : Pat) (hδ : ∀ k v, δ₁ k = some v → v.Shape = true)
    (hq : q.Shape = true) :
    Py.inst δ₂ (Py.inst δ₁ q) = Py.inst (fun k => match δ₁ k with | some v => some (Py.inst δ₂ v) | none => δ₂ k) q :=
  Py.inst_comp δ₁ δ₂ hδ q hq

/-- instantiation commutes with substitution (shaped patterns) -/
theorem inst_esubst_commute (δ : VId → Option Pat) (x : VId) (plug q : Pat) (hq : q.Shape = true) :
    Py.inst δ (Py.esub x plug q) = Py.esub x (Py.inst δ plug) (Py.inst δ q) := Py.inst_esub_comm δ x plug q hq

/-- on patterns with notation: `expand (p.instantiate δ) = (expand p).instantiate (expand ∘ δ)` -/
theorem notation_instantiate (n : Nat) (δ : List (Nat × NPat)) (p r : NPat) (hp : p.Shape = true)
    (hδ : NPat.ShapeMap δ = true) (h : NPat.instF n δ p = some r) :
    r.expand = Py.inst (Py.lookup (NPat.expand.expandMap δ)) p.expand := (NPat.instF_expand n δ p r hp hδ h).1

/-! Non-vacuity -/
example : applyESubst 0 (evar 1) (ex 2 (imp (evar 0) (evar 2))) = some (ex 2 (imp (evar 1) (evar 2))) := by decide
example : applyESubst 0 (evar 2) (ex 2 (imp (evar 0) (evar 2))) = none := by decide   -- capture is rejected
example : Py.esub 0 (evar 2) (ex 2 (imp (evar 0) (evar 2))) = ex 2 (imp (evar 2) (evar 2)) := by decide

/-- the Rust substitution functions as written in the source (translated on every run) are the model's: the laws above
hold of `apply_esubst` / `apply_ssubst` of `rust/src/lib.rs` -/
theorem rust_substitution_is_the_model :
    Gen.Rust.substTranslated = true ∧
    (∀ p x plug, Gen.Rust.apply_esubst p x plug = Pat.applyESubst x plug p) ∧
    (∀ p x plug, Gen.Rust.apply_ssubst p x plug = Pat.applySSubst x plug p) :=
  ⟨RustTie.substTranslated, RustTie.apply_esubst_eq, RustTie.apply_ssubst_eq⟩

/-- the Python pattern operations as written in `pattern.py` (translated on every run, `Pi2/Gen/PyPattern.lean`) are the
hand-written Python semantics on notation-free patterns that the theorems above are stated about -/
theorem python_pattern_operations_are_the_model :
    Gen.Py.translated = true ∧
    (∀ p e, Gen.Py.evar_is_free p e = Pat.eFresh e p) ∧
    (∀ p, Gen.Py.metavars p = Py.metavars p) ∧
    (∀ p x plug, Gen.Py.apply_esubst p x plug = Py.esub x plug p) ∧
    (∀ p x plug, Gen.Py.apply_ssubst p x plug = Py.ssub x plug p) ∧
    (∀ p, Gen.Py.instantiate p [] = p) ∧
    (∀ p δ, δ ≠ [] → Gen.Py.instantiate p δ = Py.inst (Py.lookup δ) p) :=
  ⟨PyTie.translated, PyTie.evar_is_free_eq, PyTie.metavars_eq, PyTie.apply_esubst_eq, PyTie.apply_ssubst_eq,
   PyTie.instantiate_nil, PyTie.instantiate_eq⟩

/-- `instantiate_in_place` as the Rust code computes it (`Pat.instU`: arm by arm with the "unchanged" optimisation; the
correspondence compares the real checker with it on ALL patterns) is the simple model `inst`, about which the laws above
and the soundness proof are stated, on every pattern the machine can build: `RShape` (every substitution node is one
that `apply_esubst` / `apply_ssubst` rebuild; implied by `Shape`) holds of every term of every reachable machine state
(`machine_states_reachable_shape`) -/
theorem rust_instantiate_is_the_model (vars : List VId) (plugs : List Pat) (hlen : vars.length = plugs.length)
    (p : Pat) (hs : p.RShape = true) :
    (Pat.instU vars plugs p).map (·.getD p) = Pat.inst (Pat.lookupPlug vars plugs) p :=
  Pat.instU_eq_inst_RShape vars plugs hlen p hs

/-- every term on the stack and in the memory of every machine state reachable from the empty state is `RShape` -/
theorem machine_states_reachable_shape (ph : Phase) (is : List Instr) (s s' : St) (js : List Pat)
    (h : run ph s is = some (s', js)) (hs : s.RShape = true) : s'.RShape = true :=
  run_RShape ph is s s' js h hs

/-- the hypothesis is needed: outside `RShape` (a state no instruction sequence builds) the "unchanged" optimisation
of the Rust code is visible -/
theorem instantiate_unchanged_visible_outside_shape :
    (Pat.instU [] [] (.esub (.evar 0) 0 (.evar 1))).map (·.getD (.esub (.evar 0) 0 (.evar 1))) = some (.esub (.evar 0) 0 (.evar 1)) ∧
    Pat.inst (Pat.lookupPlug [] []) (.esub (.evar 0) 0 (.evar 1)) = some (.evar 1) := by
  constructor <;> rfl

/-- `instantiate_internal` / `instantiate_in_place` as written in `rust/src/lib.rs` (translated statement by statement on
every run, `Pi2/Gen/RustInst.lean`; outer `none` = panic, inner `none` = Rust `None`) are the hand-written `Pat.instU`, on
ALL inputs (no length or shape hypothesis) -/
theorem rust_instantiate_text_is_instU :
    Gen.Rust.instTranslated = true ∧
    (∀ vars plugs p, Gen.Rust.instantiate_internal vars plugs p = Pat.instU vars plugs p) ∧
    (∀ vars plugs p, Gen.Rust.instantiate_in_place vars plugs p = (Pat.instU vars plugs p).map (·.getD p)) :=
  ⟨RustInstTie.instTranslated, RustInstTie.instantiate_internal_eq, RustInstTie.instantiate_in_place_eq⟩

/-- hence the Rust text of `instantiate_in_place` computes the simple model `inst` on every pattern the machine can build -/
theorem rust_instantiate_text_is_the_model (vars : List VId) (plugs : List Pat) (hlen : vars.length = plugs.length)
    (p : Pat) (hs : p.RShape = true) :
    Gen.Rust.instantiate_in_place vars plugs p = Pat.inst (Pat.lookupPlug vars plugs) p :=
  (RustInstTie.instantiate_in_place_eq vars plugs p).trans (rust_instantiate_is_the_model vars plugs hlen p hs)

/-! ## "exactly the free occurrences": nothing of the variable is left, nothing else is touched, idempotence -/

/-- "replaces EXACTLY the free occurrences", first half: after the substitution no free occurrence of the variable is left
(when the plug has none) — the judgement `e_fresh` of the checker accepts the result -/
theorem substE_eliminates (x : VId) (plug : Pat) (hp : plug.eFresh x = true) :
    ∀ p : Pat, concrete p = true → (substE x plug p).eFresh x = true := by
  intro p; induction p with
  | evar y => intro _; simp only [substE]; split
              · exact hp
              · rename_i h; simp [eFresh, h]
  | ex y p ih => intro hc; simp [concrete] at hc; simp only [substE]; split
                 · rename_i h; simp [eFresh, h]
                 · simp [eFresh, ih hc]
  | imp l r ihl ihr => intro hc; simp [concrete] at hc; simp [substE, eFresh, ihl hc.1, ihr hc.2]
  | app l r ihl ihr => intro hc; simp [concrete] at hc; simp [substE, eFresh, ihl hc.1, ihr hc.2]
  | mu Y p ih => intro hc; simp [concrete] at hc; simp [substE, eFresh, ih hc]
  | svar _ => intro _; simp [substE, eFresh]
  | sym _ => intro _; simp [substE, eFresh]
  | _ => intro hc; simp [concrete] at hc

theorem substS_eliminates (X : VId) (plug : Pat) (hp : plug.sFresh X = true) :
    ∀ p : Pat, concrete p = true → (substS X plug p).sFresh X = true := by
  intro p; induction p with
  | svar y => intro _; simp only [substS]; split
              · exact hp
              · rename_i h; simp [sFresh, h]
  | mu y p ih => intro hc; simp [concrete] at hc; simp only [substS]; split
                 · rename_i h; simp [sFresh, h]
                 · simp [sFresh, ih hc]
  | imp l r ihl ihr => intro hc; simp [concrete] at hc; simp [substS, sFresh, ihl hc.1, ihr hc.2]
  | app l r ihl ihr => intro hc; simp [concrete] at hc; simp [substS, sFresh, ihl hc.1, ihr hc.2]
  | ex Y p ih => intro hc; simp [concrete] at hc; simp [substS, sFresh, ih hc]
  | evar _ => intro _; simp [substS, sFresh]
  | sym _ => intro _; simp [substS, sFresh]
  | _ => intro hc; simp [concrete] at hc

/-- second half: nothing else is touched — a variable that is fresh in the pattern and in the plug is fresh in the result -/
theorem substE_preserves_eFresh (x y : VId) (plug : Pat) (hp : plug.eFresh y = true) :
    ∀ p : Pat, p.eFresh y = true → (substE x plug p).eFresh y = true := by
  intro p; induction p with
  | evar z => intro h; simp only [substE]; split
              · exact hp
              · exact h
  | ex z p ih => intro h; simp only [substE]; split
                 · exact h
                 · simp [eFresh] at h ⊢; rcases h with h | h
                   · exact Or.inl h
                   · exact Or.inr (ih h)
  | imp l r ihl ihr => intro h; simp [eFresh] at h; simp [substE, eFresh, ihl h.1, ihr h.2]
  | app l r ihl ihr => intro h; simp [eFresh] at h; simp [substE, eFresh, ihl h.1, ihr h.2]
  | mu Y p ih => intro h; simp [eFresh] at h; simp [substE, eFresh, ih h]
  | _ => intro h; simpa [substE] using h

theorem substS_preserves_sFresh (X Y : VId) (plug : Pat) (hp : plug.sFresh Y = true) :
    ∀ p : Pat, p.sFresh Y = true → (substS X plug p).sFresh Y = true := by
  intro p; induction p with
  | svar z => intro h; simp only [substS]; split
              · exact hp
              · exact h
  | mu z p ih => intro h; simp only [substS]; split
                 · exact h
                 · simp [sFresh] at h ⊢; rcases h with h | h
                   · exact Or.inl h
                   · exact Or.inr (ih h)
  | imp l r ihl ihr => intro h; simp [sFresh] at h; simp [substS, sFresh, ihl h.1, ihr h.2]
  | app l r ihl ihr => intro h; simp [sFresh] at h; simp [substS, sFresh, ihl h.1, ihr h.2]
  | ex Y p ih => intro h; simp [sFresh] at h; simp [substS, sFresh, ih h]
  | _ => intro h; simpa [substS] using h

/-- an element substitution never changes which set variables are free beyond what the plug brings, and vice versa -/
theorem substE_preserves_sFresh (x Y : VId) (plug : Pat) (hp : plug.sFresh Y = true) :
    ∀ p : Pat, p.sFresh Y = true → (substE x plug p).sFresh Y = true := by
  intro p; induction p with
  | evar z => intro h; simp only [substE]; split
              · exact hp
              · exact h
  | ex z p ih => intro h; simp only [substE]; split
                 · exact h
                 · simp [sFresh] at h ⊢; exact ih h
  | mu Z p ih => intro h; simp [sFresh] at h; simp only [substE, sFresh]; rcases h with h | h
                 · simp [h]
                 · simp [ih h]
  | imp l r ihl ihr => intro h; simp [sFresh] at h; simp [substE, sFresh, ihl h.1, ihr h.2]
  | app l r ihl ihr => intro h; simp [sFresh] at h; simp [substE, sFresh, ihl h.1, ihr h.2]
  | _ => intro h; simpa [substE] using h

/-- the textbook substitution keeps concrete patterns concrete (given a concrete plug) -/
theorem substE_concrete (x : VId) (plug : Pat) (hp : concrete plug = true) :
    ∀ p : Pat, concrete p = true → concrete (substE x plug p) = true := by
  intro p; induction p with
  | evar y => intro _; simp only [substE]; split
              · exact hp
              · rfl
  | ex y p ih => intro hc; simp [concrete] at hc; simp only [substE]; split
                 · simpa [concrete] using hc
                 · simp [concrete, ih hc]
  | imp l r ihl ihr => intro hc; simp [concrete] at hc; simp [substE, concrete, ihl hc.1, ihr hc.2]
  | app l r ihl ihr => intro hc; simp [concrete] at hc; simp [substE, concrete, ihl hc.1, ihr hc.2]
  | mu Y p ih => intro hc; simp [concrete] at hc; simp [substE, concrete, ih hc]
  | _ => intro hc; simpa [substE] using hc

theorem substS_concrete (X : VId) (plug : Pat) (hp : concrete plug = true) :
    ∀ p : Pat, concrete p = true → concrete (substS X plug p) = true := by
  intro p; induction p with
  | svar y => intro _; simp only [substS]; split
              · exact hp
              · rfl
  | mu y p ih => intro hc; simp [concrete] at hc; simp only [substS]; split
                 · simpa [concrete] using hc
                 · simp [concrete, ih hc]
  | imp l r ihl ihr => intro hc; simp [concrete] at hc; simp [substS, concrete, ihl hc.1, ihr hc.2]
  | app l r ihl ihr => intro hc; simp [concrete] at hc; simp [substS, concrete, ihl hc.1, ihr hc.2]
  | ex Y p ih => intro hc; simp [concrete] at hc; simp [substS, concrete, ih hc]
  | _ => intro hc; simpa [substS] using hc

/-- hence substituting twice is substituting once (plug without the variable): all free occurrences were replaced the first time -/
theorem substE_idempotent (x : VId) (plug p : Pat) (hpc : concrete plug = true) (hp : plug.eFresh x = true)
    (hc : concrete p = true) : substE x plug (substE x plug p) = substE x plug p :=
  substE_id_of_fresh x plug _ (substE_concrete x plug hpc p hc) (substE_eliminates x plug hp p hc)

theorem substS_idempotent (X : VId) (plug p : Pat) (hpc : concrete plug = true) (hp : plug.sFresh X = true)
    (hc : concrete p = true) : substS X plug (substS X plug p) = substS X plug p :=
  substS_id_of_fresh X plug _ (substS_concrete X plug hpc p hc) (substS_eliminates X plug hp p hc)

/-- the same facts for the checker's own functions: whenever `apply_esubst` / `apply_ssubst` of `rust/src/lib.rs` do not
reject, the variable is judged fresh (by the checker's own `e_fresh` / `s_fresh`) in what they return, and applying them
again returns the same pattern or rejects -/
theorem rust_esubst_eliminates (x : VId) (plug p r : Pat) (hp : plug.eFresh x = true) (hc : concrete p = true)
    (h : applyESubst x plug p = some r) : r.eFresh x = true := by
  rw [rust_esubst_textbook x plug p r hc h]; exact substE_eliminates x plug hp p hc

theorem rust_ssubst_eliminates (X : VId) (plug p r : Pat) (hp : plug.sFresh X = true) (hc : concrete p = true)
    (h : applySSubst X plug p = some r) : r.sFresh X = true := by
  rw [rust_ssubst_textbook X plug p r hc h]; exact substS_eliminates X plug hp p hc

theorem rust_esubst_idempotent (x : VId) (plug p r r' : Pat) (hpc : concrete plug = true) (hp : plug.eFresh x = true)
    (hc : concrete p = true) (h : applyESubst x plug p = some r) (h' : applyESubst x plug r = some r') : r' = r := by
  have e := rust_esubst_textbook x plug p r hc h
  have e' := rust_esubst_textbook x plug r r' (e ▸ substE_concrete x plug hpc p hc) h'
  rw [e', e]; exact substE_idempotent x plug p hpc hp hc

theorem rust_ssubst_idempotent (X : VId) (plug p r r' : Pat) (hpc : concrete plug = true) (hp : plug.sFresh X = true)
    (hc : concrete p = true) (h : applySSubst X plug p = some r) (h' : applySSubst X plug r = some r') : r' = r := by
  have e := rust_ssubst_textbook X plug p r hc h
  have e' := rust_ssubst_textbook X plug r r' (e ▸ substS_concrete X plug hpc p hc) h'
  rw [e', e]; exact substS_idempotent X plug p hpc hp hc

/-- the hypotheses are satisfiable on a pattern with a bound and a free occurrence, and the plug-freshness hypothesis is
needed: with the variable in the plug a free occurrence is left -/
example : substE 0 (.sym 7) (.app (.evar 0) (.ex 0 (.evar 0))) = .app (.sym 7) (.ex 0 (.evar 0)) ∧
    concrete (.app (.evar 0) (.ex 0 (.evar 0))) = true ∧ (Pat.sym 7).eFresh 0 = true := by decide
theorem eliminates_needs_fresh_plug :
    (substE 0 (.app (.evar 0) (.evar 0)) (.evar 0)).eFresh 0 = false ∧
    substE 0 (.app (.evar 0) (.evar 0)) (substE 0 (.app (.evar 0) (.evar 0)) (.evar 0)) ≠ substE 0 (.app (.evar 0) (.evar 0)) (.evar 0) := by
  decide


/-! ## the judgements on a pending substitution are sound for the resolved pattern -/

theorem substS_preserves_eFresh (X y : VId) (plug : Pat) (hp : plug.eFresh y = true) :
    ∀ p : Pat, p.eFresh y = true → (substS X plug p).eFresh y = true := by
  intro p; induction p with
  | svar z => intro h; simp only [substS]; split
              · exact hp
              · exact h
  | mu z p ih => intro h; simp only [substS]; split
                 · exact h
                 · simp [eFresh] at h ⊢; exact ih h
  | ex Z p ih => intro h; simp [eFresh] at h; simp only [substS, eFresh]; rcases h with h | h
                 · simp [h]
                 · simp [ih h]
  | imp l r ihl ihr => intro h; simp [eFresh] at h; simp [substS, eFresh, ihl h.1, ihr h.2]
  | app l r ihl ihr => intro h; simp [eFresh] at h; simp [substS, eFresh, ihl h.1, ihr h.2]
  | _ => intro h; simpa [substS] using h

/-- the checker judges a PENDING substitution (`ESubst`/`SSubst` node, `e_fresh`/`s_fresh` arms of lib.rs:136-215) no more
generously than the RESOLVED pattern: whenever the judgement holds of the deferred node it holds of the textbook result.
(Syntactic counterpart of C06's semantic soundness, for concrete bodies.) -/
theorem pending_esubst_eFresh_sound (e x : VId) (plug p : Pat) (hc : concrete p = true)
    (h : (esub p x plug).eFresh e = true) : (substE x plug p).eFresh e = true := by
  simp only [eFresh] at h
  split at h
  · rename_i hex; have : e = x := by simpa using hex
    subst this; exact substE_eliminates e plug h p hc
  · simp at h; exact substE_preserves_eFresh x e plug h.2 p h.1

theorem pending_ssubst_sFresh_sound (s X : VId) (plug p : Pat) (hc : concrete p = true)
    (h : (ssub p X plug).sFresh s = true) : (substS X plug p).sFresh s = true := by
  simp only [sFresh] at h
  split at h
  · rename_i hex; have : s = X := by simpa using hex
    subst this; exact substS_eliminates s plug h p hc
  · simp at h; exact substS_preserves_sFresh X s plug h.2 p h.1

theorem pending_esubst_sFresh_sound (s x : VId) (plug p : Pat)
    (h : (esub p x plug).sFresh s = true) : (substE x plug p).sFresh s = true := by
  simp [sFresh] at h; exact substE_preserves_sFresh x s plug h.2 p h.1

theorem pending_ssubst_eFresh_sound (e X : VId) (plug p : Pat)
    (h : (ssub p X plug).eFresh e = true) : (substS X plug p).eFresh e = true := by
  simp [eFresh] at h; exact substS_preserves_eFresh X e plug h.2 p h.1

/-- the converse fails, by design: the judgement on the pending node is the more cautious one — evar 0 is not judged fresh in the
deferred `(sym 0)[evar 0 / evar 1]` although the resolved pattern `sym 0` does not contain it -/
theorem pending_judgement_is_conservative :
    (esub (.sym 0) 1 (.evar 0)).eFresh 0 = false ∧ (substE 1 (.evar 0) (.sym 0)).eFresh 0 = true := by decide


/-! ## polarity: the positivity / negativity judgements on a pending substitution are sound for the resolved pattern -/

/-- on concrete patterns a set variable that does not occur free occurs neither negatively nor positively -/
theorem pos_ng_of_sFresh (s : VId) : ∀ q : Pat, concrete q = true → q.sFresh s = true → q.pos s = true ∧ q.ng s = true := by
  intro q; induction q with
  | imp l r ihl ihr => intro hc h; simp [concrete] at hc; simp [sFresh] at h
                       have a := ihl hc.1 h.1; have b := ihr hc.2 h.2; simp [pos, ng, a, b]
  | app l r ihl ihr => intro hc h; simp [concrete] at hc; simp [sFresh] at h
                       have a := ihl hc.1 h.1; have b := ihr hc.2 h.2; simp [pos, ng, a, b]
  | ex y p ih => intro hc h; simp [concrete] at hc; simp [sFresh] at h; have a := ih hc h; simp [pos, ng, a]
  | mu Y p ih => intro hc h; simp [concrete] at hc; simp [sFresh] at h
                 rcases h with h | h
                 · simp [pos, ng, h]
                 · have a := ih hc h; simp [pos, ng, a]
  | svar Y => intro _ h; simp [sFresh] at h; simp [pos, ng, h]
  | evar _ => intro _ _; simp [pos, ng]
  | sym _ => intro _ _; simp [pos, ng]
  | _ => intro hc; simp [concrete] at hc

/-- MONOTONICITY, the reason behind the `SSubst` arms of `positive`/`negative` (lib.rs:217-281): whenever the checker judges
`s` positive (negative) in the deferred `p[plug/X]`, `s` is positive (negative) in the resolved textbook pattern -/
theorem pending_ssubst_pos_ng_sound (s X : VId) (plug : Pat) (hpc : concrete plug = true) :
    ∀ p : Pat, concrete p = true →
      ((ssub p X plug).pos s = true → (substS X plug p).pos s = true) ∧
      ((ssub p X plug).ng s = true → (substS X plug p).ng s = true) := by
  have hf : plug.sFresh s = true → plug.pos s = true ∧ plug.ng s = true := pos_ng_of_sFresh s plug hpc
  intro p; induction p with
  | evar _ => intro _; simp [substS, pos, ng]
  | sym _ => intro _; simp [substS, pos, ng]
  | svar Y =>
    intro _; simp only [substS]
    by_cases hY : Y = X
    · subst hY; simp only [if_true]; simp [pos, ng]; grind
    · simp only [hY, if_false]; simp [pos, ng]; grind
  | imp l r ihl ihr =>
    intro hc; simp [concrete] at hc
    have a := ihl hc.1; have b := ihr hc.2
    simp [pos, ng, substS] at a b ⊢; grind
  | app l r ihl ihr =>
    intro hc; simp [concrete] at hc
    have a := ihl hc.1; have b := ihr hc.2
    simp [pos, ng, substS] at a b ⊢; grind
  | ex y q ih =>
    intro hc; simp [concrete] at hc
    have a := ih hc
    simp [pos, ng, substS] at a ⊢; grind
  | mu Y q ih =>
    intro hc; simp [concrete] at hc
    have a := ih hc
    simp only [substS]
    by_cases hY : Y = X
    · subst hY; simp [pos, ng]; grind
    · simp only [hY, if_false]; simp [pos, ng] at a ⊢; grind
  | _ => intro hc; simp [concrete] at hc

/-- the `ESubst` arms of `positive`/`negative`: the plug must not contain `s` at all, and then polarity is kept -/
theorem pending_esubst_pos_ng_sound (s x : VId) (plug : Pat) (hpc : concrete plug = true) :
    ∀ p : Pat, concrete p = true →
      ((esub p x plug).pos s = true → (substE x plug p).pos s = true) ∧
      ((esub p x plug).ng s = true → (substE x plug p).ng s = true) := by
  have hf : plug.sFresh s = true → plug.pos s = true ∧ plug.ng s = true := pos_ng_of_sFresh s plug hpc
  intro p; induction p with
  | evar y =>
    intro _; simp only [substE]
    by_cases hy : y = x
    · subst hy; simp only [if_true]; simp [pos, ng]; grind
    · simp only [hy, if_false]; simp [pos, ng]
  | sym _ => intro _; simp [substE, pos, ng]
  | svar Y => intro _; simp [substE, pos, ng]; grind
  | imp l r ihl ihr =>
    intro hc; simp [concrete] at hc
    have a := ihl hc.1; have b := ihr hc.2
    simp [pos, ng, substE] at a b ⊢; grind
  | app l r ihl ihr =>
    intro hc; simp [concrete] at hc
    have a := ihl hc.1; have b := ihr hc.2
    simp [pos, ng, substE] at a b ⊢; grind
  | mu Y q ih =>
    intro hc; simp [concrete] at hc
    have a := ih hc
    simp [pos, ng, substE] at a ⊢; grind
  | ex y q ih =>
    intro hc; simp [concrete] at hc
    have a := ih hc
    simp only [substE]
    by_cases hy : y = x
    · subst hy; simp [pos, ng]; grind
    · simp only [hy, if_false]; simp [pos, ng] at a ⊢; grind
  | _ => intro hc; simp [concrete] at hc

/-- non-vacuity: the polarity hypothesis is met by μ-bodies the generator really builds (X positive in `(X → ⊥) → ⊥`-style
nesting), and needed: substituting a negative occurrence of s for a positive X must not be judged positive -/
example : (ssub (.imp (.imp (.svar 0) (.sym 0)) (.sym 0)) 0 (.svar 1)).pos 1 = true ∧
    (substS 0 (.svar 1) (.imp (.imp (.svar 0) (.sym 0)) (.sym 0))).pos 1 = true := by decide
theorem polarity_flip_is_rejected :
    (ssub (.imp (.svar 0) (.sym 0)) 0 (.svar 1)).pos 1 = false ∧
    (substS 0 (.svar 1) (.imp (.svar 0) (.sym 0))).pos 1 = false := by decide


/-! ## substitutions for different variables commute -/

/-- substitutions for two different variables commute when neither plug mentions the other variable (the syntactic
substitution lemma, special case used by the proof rules that substitute twice) -/
theorem substE_comm (x y : VId) (hxy : x ≠ y) (a b : Pat) (hac : concrete a = true) (hbc : concrete b = true)
    (ha : a.eFresh y = true) (hb : b.eFresh x = true) :
    ∀ p : Pat, substE x a (substE y b p) = substE y b (substE x a p) := by
  intro p; induction p with
  | evar z =>
    by_cases hzx : z = x
    · subst hzx
      have hzy : ¬ z = y := hxy
      simp only [substE, hzy, if_false, if_true]
      exact (substE_id_of_fresh y b a hac ha).symm
    · by_cases hzy : z = y
      · subst hzy
        simp only [substE, hzx, if_false, if_true]
        exact substE_id_of_fresh x a b hbc hb
      · simp [substE, hzx, hzy]
  | ex z q ih =>
    by_cases hzx : z = x
    · subst hzx
      have hzy : ¬ z = y := hxy
      simp [substE, hzy]
    · by_cases hzy : z = y
      · subst hzy; simp [substE, hzx]
      · simp [substE, hzx, hzy, ih]
  | imp l r ihl ihr => simp [substE, ihl, ihr]
  | app l r ihl ihr => simp [substE, ihl, ihr]
  | mu Y q ih => simp [substE, ih]
  | _ => simp [substE]

theorem substS_comm (X Y : VId) (hxy : X ≠ Y) (a b : Pat) (hac : concrete a = true) (hbc : concrete b = true)
    (ha : a.sFresh Y = true) (hb : b.sFresh X = true) :
    ∀ p : Pat, substS X a (substS Y b p) = substS Y b (substS X a p) := by
  intro p; induction p with
  | svar z =>
    by_cases hzx : z = X
    · subst hzx
      have hzy : ¬ z = Y := hxy
      simp only [substS, hzy, if_false, if_true]
      exact (substS_id_of_fresh Y b a hac ha).symm
    · by_cases hzy : z = Y
      · subst hzy
        simp only [substS, hzx, if_false, if_true]
        exact substS_id_of_fresh X a b hbc hb
      · simp [substS, hzx, hzy]
  | mu z q ih =>
    by_cases hzx : z = X
    · subst hzx
      have hzy : ¬ z = Y := hxy
      simp [substS, hzy]
    · by_cases hzy : z = Y
      · subst hzy; simp [substS, hzx]
      · simp [substS, hzx, hzy, ih]
  | imp l r ihl ihr => simp [substS, ihl, ihr]
  | app l r ihl ihr => simp [substS, ihl, ihr]
  | ex y q ih => simp [substS, ih]
  | _ => simp [substS]

/-- the side conditions are needed: with the other variable in a plug the order is visible -/
theorem subst_comm_needs_fresh_plugs :
    substE 0 (.evar 1) (substE 1 (.sym 5) (.evar 0)) ≠ substE 1 (.sym 5) (substE 0 (.evar 1) (.evar 0)) := by decide


/-! ## instantiation is the identity where there is no metavariable -/

/-- instantiation only touches metavariables: on a pattern without metavariables (and hence without pending substitutions)
both implementations return the pattern itself, for every map -/
theorem inst_id_of_concrete (θ : VId → Option Pat) : ∀ p : Pat, concrete p = true → inst θ p = some p := by
  intro p; induction p with
  | imp l r ihl ihr => intro hc; simp [concrete] at hc; simp [inst, ihl hc.1, ihr hc.2]
  | app l r ihl ihr => intro hc; simp [concrete] at hc; simp [inst, ihl hc.1, ihr hc.2]
  | ex x q ih => intro hc; simp [concrete] at hc; simp [inst, ih hc]
  | mu X q ih => intro hc; simp [concrete] at hc; simp [inst, ih hc]
  | evar _ => intro _; simp [inst]
  | svar _ => intro _; simp [inst]
  | sym _ => intro _; simp [inst]
  | _ => intro hc; simp [concrete] at hc

theorem py_inst_id_of_concrete (θ : VId → Option Pat) (p : Pat) (hc : concrete p = true) : Py.inst θ p = p :=
  py_inst_eq_rust θ p p (inst_id_of_concrete θ p hc)

/-- and the Rust text of `instantiate_in_place` leaves such a pattern as it is, whatever the variable and plug lists -/
theorem RShape_of_concrete : ∀ p : Pat, concrete p = true → p.RShape = true := by
  intro p; induction p with
  | imp l r ihl ihr => intro hc; simp [concrete] at hc; simp [RShape, ihl hc.1, ihr hc.2]
  | app l r ihl ihr => intro hc; simp [concrete] at hc; simp [RShape, ihl hc.1, ihr hc.2]
  | ex x q ih => intro hc; simp [concrete] at hc; simp [RShape, ih hc]
  | mu X q ih => intro hc; simp [concrete] at hc; simp [RShape, ih hc]
  | evar _ => intro _; simp [RShape]
  | svar _ => intro _; simp [RShape]
  | sym _ => intro _; simp [RShape]
  | _ => intro hc; simp [concrete] at hc

theorem rust_instantiate_text_id_of_concrete (vars : List VId) (plugs : List Pat) (hlen : vars.length = plugs.length)
    (p : Pat) (hc : concrete p = true) :
    Gen.Rust.instantiate_in_place vars plugs p = some p := by
  rw [rust_instantiate_text_is_the_model vars plugs hlen p (RShape_of_concrete p hc)]; exact inst_id_of_concrete _ p hc


/-! ## exactness for the generator's functions -/

/-- the same exactness facts for the generator's `apply_esubst` / `apply_ssubst` (pattern.py, translated text tied to
`Py.esub`/`Py.ssub` by `python_pattern_operations_are_the_model`) -/
theorem py_esubst_eliminates (x : VId) (plug p : Pat) (hp : plug.eFresh x = true) (hc : concrete p = true) :
    (Py.esub x plug p).eFresh x = true := by
  rw [py_esubst_textbook x plug p hc]; exact substE_eliminates x plug hp p hc

theorem py_ssubst_eliminates (X : VId) (plug p : Pat) (hp : plug.sFresh X = true) (hc : concrete p = true) :
    (Py.ssub X plug p).sFresh X = true := by
  rw [py_ssubst_textbook X plug p hc]; exact substS_eliminates X plug hp p hc

theorem py_esubst_idempotent (x : VId) (plug p : Pat) (hpc : concrete plug = true) (hp : plug.eFresh x = true)
    (hc : concrete p = true) : Py.esub x plug (Py.esub x plug p) = Py.esub x plug p := by
  rw [py_esubst_textbook x plug p hc, py_esubst_textbook x plug _ (substE_concrete x plug hpc p hc)]
  exact substE_idempotent x plug p hpc hp hc

theorem py_ssubst_idempotent (X : VId) (plug p : Pat) (hpc : concrete plug = true) (hp : plug.sFresh X = true)
    (hc : concrete p = true) : Py.ssub X plug (Py.ssub X plug p) = Py.ssub X plug p := by
  rw [py_ssubst_textbook X plug p hc, py_ssubst_textbook X plug _ (substS_concrete X plug hpc p hc)]
  exact substS_idempotent X plug p hpc hp hc

theorem py_esubst_comm (x y : VId) (hxy : x ≠ y) (a b p : Pat) (hac : concrete a = true) (hbc : concrete b = true)
    (ha : a.eFresh y = true) (hb : b.eFresh x = true) (hc : concrete p = true) :
    Py.esub x a (Py.esub y b p) = Py.esub y b (Py.esub x a p) := by
  rw [py_esubst_textbook y b p hc, py_esubst_textbook x a p hc,
      py_esubst_textbook x a _ (substE_concrete y b hbc p hc), py_esubst_textbook y b _ (substE_concrete x a hac p hc)]
  exact substE_comm x y hxy a b hac hbc ha hb p

theorem py_ssubst_comm (X Y : VId) (hxy : X ≠ Y) (a b p : Pat) (hac : concrete a = true) (hbc : concrete b = true)
    (ha : a.sFresh Y = true) (hb : b.sFresh X = true) (hc : concrete p = true) :
    Py.ssub X a (Py.ssub Y b p) = Py.ssub Y b (Py.ssub X a p) := by
  rw [py_ssubst_textbook Y b p hc, py_ssubst_textbook X a p hc,
      py_ssubst_textbook X a _ (substS_concrete Y b hbc p hc), py_ssubst_textbook Y b _ (substS_concrete X a hac p hc)]
  exact substS_comm X Y hxy a b hac hbc ha hb p


end C11
