import Pi2.MM.ConvSugarAttach
import Pi2.Props.C16b
/-!
# C16 — the converter's SPECIFICATION on databases WITH declared notations, as a theorem about every database of the shape

Until here the coherence of `dbOfMDb` on a database with `#Notation` statements was evaluated (kernel) on ONE example
(`C16.spec_notation_example`) and at run time on every generated database (`DB.wf` in the driver).  Here, for EVERY database of the
shape `MM.ConvSpec.FragmentShape` (a predicate on the statements alone, `Pi2/MM/ConvShape.lean`):

* `spec_wf_of_shape_with_notations`: `dbOfMDb` accepts it and the model database is well formed (`DB.wf`, incl. `notOk`): every
  `#Notation` statement finds its one constructor entry, over the same variables, without a body so far, its body is a term
  (`attachAll` succeeds: `ConvSpec.attachAll_spec`), and the table with the bodies satisfies `notOk` (`ConvSpec.notOk_dress`: the order
  clause of `FragmentShape` = the order of the constructor entries gives "earlier notations only"); `wf0` is that of the core
  specification (`ConvCoh.coherence` on `coreOf mdb`), `attach` changes nothing but `Ctor.body`.
* `spec_of_shape_with_notations`: the same with what `dbOfMDb` returns: the core specification of `coreOf mdb` (coherent with every
  statement of `coreOf mdb`: `ConvCoh.Coherent`) with another constructor table, same symbols and variables entry by entry.
* `spec_coherent_with_notations`: the conjuncts of `ConvCoh.Coherent` that still make sense transfer: goal, decoded proof, label
  table, `$f` statements and numbering (`coherentFloats0`; the clause "no bodies" of `coherentFloats` is of course false now), every
  `$a` statement of `coreOf mdb` (`coherentItem`: `DB.assertion` does not read the bodies).
* `translation_of_shaped_notation_database`: if moreover the Metamath verifier accepts the target's proof, `translation_succeeds`,
  `translation_accepted` and `translation_bytes_accepted_by_rust_text` apply: the model translation succeeds, the checker model accepts
  with the journal (images of the axioms, image of the target) — NOTATIONS EXPANDED (`MM.image` reads `DB.notTab`) —, and the bytes
  are accepted by the translated Rust `verify`.  This is a statement about the SPECIFICATION `dbOfMDb` and the model translation; the
  converter TEXT (`vlib/transconv.py` → `Pi2/Gen/MMConv.lean`) is NOT involved: its tie is for databases without `#Notation`
  statements (`MetamathConverter._add_notation` is outside the translated fragment).

**The clause `headsPlain` (a gap of the shape found by this proof, repaired).**  `FragmentShape` used not to say that the head of a
`#Notation` statement is neither `\imp` nor `\app`: `l $a #Notation ( \imp x y ) BODY` passed (the one "constructor axiom" of the head
is `imp-is-pattern`), but `attach` finds no constructor entry (`imp-is-pattern` is `Role.imp`, not `Role.ctor`) and `dbOfMDb` answers
`none`.  The clause `MM.ConvSpec.headsPlain` (no `#Notation` statement for `\imp` / `\app`) is now part of `FragmentShape`
(`headsPlain_of_shape`), and the theorems below need no extra hypothesis; the old witness `dbImpSugar` is outside the shape:
`notation_for_imp_rejected`.
-/
set_option linter.unusedVariables false
namespace C16
open MM PySt EndToEnd MM.ConvSpec

/-- `ConvSpec.Example.db` with a `#Notation` statement for `\imp` -/
def dbImpSugar : MDb := [
  .const ["#Pattern", "|-", "(", ")", "\\imp", "\\app", "c", "#Notation"],
  .var ["x", "y", "z"],
  .float "y-is-pattern" "#Pattern" "y",
  .float "z-is-pattern" "#Pattern" "z",
  .float "x-is-pattern" "#Pattern" "x",
  .ax "imp-is-pattern" [.app "#Pattern" [], .app "\\imp" [.mv "x", .mv "y"]],
  .ax "imp-is-sugar" [.app "#Notation" [], .app "\\imp" [.mv "x", .mv "y"], .app "\\app" [.mv "x", .mv "y"]],
  .ax "app-is-pattern" [.app "#Pattern" [], .app "\\app" [.mv "y", .mv "x"]],
  .ax "c-is-pattern" [.app "#Pattern" [], .app "c" []],
  .ax "proof-rule-prop-1" [.app "|-" [], Example.imp (.mv "x") (Example.imp (.mv "y") (.mv "x"))],
  .ax "proof-rule-prop-2" [.app "|-" [], Example.imp (Example.imp (.mv "x") (Example.imp (.mv "y") (.mv "z")))
    (Example.imp (Example.imp (.mv "x") (.mv "y")) (Example.imp (.mv "x") (.mv "z")))],
  .block [.ess "proof-rule-mp.0" [.app "|-" [], Example.imp (.mv "y") (.mv "x")], .ess "proof-rule-mp.1" [.app "|-" [], .mv "y"],
          .ax "proof-rule-mp" [.app "|-" [], .mv "x"]],
  .prov "goal" [.app "|-" [], Example.imp (.app "c" []) (Example.imp (.app "c" []) (.app "c" []))]
    ["(", "c-is-pattern", "proof-rule-prop-1", ")", "AAB"]]

/-- a `#Notation` statement for `\imp` is OUTSIDE the shape (clause `headsPlain`; without the clause the database passed — the
former finding), and rightly so: the specification rejects the database, while it accepts the database without the statement -/
theorem notation_for_imp_rejected :
    FragmentShape dbImpSugar "goal" = false ∧ (dbOfMDb dbImpSugar "goal").isSome = false ∧
    (dbOfCore (coreOf dbImpSugar) "goal").isSome = true ∧ headsPlain dbImpSugar = false := by decide +kernel

/-- the clause is the only one that fails on `dbImpSugar`: without the `#Notation` statement the database is of the shape -/
theorem notation_for_imp_core_in_shape : FragmentShape (coreOf dbImpSugar) "goal" = true := by decide +kernel

/-- **the clause `headsPlain` of the shape**: no `#Notation` statement of a database of the shape has the head `\imp` or `\app` -/
theorem headsPlain_of_shape (mdb : MDb) (target : String) (h : FragmentShape mdb target = true) : headsPlain mdb = true :=
  headsPlain_of_fragmentShape h

/-- **1'. what `dbOfMDb` returns on a database of the shape**: the core specification `sp0` of the database without its `#Notation`
statements — coherent with every statement of that database — with a constructor table that has the same symbols and variables
entry by entry; the model database is well formed -/
theorem spec_of_shape_with_notations (mdb : MDb) (target : String) (h : FragmentShape mdb target = true) :
    ∃ sp0 db, dbOfCore (coreOf mdb) target = some sp0 ∧ ConvCoh.Coherent (coreOf mdb) target sp0 ∧
      dbOfMDb mdb target = some { sp0 with db := db } ∧
      (∃ f : Ctor → Ctor, (∀ k, (f k).sym = k.sym ∧ (f k).args = k.args) ∧ db = { sp0.db with ctors := sp0.db.ctors.map f }) ∧
      db.wf = true :=
  ConvCoh.spec_wf mdb target h

/-- **1. `dbOfMDb` accepts every database of the shape, and the model database is well formed** (`DB.wf`: `wf0` and, for the declared
notations, `notOk`) -/
theorem spec_wf_of_shape_with_notations (mdb : MDb) (target : String) (h : FragmentShape mdb target = true) :
    ∃ sp, dbOfMDb mdb target = some sp ∧ sp.db.wf = true := by
  obtain ⟨sp0, db, _, _, hsp, _, hwf⟩ := ConvCoh.spec_wf mdb target h
  exact ⟨_, hsp, hwf⟩

/-- `DB.assertion` does not read the bodies -/
theorem assertion_ctors (db : DB) (f : Ctor → Ctor) (hf : ∀ k, (f k).sym = k.sym ∧ (f k).args = k.args) (l : Lbl) :
    ({ db with ctors := db.ctors.map f } : DB).assertion l = db.assertion l := by
  cases l with
  | ctor i =>
    simp only [DB.assertion, List.getElem?_map, Option.map_map]
    congr 1
    funext c
    simp only [Function.comp, (hf c).1, (hf c).2]
    rfl
  | _ => rfl

/-- **3. coherence with the statements, for databases with notations**: of `ConvCoh.Coherent` everything but "no constructor entry has
a body": every `$a` statement of the database without its `#Notation` statements has in the label table an `Lbl` of the right kind
whose assertion in the model database is the statement's own content; `$f` statements and numbering; goal; decoded proof; the label
table is one-to-one and names `$f` / `$a` statements only; the target is no `$f` label. -/
theorem spec_coherent_with_notations (mdb : MDb) (target : String) (h : FragmentShape mdb target = true) :
    ∃ sp, dbOfMDb mdb target = some sp ∧ sp.db.wf = true ∧
      (∀ st ∈ (coreOf mdb).filter ConvTie.isAxItem, ConvTie.coherentItem sp st = true) ∧
      ConvTie.coherentFloats0 sp (coreOf mdb) = true ∧ ConvTie.coherentGoal sp (coreOf mdb) = true ∧
      ConvTie.coherentProof sp (coreOf mdb) = true ∧ ConvTie.tableOK sp (coreOf mdb) = true ∧
      target ∉ (ConvTie.floatPairs (coreOf mdb)).map (·.1) := by
  obtain ⟨sp0, db, _, hcoh, hsp, ⟨f, hf, hdb⟩, hwf⟩ := ConvCoh.spec_wf mdb target h
  obtain ⟨hitems, hfl, hgoal, hproof, htab, htgt⟩ := hcoh
  refine ⟨_, hsp, hwf, ?_, ?_, hgoal, hproof, htab, htgt⟩
  · intro st hst
    have := hitems st hst
    subst hdb
    simp only [ConvTie.coherentItem, assertion_ctors sp0.db f hf] at this ⊢
    exact this
  · simp only [ConvTie.coherentFloats, Bool.and_eq_true] at hfl
    subst hdb
    exact hfl.1

/-- **2. the specification-level end-to-end statement for databases with notations.**  A database of the shape whose target's proof
the Metamath verifier accepts (on the model database of the specification): the model translation succeeds with every claim
discharged; the checker model accepts its history with the journal (images of the axioms, image of the target), notations expanded;
the bytes the serializer writes are accepted by the model `verifyBytes` and by `verify` of `lib.rs` as translated, and the image of
the target is valid in every model of the images of the axioms.  (About `dbOfMDb`, NOT about the converter's text.) -/
theorem translation_of_shaped_notation_database (cfg : Cfg) (mdb : MDb) (target : String) (h : FragmentShape mdb target = true) :
    ∃ sp, dbOfMDb mdb target = some sp ∧ sp.db.wf = true ∧
      (mmVerify sp.db sp.goal sp.labels sp.steps = true →
        (∃ n s calls, translateFull cfg n sp.db sp.goal sp.labels sp.steps = some (some (s, calls)) ∧ s.claims = []) ∧
        (∃ n s calls g c p,
          translateFull cfg n sp.db sp.goal sp.labels sp.steps = some (some (s, calls)) ∧
          PySt.trackAll n (PySt.init [image sp.db sp.goal]) calls ([], [], []) = some (some (s, (g, c, p))) ∧
          writeAll n (PySt.init [image sp.db sp.goal]) calls ([], [], []) = some (some (s, (encode g, encode c, encode p))) ∧
          (CanonCalls [] calls →
            verify g c p = some (sp.db.axiomImages.map NPat.expand, [(image sp.db sp.goal).expand]) ∧
            verifyBytes (encode g) (encode c) (encode p)
              = some (sp.db.axiomImages.map NPat.expand, [(image sp.db sp.goal).expand]) ∧
            Gen.Rust.execTranslated = true ∧
            (∀ r0 : RustExec.RSt, (Gen.Rust.verify (encode g) (encode c) (encode p) r0).isSome = true) ∧
            ∀ 𝔐 : Model, (∀ a ∈ sp.db.axiomImages, ValidM 𝔐 a.expand) → ValidM 𝔐 (image sp.db sp.goal).expand))) := by
  obtain ⟨sp, hsp, hwf⟩ := spec_wf_of_shape_with_notations mdb target h
  refine ⟨sp, hsp, hwf, fun hv => ⟨translation_succeeds cfg sp.db sp.goal sp.labels sp.steps hwf hv, ?_⟩⟩
  obtain ⟨n, s, calls, g, c, p, hex, hT, hacc⟩ := translation_accepted cfg sp.db sp.goal sp.labels sp.steps hwf hv
  refine ⟨n, s, calls, g, c, p, hex, hT, writeAll_of_trackAll_init n calls _ s g c p hT, fun hcanon => ?_⟩
  have hB := bytesAccepted_of_verify hT (hacc hcanon)
  exact ⟨hacc hcanon, hB.2.2.1, hB.2.2.2.1, hB.2.2.2.2, fun 𝔐 hΓ => sound_of_translationBytesAccepted hB 𝔐 hΓ⟩

/-! ## 4. non-vacuity: `MM.ConvSpec.Example.dbN` (two notations, the second over the first) -/

theorem dbN_headsPlain : headsPlain Example.dbN = true := headsPlain_of_shape _ _ Example.dbN_in_fragment

/-- the theorem on the example (by the general theorem, not by evaluation of `dbOfMDb`) -/
theorem spec_wf_notation_example : ∃ sp, dbOfMDb Example.dbN "goal" = some sp ∧ sp.db.wf = true :=
  spec_wf_of_shape_with_notations _ _ Example.dbN_in_fragment

theorem spec_coherent_notation_example :
    ∃ sp, dbOfMDb Example.dbN "goal" = some sp ∧ sp.db.wf = true ∧
      (∀ st ∈ (coreOf Example.dbN).filter ConvTie.isAxItem, ConvTie.coherentItem sp st = true) ∧
      ConvTie.coherentFloats0 sp (coreOf Example.dbN) = true ∧ ConvTie.coherentGoal sp (coreOf Example.dbN) = true ∧
      ConvTie.coherentProof sp (coreOf Example.dbN) = true ∧ ConvTie.tableOK sp (coreOf Example.dbN) = true ∧
      "goal" ∉ (ConvTie.floatPairs (coreOf Example.dbN)).map (·.1) :=
  spec_coherent_with_notations _ _ Example.dbN_in_fragment

/-- the end-to-end statement on the example: its hypothesis `mmVerify … = true` holds (`Example.dbN_spec`) -/
theorem translation_notation_example (cfg : Cfg) :
    ∃ sp, dbOfMDb Example.dbN "goal" = some sp ∧ sp.db.wf = true ∧ mmVerify sp.db sp.goal sp.labels sp.steps = true ∧
      (∃ n s calls, translateFull cfg n sp.db sp.goal sp.labels sp.steps = some (some (s, calls)) ∧ s.claims = []) ∧
      ∃ n s calls g c p,
        translateFull cfg n sp.db sp.goal sp.labels sp.steps = some (some (s, calls)) ∧
        PySt.trackAll n (PySt.init [image sp.db sp.goal]) calls ([], [], []) = some (some (s, (g, c, p))) ∧
        writeAll n (PySt.init [image sp.db sp.goal]) calls ([], [], []) = some (some (s, (encode g, encode c, encode p))) ∧
        (CanonCalls [] calls →
          verify g c p = some (sp.db.axiomImages.map NPat.expand, [(image sp.db sp.goal).expand]) ∧
          verifyBytes (encode g) (encode c) (encode p)
            = some (sp.db.axiomImages.map NPat.expand, [(image sp.db sp.goal).expand]) ∧
          Gen.Rust.execTranslated = true ∧
          (∀ r0 : RustExec.RSt, (Gen.Rust.verify (encode g) (encode c) (encode p) r0).isSome = true) ∧
          ∀ 𝔐 : Model, (∀ a ∈ sp.db.axiomImages, ValidM 𝔐 a.expand) → ValidM 𝔐 (image sp.db sp.goal).expand) := by
  obtain ⟨sp, hsp, hwf, himp⟩ := translation_of_shaped_notation_database cfg _ _ Example.dbN_in_fragment
  have hv : mmVerify sp.db sp.goal sp.labels sp.steps = true := by
    have := Example.dbN_spec
    rw [hsp] at this
    simp only [Bool.and_eq_true] at this
    exact this.1.1.2
  exact ⟨sp, hsp, hwf, hv, (himp hv).1, (himp hv).2⟩

end C16

#print axioms C16.notation_for_imp_rejected
#print axioms C16.headsPlain_of_shape
#print axioms C16.spec_of_shape_with_notations
#print axioms C16.spec_wf_of_shape_with_notations
#print axioms C16.spec_coherent_with_notations
#print axioms C16.translation_of_shaped_notation_database
#print axioms C16.spec_wf_notation_example
#print axioms C16.spec_coherent_notation_example
#print axioms C16.translation_notation_example
