import Pi2.DeserializeThm
import Pi2.Props.C05
import Pi2.SerTie
import Pi2.DeserTie
/-!
# C14 — binary round trip: deserialising a serialised proof replays it

Codec level: `decode ∘ encode = id` on instruction lists, the byte string determines the instruction
list, truncated and unknown input is an error.  Interpreter level: replaying the instructions that a
call history emitted (`PySt.replay` = the dispatch of `deserialize.py`, tree after fix F8) on the
state the history started from reproduces, whenever it returns, the final state of the history up
to notation (`StEqX`: equal after expansion — a `Load` replays the memory entry, which is `==` to the
loaded term but may be written with different notation).
-/
set_option linter.unusedVariables false
namespace C14
open PySt

theorem decode_encode (is : List Instr) : decode (encode is) = some is := _root_.decode_encode is

theorem decode_unique {bs : List Nat} {is : List Instr} (h : decode bs = some is) : bs = encode is :=
  decode_sound h

theorem truncated_is_error (n : Nat) (s : PySt) (pre : List Instr) (i : Instr) (cut suf : List Nat)
    (h : encode1 i = cut ++ suf) (hcut : cut ≠ []) (hsuf : suf ≠ []) :
    PySt.deserialize n s (encode pre ++ cut) = some none :=
  deserialize_undecodable n s _ (C05.truncated_rejected pre i cut suf h hcut hsuf)

theorem unknown_is_error (n : Nat) (s : PySt) (pre : List Instr) (b : Nat) (rest : List Nat) (h : b ∉ validOps) :
    PySt.deserialize n s (encode pre ++ b :: rest) = some none :=
  deserialize_undecodable n s _ (C05.unknown_opcode_rejected pre b rest h)

/-- the deserialiser makes the call that was serialised (for `load t` it loads the memory entry the
emitted index points at, which is `==` to `t`) -/
theorem deserialize_replays_call (n : Nat) (s s' : PySt) (c : Call) (i : Instr)
    (hT : CanonTab s.symtab) (hsym : ∀ nm, c = .symbol nm → nm ≤ s.symtab.length)
    (hc1 : c ≠ .intoClaim) (hc2 : c ≠ .intoProof)
    (he : PySt.emit1 n s c = some (some [i])) (ht : PySt.track1 n s c = some (some s')) :
    ∃ c', PySt.callOfInstr s i = some c' ∧
      (c' = c ∨ ∃ t t', c = .load t ∧ c' = .load t' ∧ PySt.teqF n t' t = some true) :=
  callOfInstr_emit n s s' c i hT hsym hc1 hc2 he ht

/-- **round trip for a phase**: the instructions a history of calls wrote to the stream of its phase,
replayed on the starting state, end — whenever the replay returns — in the same stack, memory and
claim state up to notation -/
theorem deserialize_replays_history (n k : Nat) (cs : List Call) (s s' : PySt)
    (out out' : List Instr × List Instr × List Instr)
    (hS : ShapeSt s) (hT : CanonTab s.symtab) (hok : CallsOK n s cs)
    (h : PySt.trackAll n s cs out = some (some (s', out'))) :
    ∃ is, out' = addOut s.phase out is ∧
      ∀ r, PySt.replay k s is = some r → ∃ t', r = some t' ∧ StEqX s' t' :=
  replay_emit_self n k cs s s' out out' hS hT hok h

/-- the opcode tables of serializer (instruction.py) and checker (lib.rs) are the model's -/
theorem opcodes_tied : Gen.rustOpcodes = C05.opcodeTable ∧ Gen.pyOpcodes = C05.opcodeTable := C05.opcodes_tied

/-- what `SerializingInterpreter` writes, as written in `serializing_interpreter.py` (translated on every run), is the
byte encoding of what the model's `emit1` emits, call by call -/
theorem serializer_bytes_tied (n : Nat) (s : PySt) (c : Call) (is : List Instr)
    (h : PySt.emit1 n s c = some (some is)) :
    Gen.Ser.translated = true ∧ ∃ memIdx, encode is = SerTie.bytesOfCall s memIdx c :=
  ⟨SerTie.translated, SerTie.emit_is_serializer n s c is h⟩


/-- **the deserialiser as written**: `deserialize_instructions` of `deserialize.py` — translated branch by branch, statement
by statement on every run (`Pi2/Gen/Deserializer.lean`: operand bytes read, the interpreter method called, the stack /
memory positions its arguments are taken from, the key order of `Instantiate`, the phase dispatch of `Publish`) — run
against the tracker is the model `PySt.deserialize` (`decode`, then `callOfInstr` + `track1` per instruction), on every
decodable stream whose `Instantiate` keys are pairwise different (what a `dict` serialises to) and on which the
deserialiser's own claim pre-check in the proof phase (`claims[0].pattern != theorem.conclusion`, the same `==` with
swapped operands) agrees with the tracker's -/
theorem deserializer_text_is_the_model (n : Nat) (s : PySt) (bs : List Nat) (is : List Instr) (hd : decode bs = some is)
    (hk : DeserTie.NodupKeys is) (hp : DeserTie.PrecheckAlong n s is) :
    Gen.Deser.translated = true ∧ Gen.Deser.deserialize n s bs = PySt.deserialize n s bs :=
  ⟨DeserTie.translated, DeserTie.deserialize_tie n s bs is hd hk hp⟩

/-- in the gamma and claim phases there is no pre-check -/
theorem deserializer_text_is_the_model_gamma_claim (n : Nat) (s : PySt) (bs : List Nat) (is : List Instr)
    (hd : decode bs = some is) (hk : DeserTie.NodupKeys is) (hph : s.phase ≠ .proof) :
    Gen.Deser.deserialize n s bs = PySt.deserialize n s bs :=
  DeserTie.deserialize_tie_gamma_claim n s bs is hd hk hph

/-- an undecodable stream is an error in the code as written, too (never skipped) -/
theorem deserializer_text_undecodable (n : Nat) (s : PySt) (bs : List Nat) (hd : decode bs = none) :
    PySt.deserialize n s bs = some none ∧
    (Gen.Deser.deserialize n s bs = some none ∨ Gen.Deser.deserialize n s bs = none) :=
  DeserTie.deserialize_undecodable n s bs hd

/-- the `NodupKeys` hypothesis is needed: on a hand-crafted stream that repeats an `Instantiate` key, Python's `dict`
merges the two entries and takes one plug, the model takes two (the serialiser never writes such a stream) -/
theorem deserializer_duplicate_keys_outside_model :
    ((Gen.Deser.deserialize 5 (PySt.init []) DeserTie.dupKeys).bind id).map (·.stack.length) = some 2 ∧
    ((PySt.deserialize 5 (PySt.init []) DeserTie.dupKeys).bind id).map (·.stack.length) = some 1 :=
  ⟨DeserTie.model_differs_on_duplicate_keys.1, DeserTie.model_differs_on_duplicate_keys.2.1⟩

end C14
