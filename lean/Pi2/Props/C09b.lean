import Pi2.Props.C09
import Pi2.TautTotal
/-!
# C09, unconditionally — the model of the tautology prover terminates

The completeness statements of `Pi2/Props/C09.lean` (`prover_returns_proof_complete`, `prover_returns_proof_iff`, the
completeness halves of `prover_text_is_the_model`) carry the hypothesis `hm : proveTautology F f = some x` ("where the model
answers").  `Pi2/TautTotal.lean` discharges it: the model answers on EVERY propositional pattern from an explicit computable
fuel `bound f` on (`bound f ≤ closedBound f = (M + 1) * (M + 2)`, `M = 2 ^ 3 ^ (size f + 2)`), because

* the recursion of `to_cnf` is bounded by `weight` (already in `Pi2.TautThm`), and no stage hits an assertion;
* the two nested `for` loops of `resolution_algorithm` over the growing list TERMINATE: a resolvent is appended only when it
  is not a key of `hint` (the keys are exactly the members of the list), every member is a `frozenset` of literals of the
  initial clauses, and there are finitely many of those (`Res.loop_terminates`).

So the first sentence of C09 holds with no hypothesis that anything answers: `prover_decides_total` (the verdict, model),
`prover_text_decides_total` (the verdict, the prover as written, data slice), `prover_returns_proof_iff_total` (the generated
prover WITH proof objects).
-/
namespace C09
open Res

/-! ## fuel: monotonicity and sufficiency -/

/-- more fuel never changes an answer of the model (nor of its saturation loop, nor of `Res.start`) -/
theorem model_fuel_monotone :
    (∀ (k k' : Nat), k ≤ k' → ∀ (c r : CF), CF.toCnfF k c = some r → CF.toCnfF k' c = some r) ∧
    (∀ (k k' : Nat), k ≤ k' → ∀ (l : List (List Int)) (i j : Nat) (b : Bool),
      Res.loop k l i j = some b → Res.loop k' l i j = some b) ∧
    (∀ (k k' : Nat), k ≤ k' → ∀ (cls : List (List Int)) (x : Option Bool),
      Res.start k cls = some x → Res.start k' cls = some x) ∧
    (∀ (k k' : Nat), k ≤ k' → ∀ (f : Form) (x : Option Bool),
      proveTautology k f = some x → proveTautology k' f = some x) :=
  ⟨fun k k' h c r => TautTie.toCnfF_mono_le k k' h c r, fun k k' h l i j b => Res.loop_mono_le k k' h l i j b,
    fun k k' h cls x => Res.start_mono_le k k' h cls x, fun k k' h f x => proveTautology_mono_le k k' h f x⟩

/-- the saturation loop terminates: on every duplicate-free list of canonical clauses (strictly increasing lists of literals —
`frozenset`s) `Res.loopFuel l = (M + 1) * (M + 2)` steps suffice, `M = 2 ^ (number of distinct literals of l)` -/
theorem saturation_terminates (l : List (List Int)) (hnd : l.Nodup) (hs : ∀ c ∈ l, c.Pairwise (· < ·)) (fuel : Nat)
    (hf : Res.loopFuel l ≤ fuel) : ∃ b, Res.loop fuel l 0 0 = some b :=
  Res.loop_terminates l hnd hs fuel hf

/-- `start_resolution_algorithm` (the model) answers on EVERY clause list -/
theorem resolution_total (cls : List (List Int)) (fuel : Nat) (hf : Res.startFuel cls ≤ fuel) :
    ∃ x, Res.start fuel cls = some x :=
  Res.start_total cls fuel hf

/-- **the model is total**, in the form asked for -/
theorem proveTautology_total : ∀ f : Form, ∃ F, ∀ G, G ≥ F → ∃ x, proveTautology G f = some x :=
  _root_.proveTautology_total

/-- …with the explicit computable bound `bound f`, which is below the closed form `closedBound f` -/
theorem prover_total (f : Form) :
    (∀ G, bound f ≤ G → ∃ x, proveTautology G f = some x) ∧ bound f ≤ closedBound f ∧
      closedBound f = (2 ^ (3 ^ (f.size + 2)) + 1) * (2 ^ (3 ^ (f.size + 2)) + 2) :=
  ⟨proveTautology_total_bound f, bound_le_closed f, rfl⟩

/-! ## the verdict, unconditionally -/

/-- from `bound f` fuel on, the model's verdict is `some true` EXACTLY for tautologies, `some false` EXACTLY for
unsatisfiable patterns, `none` EXACTLY for contingent ones — and it is one of the three -/
theorem prover_decides_bound (f : Form) (G : Nat) (hG : bound f ≤ G) :
    (proveTautology G f = some (some true) ↔ ∀ v, f.eval v = true) ∧
    (proveTautology G f = some (some false) ↔ ∀ v, f.eval v = false) ∧
    (proveTautology G f = some none ↔ (∃ v, f.eval v = true) ∧ (∃ v, f.eval v = false)) := by
  obtain ⟨x, hx⟩ := proveTautology_total_bound f G hG
  obtain ⟨d1, d2, d3⟩ := _root_.prover_decides G f
  have v0 : Nat → Bool := fun _ => true
  refine ⟨⟨d1, fun ht => ?_⟩, ⟨d2, fun hf => ?_⟩, ⟨d3, fun hc => ?_⟩⟩
  · cases x with
    | none =>
      obtain ⟨_, v, hv⟩ := d3 hx
      rw [ht v] at hv; cases hv
    | some b =>
      cases b with
      | true => exact hx
      | false => have := d2 hx v0; rw [ht v0] at this; cases this
  · cases x with
    | none =>
      obtain ⟨⟨v, hv⟩, _⟩ := d3 hx
      rw [hf v] at hv; cases hv
    | some b =>
      cases b with
      | false => exact hx
      | true => have := d1 hx v0; rw [hf v0] at this; cases this
  · obtain ⟨⟨v1, h1⟩, ⟨v2, h2⟩⟩ := hc
    cases x with
    | none => exact hx
    | some b =>
      cases b with
      | true => have := d1 hx v2; rw [h2] at this; cases this
      | false => have := d2 hx v1; rw [h1] at this; cases this

/-- **C09, first sentence, for the model, with no hypothesis that it answers** -/
theorem prover_decides_total (f : Form) : ∃ F, ∀ G, F ≤ G →
    (proveTautology G f = some (some true) ↔ ∀ v, f.eval v = true) ∧
    (proveTautology G f = some (some false) ↔ ∀ v, f.eval v = false) ∧
    (proveTautology G f = some none ↔ (∃ v, f.eval v = true) ∧ (∃ v, f.eval v = false)) :=
  ⟨bound f, prover_decides_bound f⟩

/-- the verdict as a total function of the pattern (`verdict f` = the model's answer at `bound f` fuel) is the answer at every
larger fuel, and classifies the pattern -/
theorem verdict_spec (f : Form) :
    (∀ G, bound f ≤ G → proveTautology G f = some (verdict f)) ∧
    (verdict f = some true ↔ ∀ v, f.eval v = true) ∧
    (verdict f = some false ↔ ∀ v, f.eval v = false) ∧
    (verdict f = none ↔ (∃ v, f.eval v = true) ∧ (∃ v, f.eval v = false)) := by
  have e := proveTautology_eq_verdict f (bound f) (Nat.le_refl _)
  obtain ⟨d1, d2, d3⟩ := prover_decides_bound f (bound f) (Nat.le_refl _)
  rw [e] at d1 d2 d3
  refine ⟨proveTautology_eq_verdict f, ?_, ?_, ?_⟩
  · rw [← d1]; simp
  · rw [← d2]; simp
  · rw [← d3]; simp

open Gen.PyTaut in
/-- **…for the prover AS WRITTEN (data slice of `tautology.py`)**: for every pattern there is a fuel from which
`prove_tautology` returns `(True, _)` EXACTLY for tautologies, `(False, _)` EXACTLY for unsatisfiable patterns and `None`
EXACTLY for contingent ones; in particular none of its assertions fails and its loops end -/
theorem prover_text_decides_total (f : Form) : ∃ F, ∀ G, F ≤ G →
    (prove_tautology G f = some (some (true, ())) ↔ ∀ v, f.eval v = true) ∧
    (prove_tautology G f = some (some (false, ())) ↔ ∀ v, f.eval v = false) ∧
    (prove_tautology G f = some none ↔ (∃ v, f.eval v = true) ∧ (∃ v, f.eval v = false)) := by
  obtain ⟨x, hx⟩ := proveTautology_total_bound f (bound f) (Nat.le_refl _)
  obtain ⟨F', hF'⟩ := TautTie.prove_tautology_complete (bound f) f x hx
  obtain ⟨m1, m2, m3⟩ := prover_decides_bound f (bound f) (Nat.le_refl _)
  refine ⟨F', fun G hG => ?_⟩
  obtain ⟨s1, s2, s3⟩ := prover_text_decides G f
  have hc := hF' G hG
  refine ⟨⟨s1 (), fun ht => ?_⟩, ⟨s2 (), fun hf => ?_⟩, ⟨s3, fun hcg => ?_⟩⟩
  · have := m1.mpr ht
    rw [hx] at this; cases this
    simpa using hc
  · have := m2.mpr hf
    rw [hx] at this; cases this
    simpa using hc
  · have := m3.mpr hcg
    rw [hx] at this; cases this
    simpa using hc

/-! ## the generated prover with proof objects, unconditionally -/

open StageThm StageSup ClauseThm in
/-- `prover_returns_proof_complete` with its hypothesis discharged: for every pattern there is a fuel from which the generated
prover with proof objects returns the verdict of the pattern — with a proof tree that PROVES literally the pattern / its
negation; none of its assertions and none of its proof constructions fails, and its loops end -/
theorem prover_returns_proof_complete_total (f : Form) : ∃ F', ∀ G, F' ≤ G →
    match verdict f with
    | some true => ∃ th, Gen.Stage.prove_tautology algGS ptcG bpfhG G f = some (some (true, th)) ∧ Proves th (toPat f)
    | some false => ∃ th, Gen.Stage.prove_tautology algGS ptcG bpfhG G f = some (some (false, th)) ∧
        Proves th (Lem.negP (toPat f))
    | none => Gen.Stage.prove_tautology algGS ptcG bpfhG G f = some none :=
  prover_returns_proof_complete (bound f) f (verdict f) (proveTautology_eq_verdict f (bound f) (Nat.le_refl _))

open StageThm StageSup ClauseThm in
/-- **the first sentence of C09 for the GENERATED prover WITH PROOF OBJECTS, with no hypothesis that anything answers.**
For every propositional pattern there is a fuel from which: the generated `prove_tautology` over proof trees returns
`(True, th)` with `th` PROVING literally the pattern EXACTLY when the pattern is a tautology, `(False, th)` with `th` PROVING
literally its negation EXACTLY when it is unsatisfiable, and `None` EXACTLY when it is contingent -/
theorem prover_returns_proof_iff_total (f : Form) : ∃ F', ∀ G, F' ≤ G →
    ((∀ v, f.eval v = true) ↔
      ∃ th, Gen.Stage.prove_tautology algGS ptcG bpfhG G f = some (some (true, th)) ∧ Proves th (toPat f)) ∧
    ((∀ v, f.eval v = false) ↔
      ∃ th, Gen.Stage.prove_tautology algGS ptcG bpfhG G f = some (some (false, th)) ∧ Proves th (Lem.negP (toPat f))) ∧
    (((∃ v, f.eval v = true) ∧ (∃ v, f.eval v = false)) ↔
      Gen.Stage.prove_tautology algGS ptcG bpfhG G f = some none) :=
  prover_returns_proof_iff (bound f) f (verdict f) (proveTautology_eq_verdict f (bound f) (Nat.le_refl _))

/-! ## non-vacuity and tightness: the fuel matters below a small number and not above it -/

namespace Ex
open Form

/-- `p → p` -/
def f1 : Form := imp (var 0) (var 0)
/-- `p → q` -/
def f2 : Form := imp (var 0) (var 1)
/-- Peirce's law -/
def f3 : Form := imp (imp (imp (var 0) (var 1)) (var 0)) (var 0)
/-- `¬(p → p)` -/
def f5 : Form := neg (imp (var 0) (var 0))
/-- `(p → q) → (q → r) → (r → p)`: contingent, the saturation runs to the end of the grown list -/
def f6 : Form := imp (imp (var 0) (var 1)) (imp (imp (var 1) (var 2)) (imp (var 2) (var 0)))

example : proveTautology 1 f1 = none ∧ proveTautology 2 f1 = some (some true) := by decide
example : proveTautology 3 f2 = none ∧ proveTautology 4 f2 = some none := by decide
example : proveTautology 4 f3 = none ∧ proveTautology 5 f3 = some (some true) := by decide
example : proveTautology 1 f5 = none ∧ proveTautology 2 f5 = some (some false) := by decide
example : proveTautology 15 f6 = none ∧ proveTautology 16 f6 = some none := by decide

/-- hence (monotonicity) at EVERY fuel `≥ 2` / `≥ 4` / `≥ 5` / `≥ 16` the verdict is the one above: the thresholds are sharp -/
theorem thresholds :
    (∀ G, 2 ≤ G → proveTautology G f1 = some (some true)) ∧ proveTautology 1 f1 = none ∧
    (∀ G, 4 ≤ G → proveTautology G f2 = some none) ∧ proveTautology 3 f2 = none ∧
    (∀ G, 5 ≤ G → proveTautology G f3 = some (some true)) ∧ proveTautology 4 f3 = none ∧
    (∀ G, 2 ≤ G → proveTautology G f5 = some (some false)) ∧ proveTautology 1 f5 = none ∧
    (∀ G, 16 ≤ G → proveTautology G f6 = some none) ∧ proveTautology 15 f6 = none :=
  ⟨fun G h => proveTautology_mono_le 2 G h _ _ (by decide), by decide,
    fun G h => proveTautology_mono_le 4 G h _ _ (by decide), by decide,
    fun G h => proveTautology_mono_le 5 G h _ _ (by decide), by decide,
    fun G h => proveTautology_mono_le 2 G h _ _ (by decide), by decide,
    fun G h => proveTautology_mono_le 16 G h _ _ (by decide), by decide⟩

/-- the computable bound is above the sharp thresholds (it is crude) and the verdicts are the expected ones -/
example : bound f1 = 30 ∧ bound f2 = 30 ∧ bound f5 = 6 := by decide
example : verdict f1 = some true ∧ verdict f2 = none ∧ verdict f5 = some false := by decide

end Ex

#print axioms model_fuel_monotone
#print axioms saturation_terminates
#print axioms resolution_total
#print axioms proveTautology_total
#print axioms prover_total
#print axioms prover_decides_bound
#print axioms prover_decides_total
#print axioms verdict_spec
#print axioms prover_text_decides_total
#print axioms prover_returns_proof_complete_total
#print axioms prover_returns_proof_iff_total
#print axioms Ex.thresholds

end C09
