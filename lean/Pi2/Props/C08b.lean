import Pi2.Props.C08
import Pi2.Props.C02
import Pi2.ProofTie
import Pi2.ComposeTie
/-!
# C08 / C03 / C02 — the proof generator as written is the model

`Pi2/Gen/PyProof.lean` is regenerated on every run from `proof.py` (`ProofThunk`, `ProofExp`: the rule
constructors, `load_axiom`, `publish_proof`, the three phases, `execute_full`, `serialize`), `interpreter.py`
(`Interpreter.pattern`, the phase changes), `interpreter_transformer.py` and `optimizing_interpreters.py`
(`vlib/transproof.py`: statement by statement).  `Pi2/ProofTie.lean` ties the generated functions to the
hand-written model that C02, C03 and C08 are stated about — `patternF`, `concF`, `runBasicF`, `runF`,
`executeFull` of `Pi2/Proof.lean`.  The interpreter the generated code runs on is the model's tracker as
an object (`ProofTie.callI`: a method = `track1` on the `Call`, the value returned = the new top of the
stack; that the `StatefulInterpreter` methods as written are exactly this is `C04.tracker_text_is_the_model`),
plain (`trackerK`) or under the generated `MemoizingInterpreter` (`memoK`).

The model spends fuel per list element where Python has a loop, so each tie is a pair of refinements:
what the model answers at fuel `n` the generated code answers at every fuel `N ≥ n`, and what the
generated code answers the model answers at some fuel.  (A separate module because `ProofTie` needs the
fuel-monotonicity lemmas of `Pi2.MM.Mono`.)

**Composition** (`Pi2/ComposeTie.lean`, the `*_on_stateful_text_*` theorems below): the same generated proof
generator running on the *generated* `StatefulInterpreter` (`ComposeTie.statefulI`: the methods of
`Pi2/Gen/PyInterp.lean` applied to the arguments they are given) instead of on `callI`.  The calling convention
that `track1` builds in — every method receives the terms that are on top of the stack — is a theorem about the
generated proof generator (`calling_convention_of_the_proof_text`), so each call of a translated method is the
`track1` step preceded by the reflexive comparisons `t == t` of the entries it consumes; what a run returns on
the one object it returns on the other (to the tracker: unconditionally; from the tracker: given the fuel for
those comparisons — `ComposeTie.Refl`, `SubRefl`, `ConcsReflM`, `ModuleRefl`).
-/
namespace C08
open PySt PyI Gen.PyProof ProofTie

/-- every function in scope is covered by the translator, and the interface the generated code is written
against is the list of `@abstractmethod`s of `class Interpreter` -/
theorem proof_text_translated : Gen.PyProof.translated = true ∧ Gen.PyProof.abstractMethods = Interp.methods :=
  ⟨ProofTie.translated, ProofTie.interface_eq⟩

/-- **`Interpreter.pattern` as written is `patternF`**, on the plain tracker: same calls in the same order,
same exceptions; the value returned is the new top of the stack -/
theorem pattern_text_is_the_model (N : Nat) (s : PySt) (p : NPat) (acc : List Call) :
    (∀ n r, n ≤ N → patternF {} n s p acc = some r →
      (trackerK N N).pattern (s, acc) p = some (r.map fun σ' => (σ', InterpTie.topPat σ'.1))) ∧
    (∀ g, (trackerK N N).pattern (s, acc) p = some g →
      ∃ m r, patternF {} m s p acc = some r ∧ g = r.map fun σ' => (σ', InterpTie.topPat σ'.1)) :=
  pattern_plain N s p acc

/-- **`MemoizingInterpreter.pattern` as written is `patternF` with a suggestion set**: load if memoised,
else build and save if suggested -/
theorem memo_pattern_text_is_the_model (N : Nat) (S : List NPat) (s : PySt) (p : NPat) (acc : List Call) :
    (∀ n r, n ≤ N → patternF { memo := some S } n s p acc = some r →
      (memoK N N S).pattern (embM (s, acc)) p = some (r.map fun σ' => (embM σ', InterpTie.topPat σ'.1))) ∧
    (∀ g, (memoK N N S).pattern (embM (s, acc)) p = some g →
      ∃ m r, patternF { memo := some S } m s p acc = some r ∧
        g = r.map fun σ' => (embM σ', InterpTie.topPat σ'.1)) :=
  pattern_memo N S s p acc

/-- **the conclusions the rule constructors advertise are `concF`** (`build`: the generated constructors
applied along the proof expression; an exception while building is `concF`'s `some none`) -/
theorem conclusions_text_is_the_model (ax : List NPat) (N : Nat) (pf : Pf) :
    (∀ n r, n ≤ N → Pf.concF ax n pf = some r →
      (build (τ := ProofTie.St) N ax pf).map (Option.map ProofThunk.conc) = some r) ∧
    (∀ t : ProofThunk ProofTie.St, build N ax pf = some (some t) → ∃ m, Pf.concF ax m pf = some (some t.conc)) :=
  ⟨fun n r hn h => conc_complete ax n pf r h N hn, fun t ht => conc_sound ax N pf t ht⟩

/-- **a proof expression as written runs as `runF`**, on the plain tracker and through the memoising
transformer: same state, same calls, same conclusion (`ProofThunk.__call__` with its conclusion check) -/
theorem proof_text_is_the_model (N : Nat) (ax : List NPat) (s : PySt) (pf : Pf) (acc : List Call) :
    ((∀ n s' a' c, n ≤ N → Pf.runF {} ax n s pf acc = some (some (s', a', c)) →
        ∃ t : ProofThunk ProofTie.St, build N ax pf = some (some t) ∧
          ProofThunk.__call__ N t (trackerK N N) (s, acc) = some (some ((s', a'), ⟨c⟩))) ∧
      (∀ (t : ProofThunk ProofTie.St) σ' pr, build N ax pf = some (some t) →
        ProofThunk.__call__ N t (trackerK N N) (s, acc) = some (some (σ', pr)) →
        ∃ m, Pf.runF {} ax m s pf acc = some (some (σ'.1, σ'.2, pr.conclusion)))) ∧
    (∀ S : List NPat,
      (∀ n s' a' c, n ≤ N → Pf.runF { memo := some S } ax n s pf acc = some (some (s', a', c)) →
        ∃ t : ProofThunk (TrSt ProofTie.St), build N ax pf = some (some t) ∧
          ProofThunk.__call__ N t (memoK N N S) (embM (s, acc)) = some (some (embM (s', a'), ⟨c⟩))) ∧
      (∀ (t : ProofThunk (TrSt ProofTie.St)) τ' pr, build N ax pf = some (some t) →
        ProofThunk.__call__ N t (memoK N N S) (embM (s, acc)) = some (some (τ', pr)) →
        ∃ m s' a', Pf.runF { memo := some S } ax m s pf acc = some (some (s', a', pr.conclusion)) ∧
          τ' = embM (s', a'))) :=
  ⟨run_plain N ax s pf acc, fun S => run_memo N S ax s pf acc⟩

/-- **a proof expression as written runs on `BasicInterpreter` as `runBasicF`** — for dicts with distinct
keys; the direction model → text needs shaped plugs (`basic_text_differs_on_unshaped_plugs`) and the
recursion depth to walk them -/
theorem basic_text_is_the_model (ax : List NPat) (N k : Nat) (pf : Pf) (t : ProofThunk PySt)
    (ht : build N ax pf = some (some t)) (hk : KeysNodup pf) :
    (∀ s s' pr, ProofThunk.__call__ N t (basicK N k) s = some (some (s', pr)) →
      s' = s ∧ ∃ m, Pf.runBasicF ax m pf = some (some pr.conclusion)) ∧
    (∀ n c s, n ≤ N → plugDepth pf ≤ k → PlugsShaped pf → Pf.runBasicF ax n pf = some (some c) →
      ProofThunk.__call__ N t (basicK N k) s = some (some (s, ⟨c⟩))) :=
  ⟨fun s s' pr h => basic_run_sound ax N k pf t ht hk s s' pr h,
   fun n c s hn hd hsh h => basic_run_complete ax N k n pf c h hn hd hsh hk t ht s⟩

/-- a genuine difference between `runBasicF` and the source: `dynamic_inst` walks the plugs on every
interpreter, so a plug `ESubst(EVar(0), EVar(0), EVar(1))` makes the Python run on `BasicInterpreter` raise
(`assert isinstance(subpattern, MetaVar | ESubst | SSubst)`) while `runBasicF` returns a conclusion -/
theorem basic_text_differs_on_unshaped_plugs :
    (Pf.runBasicF [] 40 discrepancyPf).map Option.isSome = some true ∧
    ((build (τ := PySt) 40 [] discrepancyPf).bind fun o => o.bind fun t =>
      (ProofThunk.__call__ 40 t (basicK 40 40) (PySt.init [])).map Option.isSome) = some false :=
  basic_discrepancy

/-- the assertions of the text, for an arbitrary interpreter: the `isinstance` check of the `ESubst` /
`SSubst` cases comes before the call of `esubst` / `ssubst`; a thunk whose expression returns a conclusion
different from the advertised one raises; an empty `delta` is no instantiation -/
theorem proof_text_asserts {τ : Type} (O : Interp τ) :
    (∀ s s1 s2 q plug v vp x, O.pattern s plug = some (some (s1, vp)) → O.pattern s1 q = some (some (s2, v)) →
      v.isMetaHead = false → Interpreter.pattern O s (.esub q x plug) = some none ∧
        Interpreter.pattern O s (.ssub q x plug) = some none) ∧
    (∀ N (t : ProofThunk τ) s s' pr, t._expr N O s = some (some (s', pr)) →
      NPat.peqF N pr.conclusion t.conc = some false → ProofThunk.__call__ N t O s = some none) ∧
    (∀ N (t : ProofThunk τ), ProofExp.dynamic_inst N t [] = some (some t)) ∧
    (∀ N (t : ProofThunk τ) δ, ProofExp.instantiate N t δ = ProofExp.dynamic_inst N t δ) :=
  ⟨fun s s1 s2 q plug v vp x h1 h2 hv =>
      ⟨esubst_guard O s s1 s2 q plug v vp x h1 h2 hv, ssubst_guard O s s1 s2 q plug v vp x h1 h2 hv⟩,
   fun N t s s' pr h hne => thunk_guard O N t s s' pr h hne,
   fun N t => dynamic_inst_empty N t,
   fun N t δ => ProofTie.instantiate_eq N t δ⟩

/-! ## the proof generator as written, on `StatefulInterpreter` as written -/

open ComposeTie in
/-- **the generated `StatefulInterpreter` as an object is the checking tracker**: called with the terms that are
on the stack, every method of `statefulI M` (the translated method of `Pi2/Gen/PyInterp.lean` applied to its
arguments) returns exactly what the tracker's method (`callI M`) returns, provided the reflexive comparisons of
the entries it consumes evaluate to `True` within fuel `M` (and returns nothing otherwise); also under the
generated `InterpreterTransformer` -/
theorem stateful_text_object_is_the_checking_tracker (M : Nat) :
    Checks (fun σ => σ) M (statefulI M) ∧ Checks embM M (InterpreterTransformer.obj (statefulI M)) :=
  ⟨checks_stateful M, checks_transformer M⟩

open ComposeTie in
/-- **the calling convention is a theorem about the proof generator as written**: on the tracker (plain or under
`MemoizingInterpreter`) the value `Interpreter.pattern` returns for `p` is `p` itself and it is the one new entry
on top of the stack; the `Proved` which a thunk of the generated rule constructors returns is the one new entry
on top of the stack.  Hence every interpreter method is called with exactly the terms on top of the stack. -/
theorem calling_convention_of_the_proof_text (N : Nat) :
    (∀ k (σ : ProofTie.St) p σ' v, (trackerK N k).pattern σ p = some (some (σ', v)) →
      v = p ∧ σ'.1.stack = (.pat p, false) :: σ.1.stack) ∧
    (∀ S k (σ : ProofTie.St) p τ' v, (memoK N k S).pattern (embM σ) p = some (some (τ', v)) →
      v = p ∧ ∃ σ' : ProofTie.St, τ' = embM σ' ∧ σ'.1.stack = (.pat p, false) :: σ.1.stack) ∧
    (∀ k ax pf (t : ProofThunk ProofTie.St) (σ : ProofTie.St) σ' pr, KeysNodup pf → build N ax pf = some (some t) →
      ProofThunk.__call__ N t (trackerK N k) σ = some (some (σ', pr)) →
      σ'.1.stack = (.proved pr.conclusion, false) :: σ.1.stack) ∧
    (∀ S k ax pf (t : ProofThunk (TrSt ProofTie.St)) (σ : ProofTie.St) τ' pr, KeysNodup pf →
      build N ax pf = some (some t) →
      ProofThunk.__call__ N t (memoK N k S) (embM σ) = some (some (τ', pr)) →
      ∃ σ' : ProofTie.St, τ' = embM σ' ∧ σ'.1.stack = (.proved pr.conclusion, false) :: σ.1.stack) := by
  refine ⟨fun k σ p σ' v h => ?_, fun S k σ p τ' v h => ?_, fun k ax pf t σ σ' pr hk ht h => ?_,
    fun S k ax pf t σ τ' pr hk ht h => ?_⟩
  · obtain ⟨σ1, e1, e2, hs⟩ := pattern_id N k σ p σ' v h
    simp only at e1; subst e1; exact ⟨e2, hs⟩
  · obtain ⟨σ1, e1, e2, hs⟩ := memo_pattern_id N S k σ p τ' v h
    exact ⟨e2, σ1, e1, hs⟩
  · obtain ⟨σ1, e1, hs⟩ := run_top (fun σ => σ) ax (emits_tracker N k) (pattern_id N k) pf hk t ht σ σ' pr h
    simp only at e1; subst e1; exact hs
  · exact run_top embM ax (emits_memo N k S) (memo_pattern_id N S k) pf hk t ht σ τ' pr h

open ComposeTie in
/-- **the composition**: the generated proof generator on the generated `StatefulInterpreter` (`statefulK`) against
the same generated code on the tracker object (`trackerK`), at the same fuel and recursion depth.  Patterns:
what `statefulK` returns `trackerK` returns; what `trackerK` returns `statefulK` returns when the fuel suffices for
the reflexive comparisons of the sub-patterns.  Proof expressions (dicts with distinct keys): the same, the fuel
hypothesis being on the conclusions of the consumed sub-proofs and on the plugs. -/
theorem proof_text_on_stateful_text_is_proof_text_on_tracker (N k : Nat) :
    (∀ (σ : ProofTie.St) p x, (statefulK N k).pattern σ p = some (some x) →
      (trackerK N k).pattern σ p = some (some x)) ∧
    (∀ (σ : ProofTie.St) p x, SubRefl N p → (trackerK N k).pattern σ p = some (some x) →
      (statefulK N k).pattern σ p = some (some x)) ∧
    (∀ ax pf (t : ProofThunk ProofTie.St) (σ : ProofTie.St) x, KeysNodup pf → build N ax pf = some (some t) →
      ProofThunk.__call__ N t (statefulK N k) σ = some (some x) →
      ProofThunk.__call__ N t (trackerK N k) σ = some (some x)) ∧
    (∀ ax pf (t : ProofThunk ProofTie.St) (σ : ProofTie.St) x, KeysNodup pf → build N ax pf = some (some t) →
      ConcsRefl (fun σ => σ) N N ax (trackerK N k) pf →
      ProofThunk.__call__ N t (trackerK N k) σ = some (some x) →
      ProofThunk.__call__ N t (statefulK N k) σ = some (some x)) :=
  ⟨fun σ p x h => pattern_S N k σ p x h, fun σ p x hp h => pattern_C N k σ p x hp h,
   fun ax pf t σ x hk ht h =>
     run_S (fun σ => σ) ax (checks_statefulK N k) (emits_tracker N k) (pattern_id N k) (pattern_S N k) pf hk t ht σ x h,
   fun ax pf t σ x hk ht hr h =>
     run_C (fun σ => σ) ax (checks_statefulK N k) (emits_tracker N k) (pattern_id N k) (pattern_C N k) pf hk hr t ht σ x h⟩

open ComposeTie in
/-- **`Interpreter.pattern` as written, running on `StatefulInterpreter` as written, is `patternF`** — plain and
through `MemoizingInterpreter` as written: a walk of the model that returns is the walk of the text (given the
fuel `SubRefl N p` for the reflexive comparisons), a walk of the text that returns is a walk of the model: same
state, same calls; the value returned is the pattern itself, pushed on the stack -/
theorem pattern_text_on_stateful_text_is_the_model (N : Nat) (s : PySt) (p : NPat) (acc : List Call) :
    ((∀ n s' a', n ≤ N → SubRefl N p → patternF {} n s p acc = some (some (s', a')) →
        (statefulK N N).pattern (s, acc) p = some (some ((s', a'), p))) ∧
      (∀ σ' v, (statefulK N N).pattern (s, acc) p = some (some (σ', v)) →
        v = p ∧ σ'.1.stack = (.pat p, false) :: s.stack ∧ ∃ m, patternF {} m s p acc = some (some σ'))) ∧
    (∀ S : List NPat,
      (∀ n s' a', n ≤ N → SubRefl N p → patternF { memo := some S } n s p acc = some (some (s', a')) →
        (statefulMemoK N N S).pattern (embM (s, acc)) p = some (some (embM (s', a'), p))) ∧
      (∀ τ' v, (statefulMemoK N N S).pattern (embM (s, acc)) p = some (some (τ', v)) →
        v = p ∧ ∃ σ' : ProofTie.St, τ' = embM σ' ∧ σ'.1.stack = (.pat p, false) :: s.stack ∧
          ∃ m, patternF { memo := some S } m s p acc = some (some σ'))) :=
  ⟨pattern_stateful_model N s p acc, fun S => memo_pattern_stateful_model N S s p acc⟩

open ComposeTie in
/-- **a proof expression as written, running on `StatefulInterpreter` as written, is `runF`** (dicts with distinct
keys), plain and through `MemoizingInterpreter` as written: a `ProofThunk` built by the translated `ProofExp`
and run on the translated `StatefulInterpreter` (closed under the translated `Interpreter.pattern`) returns iff
`Pf.runF` of the model returns — same final state, same calls, same conclusion; the `Proved` it returns is the
one new entry on the stack.  Model → text needs the fuel `ConcsReflM` for the reflexive comparisons. -/
theorem proof_text_on_stateful_text_is_the_model (N : Nat) (ax : List NPat) (s : PySt) (pf : Pf) (acc : List Call)
    (hk : KeysNodup pf) :
    ((∀ n s' a' c, n ≤ N → ConcsReflM N {} ax pf → Pf.runF {} ax n s pf acc = some (some (s', a', c)) →
        ∃ t : ProofThunk ProofTie.St, build N ax pf = some (some t) ∧
          ProofThunk.__call__ N t (statefulK N N) (s, acc) = some (some ((s', a'), ⟨c⟩))) ∧
      (∀ (t : ProofThunk ProofTie.St) σ' pr, build N ax pf = some (some t) →
        ProofThunk.__call__ N t (statefulK N N) (s, acc) = some (some (σ', pr)) →
        σ'.1.stack = (.proved pr.conclusion, false) :: s.stack ∧
          ∃ m, Pf.runF {} ax m s pf acc = some (some (σ'.1, σ'.2, pr.conclusion)))) ∧
    (∀ S : List NPat,
      (∀ n s' a' c, n ≤ N → ConcsReflM N { memo := some S } ax pf →
        Pf.runF { memo := some S } ax n s pf acc = some (some (s', a', c)) →
        ∃ t : ProofThunk (TrSt ProofTie.St), build N ax pf = some (some t) ∧
          ProofThunk.__call__ N t (statefulMemoK N N S) (embM (s, acc)) = some (some (embM (s', a'), ⟨c⟩))) ∧
      (∀ (t : ProofThunk (TrSt ProofTie.St)) τ' pr, build N ax pf = some (some t) →
        ProofThunk.__call__ N t (statefulMemoK N N S) (embM (s, acc)) = some (some (τ', pr)) →
        ∃ m s' a', Pf.runF { memo := some S } ax m s pf acc = some (some (s', a', pr.conclusion)) ∧
          τ' = embM (s', a') ∧ s'.stack = (.proved pr.conclusion, false) :: s.stack)) :=
  ⟨run_stateful_model N ax s pf acc hk, fun S => run_memo_stateful_model N S ax s pf acc hk⟩

open ComposeTie in
/-- the composition is not vacuous (a proof expression does run on the generated `StatefulInterpreter`, plain
and memoising with a `load`), and the generated `StatefulInterpreter` is not the argument-ignoring `callI`: called
with a term that is not on the stack it raises -/
theorem stateful_text_nonvacuous :
    (((build (τ := ProofTie.St) 40 [] witnessPf).bind fun o => o.bind fun t =>
      (ProofThunk.__call__ 40 t (statefulK 40 40) (PySt.init [], [])).map
        (Option.map fun x => (x.1.2.length, x.1.1.stack.length))) = some (some (10, 1)) ∧
    ((build (τ := TrSt ProofTie.St) 40 [] witnessPf).bind fun o => o.bind fun t =>
      (ProofThunk.__call__ 40 t (statefulMemoK 40 40 [])
          (embM ({ PySt.init [] with memory := [.pat (phiN 2)] }, []))).map
        (Option.map fun x => (x.1.sub.2.length, x.1.sub.1.stack.length,
          x.1.sub.2.any fun c => match c with | .load _ => true | _ => false))) = some (some (10, 1, true))) ∧
    (let σ0 : ProofTie.St := ({ PySt.init [] with stack := [(.pat (.evar 1), false), (.pat (.evar 0), false)] }, [])
     ((statefulI 5).implies σ0 (.evar 7) (.evar 1)).map Option.isSome = some false ∧
     ((callI 5).implies σ0 (.evar 7) (.evar 1)).map Option.isSome = some true ∧
     ((statefulI 5).implies σ0 (.evar 0) (.evar 1)).map Option.isSome = some true) :=
  ⟨stateful_nonvacuous, stateful_object_checks_its_arguments⟩

end C08

namespace C03
open PySt PyI Gen.PyProof ProofTie

/-- **`execute_full` as written is `executeFull`** (gamma phase: imported modules first, depth first, then the
module's own axioms; claims in reversed order; the proofs), on the plain tracker.  `hself`: the comparison
`conc == conc` that the wrapper thunk of `publish_proof` evaluates (the hand-written model omits it) does not
run out of fuel. -/
theorem phases_text_is_the_model (N : Nat) (m : PModule) :
    (∀ n s' a', n ≤ N → PModule.depth m ≤ N →
      (∀ pf ∈ m.proofsOf, ∀ k adv, Pf.concF m.axiomsOf k pf = some (some adv) → NPat.peqF N adv adv = some true) →
      PModule.executeFull {} n m = some (some (s', a')) →
      ∃ thunks : List (ProofThunk ProofTie.St), buildAll N m.axiomsOf m.proofsOf = some (some thunks) ∧
        ∀ f, ProofExp.execute_full N (expOf thunks f m) (trackerK N N) (PySt.init m.claimsOf, []) = some (some (s', a'))) ∧
    (∀ (thunks : List (ProofThunk ProofTie.St)) f σ', buildAll N m.axiomsOf m.proofsOf = some (some thunks) →
      ProofExp.execute_full N (expOf thunks f m) (trackerK N N) (PySt.init m.claimsOf, []) = some (some σ') →
      ∃ n, PModule.executeFull {} n m = some (some σ')) :=
  execute_plain N m

/-- the same through `MemoizingInterpreter(tracker, S)`: `executeFull {memo := some S}`; the transformer's own
`phase` attribute follows the sub-interpreter's (`embM`) -/
theorem memo_phases_text_is_the_model (N : Nat) (S : List NPat) (m : PModule) :
    (∀ n s' a', n ≤ N → PModule.depth m ≤ N →
      (∀ pf ∈ m.proofsOf, ∀ k adv, Pf.concF m.axiomsOf k pf = some (some adv) → NPat.peqF N adv adv = some true) →
      PModule.executeFull { memo := some S } n m = some (some (s', a')) →
      ∃ thunks : List (ProofThunk (TrSt ProofTie.St)), buildAll N m.axiomsOf m.proofsOf = some (some thunks) ∧
        ∀ f, ProofExp.execute_full N (expOf thunks f m) (memoK N N S) (embM (PySt.init m.claimsOf, []))
          = some (some (embM (s', a')))) ∧
    (∀ (thunks : List (ProofThunk (TrSt ProofTie.St))) f τ', buildAll N m.axiomsOf m.proofsOf = some (some thunks) →
      ProofExp.execute_full N (expOf thunks f m) (memoK N N S) (embM (PySt.init m.claimsOf, [])) = some (some τ') →
      ∃ n s' a', PModule.executeFull { memo := some S } n m = some (some (s', a')) ∧ τ' = embM (s', a')) :=
  execute_memo N S m

/-- **the shape of `serialize`**: without `optimize` one `execute_full` on the serializer; with it, one on the
`CountingInterpreter`, then one on `MemoizingInterpreter(serializer, analyzer.finalize())` — which, over the
tracker, is `memoK` in the state `embM` -/
theorem serialize_text_shape {σ : Type} (n : Nat) (self : (τ : Type) → ProofExp τ)
    (mkS mkC : Phase → List Claim → Interp σ × σ) (finalize : σ → List NPat) :
    (ProofExp.serialize n self mkS mkC finalize false
      = ProofExp.execute_full n (self σ) (mkS .gamma (self σ)._claims).1 (mkS .gamma (self σ)._claims).2 ∧
    ProofExp.serialize n self mkS mkC finalize true
      = call (ProofExp.execute_full n (self σ) (mkC .gamma (self σ)._claims).1 (mkC .gamma (self σ)._claims).2) fun sa =>
        ProofTie.pmap TrSt.sub (ProofExp.execute_full n (self (TrSt σ))
          (MemoizingInterpreter.new n (mkS .gamma (self σ)._claims).1 (mkS .gamma (self σ)._claims).2 (some (finalize sa))).1
          (MemoizingInterpreter.new n (mkS .gamma (self σ)._claims).1 (mkS .gamma (self σ)._claims).2 (some (finalize sa))).2)) ∧
    (∀ N j S st, MemoizingInterpreter.new N (trackerK N j) st (some S) = (memoK N N S, embM st)) :=
  ⟨serialize_shape n self mkS mkC finalize, fun N j S st => memo_new_eq N j S st⟩

open ComposeTie in
/-- **`execute_full` as written, running on `StatefulInterpreter` as written, is `executeFull`** (dicts with
distinct keys).  Model → text: besides `hself` of `phases_text_is_the_model`, the fuel `ModuleRefl` for the
reflexive comparisons of the tracker's assertions (axioms, claims, conclusions).  Text → model: unconditional. -/
theorem phases_text_on_stateful_text_is_the_model (N : Nat) (m : PModule) (hk : ∀ pf ∈ m.proofsOf, KeysNodup pf) :
    (∀ n s' a', n ≤ N → PModule.depth m ≤ N →
      (∀ pf ∈ m.proofsOf, ∀ k adv, Pf.concF m.axiomsOf k pf = some (some adv) → NPat.peqF N adv adv = some true) →
      ModuleRefl N {} m →
      PModule.executeFull {} n m = some (some (s', a')) →
      ∃ thunks : List (ProofThunk ProofTie.St), buildAll N m.axiomsOf m.proofsOf = some (some thunks) ∧
        ∀ f, ProofExp.execute_full N (expOf thunks f m) (statefulK N N) (PySt.init m.claimsOf, [])
          = some (some (s', a'))) ∧
    (∀ (thunks : List (ProofThunk ProofTie.St)) f σ', buildAll N m.axiomsOf m.proofsOf = some (some thunks) →
      ProofExp.execute_full N (expOf thunks f m) (statefulK N N) (PySt.init m.claimsOf, []) = some (some σ') →
      ∃ n, PModule.executeFull {} n m = some (some σ')) :=
  execute_stateful_model N m hk

open ComposeTie in
/-- the same through `MemoizingInterpreter(StatefulInterpreter, S)` as written — the object that `serialize`
builds over a stateful serializer (`MemoizingInterpreter.new … = (statefulMemoK N N S, embM σ)`) -/
theorem memo_phases_text_on_stateful_text_is_the_model (N : Nat) (S : List NPat) (m : PModule)
    (hk : ∀ pf ∈ m.proofsOf, KeysNodup pf) :
    ((∀ n s' a', n ≤ N → PModule.depth m ≤ N →
      (∀ pf ∈ m.proofsOf, ∀ k adv, Pf.concF m.axiomsOf k pf = some (some adv) → NPat.peqF N adv adv = some true) →
      ModuleRefl N { memo := some S } m →
      PModule.executeFull { memo := some S } n m = some (some (s', a')) →
      ∃ thunks : List (ProofThunk (TrSt ProofTie.St)), buildAll N m.axiomsOf m.proofsOf = some (some thunks) ∧
        ∀ f, ProofExp.execute_full N (expOf thunks f m) (statefulMemoK N N S) (embM (PySt.init m.claimsOf, []))
          = some (some (embM (s', a')))) ∧
    (∀ (thunks : List (ProofThunk (TrSt ProofTie.St))) f τ', buildAll N m.axiomsOf m.proofsOf = some (some thunks) →
      ProofExp.execute_full N (expOf thunks f m) (statefulMemoK N N S) (embM (PySt.init m.claimsOf, []))
        = some (some τ') →
      ∃ n s' a', PModule.executeFull { memo := some S } n m = some (some (s', a')) ∧ τ' = embM (s', a'))) ∧
    (∀ j st, MemoizingInterpreter.new N (statefulK N j) st (some S) = (statefulMemoK N N S, embM st)) :=
  ⟨execute_memo_stateful_model N S m hk, fun j st => memo_new_stateful N j S st⟩

end C03

#print axioms C08.proof_text_translated
#print axioms C08.pattern_text_is_the_model
#print axioms C08.memo_pattern_text_is_the_model
#print axioms C08.conclusions_text_is_the_model
#print axioms C08.proof_text_is_the_model
#print axioms C08.basic_text_is_the_model
#print axioms C08.basic_text_differs_on_unshaped_plugs
#print axioms C08.proof_text_asserts
#print axioms C03.phases_text_is_the_model
#print axioms C03.memo_phases_text_is_the_model
#print axioms C03.serialize_text_shape
#print axioms C08.stateful_text_object_is_the_checking_tracker
#print axioms C08.calling_convention_of_the_proof_text
#print axioms C08.proof_text_on_stateful_text_is_proof_text_on_tracker
#print axioms C08.pattern_text_on_stateful_text_is_the_model
#print axioms C08.proof_text_on_stateful_text_is_the_model
#print axioms C03.phases_text_on_stateful_text_is_the_model
#print axioms C03.memo_phases_text_on_stateful_text_is_the_model
#print axioms C08.stateful_text_nonvacuous
