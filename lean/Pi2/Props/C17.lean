import Pi2.MM.AstThm
import Pi2.MM.SliceThm
import Pi2.MM.SliceVerify
import Pi2.MM.SliceVerifyEx
/-!
# C17 — Metamath databases survive printing, re-parsing and slicing

Models: `Pi2/MM/Ast.lean` (lark grammar + `ASTTransformer`, `Encoder`) and `Pi2/MM/Slice.lean`
(`slice_database`, tree after the `fix:` commits F14/F15), both at token level.

* `print_parse`: the printer is a left inverse of the parser on *every* token sequence the parser accepts
  (not only well-formed Metamath), hence `parse_print_parse`: printing a parsed database and parsing the
  text again gives the same database.
* every slice (a) ends with the lemma's own block: label, statement and compressed proof unchanged
  (`slice_keeps_lemma`); (b) declares, in its `$c` and `$v` statements, every constant — including the
  typecodes of the floating hypotheses it keeps — and every metavariable its statements use
  (`slice_declares`); (c) contains the statement of every label the compressed proof cites
  (`slice_labels_present`); (d) keeps the floating hypotheses in their original order
  (`slice_floats_in_order`, for databases whose floating labels are not reused).
* `slice_verifies` (the property itself): for a well-formed database (`MM.WellFormedDb`: unique labels, no `$e` outside
  a block, the AST consistent with the `$v` declarations, top-level `$d` before the assertions they concern), if the
  reference Metamath verifier `MM.verifyLemma` (`Pi2/MM/Verify.lean`, validated against the independent Python verifier
  by `vlib/validate_verify.py`) accepts the proof of a lemma in the database, it accepts it in the lemma's slice.
  No hypothesis on `syntax_dependencies` is needed.  `slice_verifies_needs_disjFirst`: without the hypothesis on
  top-level `$d` statements the property is FALSE (a `$d x y` after an axiom over `x`, `y`: the slicer moves it to the
  front of the slice and the axiom gains a disjoint-variable condition).  The check (`vlib/props/c17.py`) still runs
  an independent verifier on every generated slice.
-/
namespace C17
open MM

theorem print_parse (toks : List String) (db : MDb) (h : parseDb toks = some db) : printDb db = toks :=
  MM.print_parse toks db h

theorem parse_print_parse (toks : List String) (db : MDb) (h : parseDb toks = some db) :
    parseDb (printDb db) = some db :=
  MM.parse_print_parse toks db h

/-- terms: what the parser read is what the printer writes (any metavariable environment, any fuel) -/
theorem print_parse_terms (mvs : List String) (ts : List String) (terms : List MTerm)
    (h : parseTerms mvs ts = some terms) : printTerms terms = ts :=
  MM.print_parseTerms mvs _ ts terms h

theorem slice_keeps_lemma {db : MDb} {deps : List (String × List String)} {incl excl : List String}
    {out : List (String × MDb)} {l : String} {sl : MDb}
    (h : sliceDatabase db deps incl excl = some out) (hmem : (l, sl) ∈ out) :
    ∃ s ∈ db, ∃ ants terms proof, deconstructProvable s = some (ants, .prov l terms proof) ∧
      sl.getLast? = some (.block (ants ++ [.prov l terms proof])) :=
  MM.slice_keeps_lemma h hmem

/-- every slice starts with a `$c` statement listing every constant used below it (typecodes of kept
floating statements included), followed — if any metavariable is used — by a `$v` statement listing all of them -/
theorem slice_declares {db : MDb} {deps : List (String × List String)} {incl excl : List String}
    {out : List (String × MDb)} {l : String} {sl : MDb}
    (h : sliceDatabase db deps incl excl = some out) (hmem : (l, sl) ∈ out) :
    ∃ cs rest, sl = .const cs :: rest ∧
      (∀ s ∈ rest, ∀ xs c, stmtConstants s = some xs → c ∈ xs → c ∈ cs) ∧
      (∀ l tc v, MStmt.float l tc v ∈ rest → tc ∈ cs) ∧
      (stmtsMvs rest ≠ [] → ∃ vs rest', rest = .var vs :: rest' ∧ ∀ s ∈ rest, ∀ v ∈ stmtMvs s, v ∈ vs) :=
  MM.sliceDatabase_declares h hmem

/-- the statement of every label between the parentheses of the compressed proof is in the slice -/
theorem slice_labels_present {cut : List (String × MStmt)} {disjoints : List (String × String)}
    {deps : List (String × List String)} {label : String} {terms : List MTerm} {proof : List String}
    {ess : List MStmt} {sl : MDb} {labels : List String}
    (h : supportingDb cut disjoints deps label terms proof ess = some sl)
    (hl : proofLabels proof = some labels) :
    ∀ l ∈ labels, ∃ st, cut.lookup l = some st ∧ st ∈ sl :=
  MM.slice_labels_present h hl

/-- floating hypotheses keep their database order (labels of `$f` statements not used before) -/
theorem slice_floats_in_order {db : MDb} {deps : List (String × List String)} {incl excl : List String}
    {out : List (String × MDb)} {l : String} {sl : MDb}
    (hlabels : (db.filterMap sliceKey?).Nodup)
    (h : sliceDatabase db deps incl excl = some out) (hmem : (l, sl) ∈ out) :
    (topFloats sl).Sublist (topFloats db) :=
  MM.slice_floats_in_order (floatLabelsFresh_of_nodup hlabels) h hmem

/-- disjointness: every pair of the global `$d` statements seen so far whose two variables the slice declares (`mvs`: the
variables of its `$v` statement) is stated in the slice, so a `$d` side condition the lemma's proof relies on is still there -/
theorem slice_keeps_disjointness {cut : List (String × MStmt)} {disjoints : List (String × String)}
    {deps : List (String × List String)} {label : String} {terms : List MTerm} {proof : List String}
    {ess : List MStmt} {sl : MDb}
    (h : supportingDb cut disjoints deps label terms proof ess = some sl) :
    ∃ mvs : List String, (mvs ≠ [] → sl[1]? = some (MStmt.var (sortDedup mvs))) ∧
      ∀ a b, (a, b) ∈ disjoints → a ∈ mvs → b ∈ mvs → MStmt.disj [a, b] ∈ sl := by
  obtain ⟨labels, neededStmts, consts, _, _, _, hsl⟩ := MM.slice_shape h
  refine ⟨stmtsMvs (.prov label terms proof :: (ess ++ neededStmts)), ?_, ?_⟩
  · intro hne
    rw [hsl]
    simp [MM.varStmtOf, hne]
  · intro a b hab ha hb
    rw [hsl]
    apply List.mem_cons_of_mem
    apply List.mem_append_left
    apply List.mem_append_left
    apply List.mem_append_right
    simp only [MM.disjStmtsOf, List.mem_map, List.mem_filter]
    exact ⟨(a, b), ⟨hab, by simp [ha, hb]⟩, rfl⟩

/-- **the slice is self-contained**: the lemma's proof, which verifies against the database, verifies against the slice -/
theorem slice_verifies {db : MDb} {deps : List (String × List String)} {incl excl : List String}
    {out : List (String × MDb)} {l : String} {sl : MDb} (hwf : WellFormedDb db)
    (h : sliceDatabase db deps incl excl = some out) (hm : (l, sl) ∈ out)
    (hv : verifyLemma db l = true) : verifyLemma sl l = true :=
  MM.slice_verifies hwf h hm hv

/-- the same when the whole database verifies (`verifyDb`: every `$p`) -/
theorem slice_verifies_of_verifyDb {db : MDb} {deps : List (String × List String)} {incl excl : List String}
    {out : List (String × MDb)} {l : String} {sl : MDb} (hwf : WellFormedDb db)
    (h : sliceDatabase db deps incl excl = some out) (hm : (l, sl) ∈ out)
    (hv : verifyDb db = true) : verifyLemma sl l = true :=
  MM.slice_verifies_of_verifyDb hwf h hm hv

/-- `WellFormedDb` is decidable: `wellFormedDbB` computes it (driver command `mmwf`) -/
theorem wellFormedDb_of_decide {db : MDb} (h : wellFormedDbB db = true) : WellFormedDb db :=
  MM.wellFormedDb_of_decide h

/-- non-vacuity: a database with top-level `$d`, rules with `$e` in blocks, two lemmas (the second cites the first)
meets the hypotheses, both lemmas verify, and so do their slices -/
theorem slice_verifies_nonvacuous :
    WellFormedDb SliceEx.exDb ∧
    sliceDatabase SliceEx.exDb [] ["th1", "th2"] [] = some [("th1", SliceEx.exSl1), ("th2", SliceEx.exSl2)] ∧
    verifyLemma SliceEx.exDb "th2" = true ∧ verifyLemma SliceEx.exSl2 "th2" = true :=
  ⟨SliceEx.exDb_wf, SliceEx.exDb_slices, SliceEx.exDb_th2, SliceEx.exSl2_verifies⟩

/-- the hypothesis `WellFormedDb.disjFirst` cannot be dropped: a database meeting all the other hypotheses whose
lemma verifies and whose slice does not -/
theorem slice_verifies_needs_disjFirst : ∃ (db : MDb) (l : String) (sl : MDb),
    (allLabelsL db).Nodup ∧ ")" ∉ allLabelsL db ∧ (∀ s ∈ db, isEssStmt s = false) ∧
    (∀ x ∈ flatL db, leafOk (dbVars db) x = true) ∧ (∀ c ∈ defaultConstants, c ∉ dbVars db) ∧
    sliceDatabase db [] [l] [] = some [(l, sl)] ∧ verifyDb db = true ∧ verifyLemma db l = true ∧
    verifyLemma sl l = false :=
  SliceEx.slice_verifies_needs_disjFirst

end C17

#print axioms C17.slice_verifies
#print axioms C17.slice_verifies_nonvacuous
#print axioms C17.slice_verifies_needs_disjFirst
