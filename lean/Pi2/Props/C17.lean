import Pi2.MM.AstThm
import Pi2.MM.SliceThm
import Pi2.MM.SliceVerify
import Pi2.MM.SliceVerifyEx
import Pi2.MM.SliceTie
import Pi2.MM.AstTie
import Pi2.MM.AstText
/-!
# C17 — Metamath databases survive printing, re-parsing and slicing

Models: `Pi2/MM/Ast.lean` (lark grammar + `ASTTransformer`, `Encoder`) and `Pi2/MM/Slice.lean`
(`slice_database`, tree after the `fix:` commits F14/F15 and the two repairs "keep a top-level $d statement at its
place in a slice", "keep an essential hypothesis stated outside a block …"), both at token level.

* `print_parse`: the printer is a left inverse of the parser on *every* token sequence the parser accepts
  (not only well-formed Metamath), hence `parse_print_parse`: printing a parsed database and parsing the
  text again gives the same database.
* every slice (a) ends with the lemma's own block: label, statement and compressed proof unchanged
  (`slice_keeps_lemma`); (b) declares, in its `$c` and `$v` statements, every constant — including the
  typecodes of the floating hypotheses it keeps — and every metavariable its statements use
  (`slice_declares`); (c) contains the statement of every label the compressed proof cites
  (`slice_labels_present`); (d) keeps the floating hypotheses in their original order
  (`slice_floats_in_order`, for databases whose floating labels are not reused); (e) keeps every top-level `$d`
  statement at its place among the kept statements, restricted to the metavariables of the slice
  (`slice_keeps_disjointness`).
* `slice_verifies` (the property itself): for a well-formed database (`MM.WellFormedDb`: unique labels, `)` not a
  label, the AST consistent with the `$v` declarations, the slicer's default constants not variables), if the
  reference Metamath verifier `MM.verifyLemma` (`Pi2/MM/Verify.lean`, validated against the independent Python verifier
  by `vlib/validate_verify.py`) accepts the proof of a lemma in the database, it accepts it in the lemma's slice.
  No hypothesis on `syntax_dependencies` is needed.  While this theorem was being proved two defects of the slicer
  were found (top-level `$d` moved in front of earlier assertions; top-level `$e` dropped) and repaired upstream; the
  two former counterexamples are kept as regression facts (`cex_disj_now_verifies`, `cex_top_ess_now_verifies`).
  The check (`vlib/props/c17.py`) still runs an independent verifier on every generated slice.
* `slicer_text_is_the_model`: the slicer as TRANSLATED from the text of `metamath_extract_slice.py` on every run
  (`vlib/transslice.py` → `Pi2/Gen/Slicer.lean`: `get_constants`, `statements_get_constants`,
  `deconstruct_compressed_proof`, `supporting_database_for_provable`, `match_axiom`, `deconstruct_provable`,
  `construct_axiom`, `slice_database`, statement by statement) computes exactly the slices of the hand-written model
  (`Pi2/MM/SliceTie.lean`), for databases whose labels / proof tokens / `syntax_deps` entries contain no blank
  (`SliceTie.tokensOk`: they are tokens, so none is one of the dictionary keys `'$d <n>'` of the top-level `$d`
  statements) and with `fuel ≥ stmtsSize db` for the `while` loop of `match_axiom`.  Hence `translated_slices_verify`:
  the slices computed by the translated slicer verify.
* `parser_text_is_the_model`, `encoder_text_is_the_model`, `print_parse_text`: the parser callbacks, the grammar's statement
  rules and the `Encoder` as TRANSLATED from the text of parser.py / ast.py on every run (`vlib/transmmast.py` →
  `Pi2/Gen/MMAst.lean`) are the hand-written model (`Pi2/MM/AstTie.lean`): `parse_database` = `parseDb` on every token list;
  the strings the `Encoder` writes, split at the ignored characters, = `printDb`; hence printing a parsed database and parsing
  the text again gives the same database, for the translated functions.  Outside: lark's lexer / LALR(1) parser.
* `print_parse_real_text`, `printer_text_is_tokens`, `printer_keeps_blank_label`, `old_printer_dropped_blank_label`
  (`Pi2/MM/AstText.lean`): the same for the TEXT that `Printer` (utils/printer.py as repaired by 5aefd01; hand-written model
  `MMAstSup.Printer`, compared with the real text character by character by the check) makes of the `Encoder`'s calls — for
  every token list of lexemes.  `Printer` as such still `rstrip`s the last string of every line (`printer_text_is_tokens` states the
  exact condition under which that is harmless); the `Encoder` ends a line only by writing `'\n'` itself, so for a parsed database
  the string `rstrip` sees is always `''`.  Before 5aefd01 the sentence was FALSE: `'\xa0 $a x $.'` parsed (label `'\xa0'`), was
  printed as `'$a x $.'` — the label, whitespace for `str.isspace`, was taken for indentation and dropped — and did not re-parse.
-/
namespace C17
open MM

theorem print_parse (toks : List String) (db : MDb) (h : parseDb toks = some db) : printDb db = toks :=
  MM.print_parse toks db h

theorem parse_print_parse (toks : List String) (db : MDb) (h : parseDb toks = some db) :
    parseDb (printDb db) = some db :=
  MM.parse_print_parse toks db h

/-- terms: what the parser read is what the printer writes (any metavariable environment, any fuel) -/
theorem print_parse_terms (mvs : List String) (ts : List String) (terms : List MTerm)
    (h : parseTerms mvs ts = some terms) : printTerms terms = ts :=
  MM.print_parseTerms mvs _ ts terms h

theorem slice_keeps_lemma {db : MDb} {deps : List (String × List String)} {incl excl : List String}
    {out : List (String × MDb)} {l : String} {sl : MDb}
    (h : sliceDatabase db deps incl excl = some out) (hmem : (l, sl) ∈ out) :
    ∃ s ∈ db, ∃ ants terms proof, deconstructProvable s = some (ants, .prov l terms proof) ∧
      sl.getLast? = some (.block (ants ++ [.prov l terms proof])) :=
  MM.slice_keeps_lemma h hmem

/-- every slice starts with a `$c` statement listing every constant used below it (typecodes of kept
floating statements included), followed — if any metavariable is used — by a `$v` statement listing all of them -/
theorem slice_declares {db : MDb} {deps : List (String × List String)} {incl excl : List String}
    {out : List (String × MDb)} {l : String} {sl : MDb}
    (h : sliceDatabase db deps incl excl = some out) (hmem : (l, sl) ∈ out) :
    ∃ cs rest, sl = .const cs :: rest ∧
      (∀ s ∈ rest, ∀ xs c, stmtConstants s = some xs → c ∈ xs → c ∈ cs) ∧
      (∀ l tc v, MStmt.float l tc v ∈ rest → tc ∈ cs) ∧
      (stmtsMvs rest ≠ [] → ∃ vs rest', rest = .var vs :: rest' ∧ ∀ s ∈ rest, ∀ v ∈ stmtMvs s, v ∈ vs) :=
  MM.sliceDatabase_declares h hmem

/-- the statement of every label between the parentheses of the compressed proof is in the slice (`cut`: the ordered
dictionary `cut_antecedents` the slice was cut from) -/
theorem slice_labels_present {db : MDb} {deps : List (String × List String)} {incl excl : List String}
    {out : List (String × MDb)} {l : String} {sl : MDb}
    (h : sliceDatabase db deps incl excl = some out) (hmem : (l, sl) ∈ out) :
    ∃ cut ants ts pf labels, supportingDb cut deps l ts pf ants = some sl ∧ proofLabels pf = some labels ∧
      ∀ l' ∈ labels, ∃ st, cut.lookup (some l') = some st ∧ st ∈ sl := by
  obtain ⟨cut, ants, ts, pf, _, hcl, hsup⟩ := MM.cut_labelled h hmem
  obtain ⟨labels, _, _, hl, _⟩ := MM.slice_shape hsup
  exact ⟨cut, ants, ts, pf, labels, hsup, hl, MM.slice_labels_present hcl hsup hl⟩

/-- an essential hypothesis stated outside a block is in every slice cut after it -/
theorem slice_keeps_top_ess {cut : Cut} {deps : List (String × List String)} {label : String} {terms : List MTerm}
    {proof : List String} {ess : List MStmt} {sl : MDb} {l : String} {ts : List MTerm}
    (h : supportingDb cut deps label terms proof ess = some sl) (hm : (some l, MStmt.ess l ts) ∈ cut) :
    MStmt.ess l ts ∈ sl :=
  MM.slice_keeps_top_ess h hm

/-- floating hypotheses keep their database order (labels of `$f` statements not used before) -/
theorem slice_floats_in_order {db : MDb} {deps : List (String × List String)} {incl excl : List String}
    {out : List (String × MDb)} {l : String} {sl : MDb}
    (hlabels : (db.filterMap sliceKey?).Nodup)
    (h : sliceDatabase db deps incl excl = some out) (hmem : (l, sl) ∈ out) :
    (topFloats sl).Sublist (topFloats db) :=
  MM.slice_floats_in_order (floatLabelsFresh_of_nodup hlabels) h hmem

/-- disjointness: a slice is its `$c` and `$v` statements, then the ordered dictionary `cut_antecedents` filtered by
`keepEntry`, then the lemma's block; `keepEntry` turns a `$d` statement into its restriction to the metavariables
`mvs` of the slice if more than one variable remains (and drops it otherwise).  So every top-level `$d` statement seen
so far that still says something about the slice's variables is in the slice, restricted, at its original place
among the kept statements -/
theorem slice_keeps_disjointness {cut : Cut} {deps : List (String × List String)} {label : String}
    {terms : List MTerm} {proof : List String} {ess : List MStmt} {sl : MDb}
    (h : supportingDb cut deps label terms proof ess = some sl) :
    ∃ (needed mvs cs : List String),
      sl = .const cs :: (varStmtOf mvs ++ cut.filterMap (keepEntry needed mvs) ++
        [.block (ess ++ [.prov label terms proof])]) ∧
      (∀ k vs, keepEntry needed mvs (k, .disj vs) =
        if 1 < (vs.filter fun v => mvs.contains v).length then some (.disj (vs.filter fun v => mvs.contains v))
        else none) ∧
      ∀ k vs, (k, MStmt.disj vs) ∈ cut → 1 < (vs.filter fun v => mvs.contains v).length →
        MStmt.disj (vs.filter fun v => mvs.contains v) ∈ sl := by
  obtain ⟨labels, neededStmts, consts, _, _, _, hsl⟩ := MM.slice_shape h
  refine ⟨neededOf cut deps labels, stmtsMvs (.prov label terms proof :: (ess ++ neededStmts)), _, hsl,
    fun k vs => keepEntry_disj _ _ k vs, ?_⟩
  intro k vs hm hlen
  rw [hsl]
  apply List.mem_cons_of_mem
  apply List.mem_append_left
  apply List.mem_append_right
  exact mem_keptOf.2 ⟨(k, .disj vs), hm, by rw [keepEntry_disj, if_pos hlen]⟩

/-- **the slice is self-contained**: the lemma's proof, which verifies against the database, verifies against the slice -/
theorem slice_verifies {db : MDb} {deps : List (String × List String)} {incl excl : List String}
    {out : List (String × MDb)} {l : String} {sl : MDb} (hwf : WellFormedDb db)
    (h : sliceDatabase db deps incl excl = some out) (hm : (l, sl) ∈ out)
    (hv : verifyLemma db l = true) : verifyLemma sl l = true :=
  MM.slice_verifies hwf h hm hv

/-- the same when the whole database verifies (`verifyDb`: every `$p`) -/
theorem slice_verifies_of_verifyDb {db : MDb} {deps : List (String × List String)} {incl excl : List String}
    {out : List (String × MDb)} {l : String} {sl : MDb} (hwf : WellFormedDb db)
    (h : sliceDatabase db deps incl excl = some out) (hm : (l, sl) ∈ out)
    (hv : verifyDb db = true) : verifyLemma sl l = true :=
  MM.slice_verifies_of_verifyDb hwf h hm hv

/-- `WellFormedDb` is decidable: `wellFormedDbB` computes it (driver command `mmwf`) -/
theorem wellFormedDb_of_decide {db : MDb} (h : wellFormedDbB db = true) : WellFormedDb db :=
  MM.wellFormedDb_of_decide h

/-- non-vacuity: a database with top-level `$d`, rules with `$e` in blocks, two lemmas (the second cites the first)
meets the hypotheses, both lemmas verify, and so do their slices -/
theorem slice_verifies_nonvacuous :
    WellFormedDb SliceEx.exDb ∧
    sliceDatabase SliceEx.exDb [] ["th1", "th2"] [] = some [("th1", SliceEx.exSl1), ("th2", SliceEx.exSl2)] ∧
    verifyLemma SliceEx.exDb "th2" = true ∧ verifyLemma SliceEx.exSl2 "th2" = true :=
  ⟨SliceEx.exDb_wf, SliceEx.exDb_slices, SliceEx.exDb_th2, SliceEx.exSl2_verifies⟩

/-- regression fact for the repaired defect "top-level `$d` moved to the front of the slice": the database `cexDb`
(`ax1 $a |- ( foo x y ) $.  $d x y $.  th $p |- ( foo z z ) $= ( ax1 ) AAB $.`) is well-formed, its lemma verifies,
the slicer keeps the `$d` behind `ax1`, and the slice verifies (the slice of the old slicer did not) -/
theorem cex_disj_now_verifies :
    WellFormedDb SliceEx.cexDb ∧ verifyLemma SliceEx.cexDb "th" = true ∧
    sliceDatabase SliceEx.cexDb [] ["th"] [] = some [("th", SliceEx.cexSl)] ∧
    verifyLemma SliceEx.cexSl "th" = true ∧ verifyLemma SliceEx.cexSlOld "th" = false :=
  ⟨SliceEx.cexDb_wf, SliceEx.cexDb_verifies.1, SliceEx.cexDb_sliced, SliceEx.cex_disj_now_verifies,
    SliceEx.cex_disj_old_slice_fails⟩

/-- regression fact for the repaired defect "top-level `$e` dropped": `h $e |- ( foo x x ) $.` outside any block,
`th $p |- ( foo x x ) $= ( ) B $.` -/
theorem cex_top_ess_now_verifies :
    WellFormedDb SliceEx.cexEssDb ∧ verifyLemma SliceEx.cexEssDb "th" = true ∧
    sliceDatabase SliceEx.cexEssDb [] ["th"] [] = some [("th", SliceEx.cexEssSl)] ∧
    verifyLemma SliceEx.cexEssSl "th" = true ∧ verifyLemma SliceEx.cexEssSlOld "th" = false :=
  ⟨SliceEx.cexEssDb_wf, SliceEx.cexEssDb_verifies.1, SliceEx.cexEssDb_sliced, SliceEx.cex_top_ess_now_verifies,
    SliceEx.cex_top_ess_old_slice_fails⟩

/-- **the source text of the slicer is the model**: `Gen.Slicer.slice_database` is regenerated from
`metamath_extract_slice.py` on every run (generator → the list of its values; `none` = raises); `Gen.Slicer.translated`
says that every statement of the eight functions was recognised -/
theorem slicer_text_is_the_model (fuel : Nat) (db : MDb) (deps : List (String × List String)) (incl excl : List String)
    (hfuel : stmtsSize db ≤ fuel) (htok : SliceTie.tokensOk db deps = true) :
    Gen.Slicer.translated = true ∧
    Gen.Slicer.slice_database fuel db deps incl excl = sliceDatabase db deps incl excl :=
  ⟨SliceTie.translated, SliceTie.slice_database_eq_of_tokensOk fuel db deps incl excl hfuel htok⟩

/-- the same under the weakest hypothesis the proof needs (`SliceTie.KeysOk`: the labels the slicer files statements under
and the labels it looks up are not of the form `$d <n>`) -/
theorem slicer_text_is_the_model_keys (fuel : Nat) (db : MDb) (deps : List (String × List String))
    (incl excl : List String) (hfuel : stmtsSize db ≤ fuel) (hk : SliceTie.KeysOk db deps) :
    Gen.Slicer.slice_database fuel db deps incl excl = sliceDatabase db deps incl excl :=
  SliceTie.slice_database_eq fuel db deps incl excl hfuel hk

/-- the function that cuts one slice, on the Python dictionary (string keys, `'$d <n>'` for the `$d` statements) the
model's ordered dictionary stands for -/
theorem supporting_database_text_is_the_model (cut : Cut) (deps : List (String × List String)) (l : String)
    (ts : List MTerm) (pf : List String) (ess : List MStmt) (hc : SliceTie.CutOk cut)
    (hlab : ∀ labels, proofLabels pf = some labels → ∀ x ∈ labels, SliceTie.notDKey x)
    (hdeps : ∀ k v, (k, v) ∈ deps → ∀ x ∈ v, SliceTie.notDKey x) :
    Gen.Slicer.supporting_database_for_provable (SliceTie.ofCut cut) deps (.prov l ts pf) ess =
      supportingDb cut deps l ts pf ess :=
  SliceTie.supporting_database_eq cut deps l ts pf ess hc hlab hdeps

/-- **the slices computed by the translated slicer verify** (`slicer_text_is_the_model` + `slice_verifies`) -/
theorem translated_slices_verify {fuel : Nat} {db : MDb} {deps : List (String × List String)} {incl excl : List String}
    {out : List (String × MDb)} {l : String} {sl : MDb} (hwf : WellFormedDb db)
    (hfuel : stmtsSize db ≤ fuel) (htok : SliceTie.tokensOk db deps = true)
    (h : Gen.Slicer.slice_database fuel db deps incl excl = some out) (hm : (l, sl) ∈ out)
    (hv : verifyLemma db l = true) : verifyLemma sl l = true := by
  rw [SliceTie.slice_database_eq_of_tokensOk fuel db deps incl excl hfuel htok] at h
  exact MM.slice_verifies hwf h hm hv

/-- non-vacuity: the example database of `slice_verifies_nonvacuous` meets the hypotheses, and the translated slicer
produces its two slices -/
theorem translated_slicer_nonvacuous :
    SliceTie.tokensOk SliceEx.exDb [] = true ∧
    Gen.Slicer.slice_database (stmtsSize SliceEx.exDb) SliceEx.exDb [] ["th1", "th2"] [] =
      some [("th1", SliceEx.exSl1), ("th2", SliceEx.exSl2)] := by
  refine ⟨by decide, ?_⟩
  rw [SliceTie.slice_database_eq_of_tokensOk _ _ _ _ _ (Nat.le_refl _) (by decide)]
  exact SliceEx.exDb_slices

/-- **the source text of the parser is the model**: `Gen.MMAst.parse_database` (the rule functions generated from the lark
grammar, calling the translated callbacks of `ASTTransformer`) is `parseDb` on EVERY token list (`none` = raises), for every
fuel ≥ the number of tokens; the translated `parse_terms` is `parseTerms` for every `self.metavariables`; the grammar's keyword
terminals are the model's; `Gen.MMAst.translated` says that every statement of every method and every grammar rule was
recognised.  `AstTie.ofDb`: the model's AST inside the generated one (proof tokens ↦ the proof string `' '.join(tokens)`) -/
theorem parser_text_is_the_model (F : Nat) (toks : List String) (hF : toks.length ≤ F) :
    Gen.MMAst.translated = true ∧
    Gen.MMAst.parse_database F toks = (parseDb toks).map AstTie.ofDb ∧
    (∀ (self : Gen.MMAst.ASTTransformer) (G : Nat) (ts : List String), 3 * ts.length + 2 ≤ G →
      Gen.MMAst.parse_terms self G ts = parseTerms self.metavariables ts) ∧
    (∀ t : String, Gen.MMAst.keywords.contains t = isKeyword t) :=
  ⟨AstTie.translated, AstTie.parse_database_eq F toks hF, fun self G ts h => AstTie.parse_terms_eq self G ts h,
    AstTie.keywords_eq⟩

/-- **the source text of the `Encoder` is the model**: the strings the translated `Encoder` writes (`omit_proof=False`) for a
database / a statement / a term of the model, concatenated and split at the characters the grammar ignores, are `printDb` /
`printStmt` / `printTerm` — when every string in it is a lexeme (`AstTie.Lex`: non-empty, without ignored characters) -/
theorem encoder_text_is_the_model (self : Gen.MMAst.Encoder) (ho : self.omit_proof = false) :
    (∀ (db : MDb), (∀ x ∈ printDb db, AstTie.Lex x) →
      AstTie.lexTokens (MMAstSup.written (Gen.MMAst.encode self (AstTie.ofDb db))) = printDb db) ∧
    (∀ (s : MStmt), (∀ x ∈ printStmt s, AstTie.Lex x) →
      AstTie.lexTokens (MMAstSup.written (Gen.MMAst.visit_Stmt self (AstTie.ofStmt s)) ++ ['\n']) = printStmt s) ∧
    (∀ (t : MTerm), (∀ x ∈ printTerm t, AstTie.Lex x) →
      AstTie.lexTokens (MMAstSup.written (Gen.MMAst.visit_Term self t) ++ [' ']) = printTerm t) ∧
    (∀ (pf : List String), (∀ x ∈ pf, AstTie.Lex x) →
      AstTie.lexTokens ((MMAstSup.pyJoin " " pf).toList ++ [' ']) = pf) :=
  ⟨fun db h => AstTie.encode_tokens self ho db h, fun s h => AstTie.encode_stmt_tokens self ho s h,
    fun t h => AstTie.encode_term_tokens self t h, fun pf h => AstTie.proof_string_tokens pf h⟩

/-- **C17, first sentence, for the translated functions**: if the translated `parse_database` parses the lexer's tokens
`toks` to `db`, then the text the translated `Encoder` writes for `db` is lexed to `toks` again and parsed to `db` again -/
theorem print_parse_text (F : Nat) (toks : List String) (db : Gen.MMAst.Database) (self : Gen.MMAst.Encoder)
    (ho : self.omit_proof = false) (hlex : ∀ t ∈ toks, AstTie.Lex t) (hF : toks.length ≤ F)
    (h : Gen.MMAst.parse_database F toks = some db) :
    AstTie.lexTokens (MMAstSup.written (Gen.MMAst.encode self db)) = toks ∧
    Gen.MMAst.parse_database F (AstTie.lexTokens (MMAstSup.written (Gen.MMAst.encode self db))) = some db :=
  AstTie.print_parse_text F toks db self ho hlex hF h

/-- non-vacuity: the example token list of `Pi2/MM/AstThm.lean` (a `$c`, a `$v`, two `$f`, an `$a` with nested parentheses, a block
with `$e`, `$d`, `$p`) consists of lexemes, the translated parser accepts it, and it survives the round trip; the translated
parser rejects `x $a ( a ) $.` and `$c $.` -/
theorem print_parse_text_nonvacuous :
    (∀ t ∈ MM.exToks, AstTie.Lex t) ∧
    Gen.MMAst.parse_database MM.exToks.length MM.exToks = some (AstTie.ofDb MM.exDb) ∧
    AstTie.lexTokens (MMAstSup.written (Gen.MMAst.encode Gen.MMAst.Encoder.new (AstTie.ofDb MM.exDb))) = MM.exToks ∧
    Gen.MMAst.parse_database 6 ["x", "$a", "(", "a", ")", "$."] = none ∧ Gen.MMAst.parse_database 2 ["$c", "$."] = none :=
  ⟨AstTie.exToks_lex, AstTie.ex_parse, AstTie.ex_roundtrip.1, AstTie.ex_rejects.1, AstTie.ex_rejects.2⟩

/-- **`Printer` does not change the tokens** (model `MMAstSup.Printer` of utils/printer.py as repaired by 5aefd01): when `tab`
consists of characters the grammar ignores, every line that a written string ends with a newline (`AstText.callsOK`) and the last
line written (`AstText.lastLineOf`) has no trailing Python-whitespace that the grammar does not ignore (`AstText.fragOK`: `flush`
`rstrip`s it), the text `Printer` produces from the calls is lexed to the same tokens as the concatenation of the written strings;
the calls of the translated `Encoder` for a database of the model satisfy this and never fail (`AstText.Good`) whenever the strings of
the database are lexemes, and the last line it writes is empty; the condition is needed for `Printer` as such
(`write('x\xa0\ny')` prints `x\ny`) -/
theorem printer_text_is_tokens :
    (∀ (tab : String) (cs : List MMAstSup.PCall), AstText.WsOnly tab.toList → AstText.callsOK cs →
      AstText.fragOK (AstText.lastLineOf cs []) = true → ∀ text,
      MMAstSup.printerText tab cs = some text → AstTie.lexTokens text = AstTie.lexTokens (MMAstSup.written cs)) ∧
    (∀ (self : Gen.MMAst.Encoder), self.omit_proof = false → ∀ (db : MDb), (∀ x ∈ printDb db, AstTie.Lex x) →
      AstText.Good (Gen.MMAst.encode self (AstTie.ofDb db))) ∧
    (∀ (self : Gen.MMAst.Encoder) (db : Gen.MMAst.Database),
      AstText.fragOK (AstText.lastLineOf (Gen.MMAst.encode self db) []) = true) ∧
    AstText.WsOnly Gen.MMAst.Encoder.new.tab.toList ∧
    (MMAstSup.printerText "   " [.write "x\u00a0\ny"] = some "x\ny".toList ∧ AstText.linesOK "x\u00a0\ny" = false ∧
      AstTie.lexTokens "x\ny".toList ≠ AstTie.lexTokens (MMAstSup.written [.write "x\u00a0\ny"])) :=
  ⟨AstText.printer_tokens, fun self ho db h => AstText.encode_calls_ok self ho db h, AstText.encode_last_line,
    AstText.default_tab_ws, AstText.printer_rstrip_residual⟩

/-- **C17, first sentence, down to the characters `Printer` outputs**: translated parser, translated `Encoder`, `Printer` model.
`toks`: lexemes (`AstTie.Lex`: non-empty, without characters the lexer ignores) — nothing else is assumed of them -/
theorem print_parse_real_text (F : Nat) (toks : List String) (db : Gen.MMAst.Database) (self : Gen.MMAst.Encoder)
    (ho : self.omit_proof = false) (htab : AstText.WsOnly self.tab.toList) (hlex : ∀ t ∈ toks, AstTie.Lex t)
    (hF : toks.length ≤ F) (h : Gen.MMAst.parse_database F toks = some db) :
    ∃ text, MMAstSup.printerText self.tab (Gen.MMAst.encode self db) = some text ∧ AstTie.lexTokens text = toks ∧
      Gen.MMAst.parse_database F (AstTie.lexTokens text) = some db :=
  AstText.print_parse_real_text F toks db self ho htab hlex hF h

/-- regression for the defect repaired by 5aefd01: the tokens of `'\xa0 $a x $.'` (label: a no-break space) are lexemes, the
translated parser accepts them, the printed text is `'\xa0 $a x $.\n'`, which is lexed to the same tokens and parsed to the same
database; the same for the label `'\x0b'` on a continuation line inside a block -/
theorem printer_keeps_blank_label :
    ((∀ t ∈ AstText.cexToks, AstTie.Lex t) ∧ Gen.MMAst.parse_database 4 AstText.cexToks = some (AstTie.ofDb AstText.cexDb) ∧
      MMAstSup.printerText Gen.MMAst.Encoder.new.tab (Gen.MMAst.encode Gen.MMAst.Encoder.new (AstTie.ofDb AstText.cexDb)) =
        some "\u00a0 $a x $.\n".toList ∧
      AstTie.lexTokens "\u00a0 $a x $.\n".toList = AstText.cexToks ∧
      Gen.MMAst.parse_database 4 (AstTie.lexTokens "\u00a0 $a x $.\n".toList) = some (AstTie.ofDb AstText.cexDb)) ∧
    ((∀ t ∈ AstText.cexToks2, AstTie.Lex t) ∧ Gen.MMAst.parse_database 10 AstText.cexToks2 = some (AstTie.ofDb AstText.cexDb2) ∧
      MMAstSup.printerText Gen.MMAst.Encoder.new.tab (Gen.MMAst.encode Gen.MMAst.Encoder.new (AstTie.ofDb AstText.cexDb2)) =
        some "${ l $a a $.\n   \x0b $a b $. $}\n".toList ∧
      AstTie.lexTokens "${ l $a a $.\n   \x0b $a b $. $}\n".toList = AstText.cexToks2) :=
  ⟨AstText.printer_keeps_blank_label, AstText.printer_keeps_blank_label_in_block⟩

/-- the defect as it was: with the `str.isspace` test of `Printer.is_line_buffer_empty` before 5aefd01 (`MMAstSup.printerTextOld`) the
two databases were printed as `'$a x $.\n'` and `'${ l $a a $.\n   $a b $. $}\n'` — the labels gone; three tokens, rejected -/
theorem old_printer_dropped_blank_label :
    MMAstSup.printerTextOld Gen.MMAst.Encoder.new.tab (Gen.MMAst.encode Gen.MMAst.Encoder.new (AstTie.ofDb AstText.cexDb)) =
      some "$a x $.\n".toList ∧
    MMAstSup.printerTextOld Gen.MMAst.Encoder.new.tab (Gen.MMAst.encode Gen.MMAst.Encoder.new (AstTie.ofDb AstText.cexDb2)) =
      some "${ l $a a $.\n   $a b $. $}\n".toList ∧
    AstTie.lexTokens "$a x $.\n".toList = ["$a", "x", "$."] ∧ Gen.MMAst.parse_database 4 ["$a", "x", "$."] = none :=
  AstText.old_printer_dropped_blank_label

end C17

#print axioms C17.slice_verifies
#print axioms C17.printer_text_is_tokens
#print axioms C17.print_parse_real_text
#print axioms C17.printer_keeps_blank_label
#print axioms C17.old_printer_dropped_blank_label
#print axioms C17.parser_text_is_the_model
#print axioms C17.encoder_text_is_the_model
#print axioms C17.print_parse_text
#print axioms C17.print_parse_text_nonvacuous
#print axioms C17.slice_verifies_nonvacuous
#print axioms C17.slice_keeps_disjointness
#print axioms C17.slice_labels_present
#print axioms C17.cex_disj_now_verifies
#print axioms C17.cex_top_ess_now_verifies
#print axioms C17.slicer_text_is_the_model
#print axioms C17.slicer_text_is_the_model_keys
#print axioms C17.supporting_database_text_is_the_model
#print axioms C17.translated_slices_verify
#print axioms C17.translated_slicer_nonvacuous
