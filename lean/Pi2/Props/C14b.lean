import Pi2.EndToEnd2
import Pi2.Props.C14
/-!
# C14 (end to end) — the binary round trip on the TEXTS

The chain, composed here from existing theorems (helpers in `Pi2/EndToEnd2.lean`):

1. a history of interpreter calls that the tracker accepts (`PySt.trackAll` returns a state and three instruction lists);
2. the bytes the serializer methods **as written** (`Gen/Serializer.lean`, `Gen.Ser.w_*`) write along it are the encodings of
   these lists (`EndToEnd.writeAll_of_trackAll`, from `SerTie.emit_is_serializer`);
3. `deserialize_instructions` **as written** (`Gen/Deserializer.lean`: `Gen.Deser.step`, one branch per opcode, and the loop
   `Gen.Deser.run`) on these bytes, phase by phase, from a fresh interpreter — the interpreter calls it makes being made
   * on the tracker `track1` (`Gen.Deser.deserialize`, the form of `C14.deserializer_text_is_the_model`), or
   * on the methods of `StatefulInterpreter` **as written** (`Gen/PyInterp.lean`), called with the stack's own terms
     (`EndToEnd.deserializeI`: `InterpTie.pyCall` in place of `track1`; tie `InterpTie.pyCall_sound`),
   the phase switches being `StatefulInterpreter.into_claim_phase` / `into_proof_phase` as written
   (`InterpTie.into_claim_phase_tie`);
4. whenever that run returns (outer `some`: no comparison ran out of fuel, no call outside the modelled interface), it returns a
   state — not an exception — equal to the history's final state up to notation: phase, stack, memory, claims after expansion,
   and the symbol table (`StEqX`, the equality of `C14.deserialize_replays_history`; symbols are numbered by first occurrence —
   `CanonTab` / `CallOK` — so the serializer's renumbering is the identity).

## Hypotheses

* `ShapeSt`, `CanonTab`, `CallsOK` (per phase: `ModOK`): those of `C14.deserialize_replays_history`; decidable on a concrete
  history (`EndToEnd.modOKB`).
* `Call.keysNodup` for every call of the history (decidable): the keys of an `instantiate` / `instantiate_pattern` are pairwise
  different — they are the keys of a Python `dict`.  Forced: `keys_excluded_point` (the model's `Call` can repeat a key, Python's
  `dict(..)` in the deserialiser merges the entries; `C14.deserializer_duplicate_keys_outside_model`).
* NOT a hypothesis: `DeserTie.PrecheckAlong` of `C14.deserializer_text_is_the_model` (the deserialiser's own claim test
  `claims[0].pattern != theorem.conclusion` agrees with the tracker's `conclusion == claim`).  On a serialised history the proof
  on the stack proves the claim, so a run that gets past a `Publish` without running out of fuel has had both comparisons
  answer `True` (`EndToEnd.precheck_of_exec`, `EndToEnd.pubOKAlong_emit`).
-/
set_option linter.unusedVariables false
namespace C14
open PySt EndToEnd

/-! ## 1. one phase -/

/-- **round trip for a phase, on the texts.**  A history `cs` of one phase that the tracker accepts from `s` (hypotheses of
`deserialize_replays_history`, and pairwise different `instantiate` keys): the serializer as written writes `encode is` to the
stream of the phase (appending to what it held: `out`), and `deserialize_instructions` as written, run on these bytes from
`s` — on the tracker or on `StatefulInterpreter` as written — ends, whenever it returns, in the history's final state `s'` up
to notation. -/
theorem roundtrip_text_phase (n k : Nat) (cs : List Call) (s s' : PySt) (g c p g' c' p' : List Instr)
    (hS : ShapeSt s) (hT : CanonTab s.symtab) (hok : CallsOK n s cs) (hkeys : ∀ x ∈ cs, x.keysNodup = true)
    (h : PySt.trackAll n s cs (g, c, p) = some (some (s', (g', c', p')))) :
    ∃ is, (g', c', p') = addOut s.phase (g, c, p) is ∧
      writeAll n s cs (encode g, encode c, encode p) = some (some (s', (encode g', encode c', encode p'))) ∧
      (∀ r, Gen.Deser.deserialize k s (encode is) = some r → ∃ t', r = some t' ∧ StEqX s' t') ∧
      (∀ r, deserializeI k s (encode is) = some r → ∃ t', r = some t' ∧ StEqX s' t') := by
  obtain ⟨is, hout, _, _, hrt⟩ := roundtrip_phaseG n k (PyDeser.exec k) (execSound_exec k) cs s s s' _ _
    (StEqG.refl true s) hS hS hT hok hkeys h
  obtain ⟨is', hout', _, _, hrtI⟩ := roundtrip_phaseG n k (execI k) (execI_sound k) cs s s s' _ _
    (StEqG.refl true s) hS hS hT hok hkeys h
  have : is' = is := by
    rw [hout] at hout'
    cases hph : s.phase <;> simp only [hph, addOut, Prod.mk.injEq, List.append_cancel_left_eq] at hout'
    · exact hout'.1.symm
    · exact hout'.2.1.symm
    · exact hout'.2.2.symm
  subst this
  refine ⟨is', hout, writeAll_of_trackAll n cs s s' g c p g' c' p' h, fun r hr => ?_, fun r hr => ?_⟩
  · rw [deserialize_eq_runWith] at hr
    obtain ⟨t', rfl, hE, _⟩ := hrt r hr
    exact ⟨t', rfl, hE.toX⟩
  · obtain ⟨t', rfl, hE, _⟩ := hrtI r hr
    exact ⟨t', rfl, hE.toX⟩

/-! ## 2. a whole module, phase by phase -/

/-- **round trip, on the texts** (C14).  A module's history — Γ phase `gs`, `into_claim_phase`, claim phase `cls`,
`into_proof_phase`, proof phase `pfs` — that the tracker accepts from the initial state (hypotheses of
`deserialize_replays_history` per phase: `ModOK`; well-shaped claims; pairwise different `instantiate` keys):

* the serializer as written (`writeAll`: the bytes of `Gen.Ser.w_*` call by call) writes `encode g`, `encode c`, `encode p`;
* these three byte streams, fed phase by phase to `deserialize_instructions` as written running on a fresh interpreter — the
  tracker (`deserMod`) or `StatefulInterpreter` as written (`deserModI`), switching phases by `into_claim_phase` /
  `into_proof_phase` as written —, end, whenever the run returns, not in an exception but in a state equal to the history's
  final state up to notation: same phase, stack, memory and claims after expansion, same symbol table (`StEqX`). -/
theorem roundtrip_text (n k : Nat) (claims : List NPat) (gs cls pfs : List Call) (s' : PySt) (g c p : List Instr)
    (hclaims : ∀ q ∈ claims, q.Shape = true)
    (hok : ModOK n claims gs cls pfs)
    (hkeys : ∀ x ∈ gs ++ cls ++ pfs, x.keysNodup = true)
    (hT : PySt.trackAll n (PySt.init claims) (gs ++ .intoClaim :: (cls ++ .intoProof :: pfs)) ([], [], [])
      = some (some (s', (g, c, p)))) :
    writeAll n (PySt.init claims) (gs ++ .intoClaim :: (cls ++ .intoProof :: pfs)) ([], [], [])
      = some (some (s', (encode g, encode c, encode p))) ∧
    (Gen.Ser.translated = true ∧ Gen.Deser.translated = true ∧ Gen.PyInterp.translated = true) ∧
    (∀ r, deserMod k (PySt.init claims) (encode g) (encode c) (encode p) = some r → ∃ t', r = some t' ∧ StEqX s' t') ∧
    (∀ r, deserModI k (PySt.init claims) (encode g) (encode c) (encode p) = some r → ∃ t', r = some t' ∧ StEqX s' t') := by
  refine ⟨writeAll_of_trackAll_init n _ _ s' g c p hT, ⟨SerTie.translated, DeserTie.translated, InterpTie.translated⟩,
    fun r hr => ?_, fun r hr => ?_⟩
  · obtain ⟨t', rfl, hE, _⟩ := roundtrip_modG n k (PyDeser.exec k) (execSound_exec k) claims gs cls pfs s' g c p hclaims hok
      hkeys hT r hr
    exact ⟨t', rfl, hE.toX⟩
  · obtain ⟨t', rfl, hE, _⟩ := roundtrip_modG n k (execI k) (execI_sound k) claims gs cls pfs s' g c p hclaims hok
      hkeys hT r hr
    exact ⟨t', rfl, hE.toX⟩

/-- what `deserMod` is: `Gen.Deser.deserialize` (the object of `deserializer_text_is_the_model`) per phase -/
theorem deserMod_is_deserialize (k : Nat) (t : PySt) (gb cb pb : List Nat) :
    deserMod k t gb cb pb =
      PyI.call (Gen.Deser.deserialize k t gb) fun t1 =>
      PyI.call (Gen.PyInterp.Stateful.into_claim_phase t1) fun t1' =>
      PyI.call (Gen.Deser.deserialize k t1' cb) fun t2 =>
      PyI.call (Gen.PyInterp.Stateful.into_proof_phase t2) fun t2' =>
      Gen.Deser.deserialize k t2' pb := deserMod_eq k t gb cb pb

/-! ## 3. truncated or unknown input is an error in the texts -/

/-- an undecodable stream: the loop as written — on the tracker and on `StatefulInterpreter` as written — never completes;
it raises (`some none`) or, in the fuelled model of `==`, runs out of fuel in a call made for the decodable head -/
theorem undecodable_text (n : Nat) (s : PySt) (bs : List Nat) (hd : decode bs = none) :
    (Gen.Deser.deserialize n s bs = some none ∨ Gen.Deser.deserialize n s bs = none) ∧
    (deserializeI n s bs = some none ∨ deserializeI n s bs = none) :=
  ⟨(deserializer_text_undecodable n s bs hd).2,
    runWith_undecodable n (execI n) (execReads_execI n) bs.length s bs (Nat.le_refl _) hd⟩

/-- a stream that ends inside an instruction is never deserialised to a state: not skipped -/
theorem truncated_is_error_text (n : Nat) (s : PySt) (pre : List Instr) (i : Instr) (cut suf : List Nat)
    (h : encode1 i = cut ++ suf) (hcut : cut ≠ []) (hsuf : suf ≠ []) :
    (∀ t, Gen.Deser.deserialize n s (encode pre ++ cut) ≠ some (some t)) ∧
    (∀ t, deserializeI n s (encode pre ++ cut) ≠ some (some t)) := by
  obtain ⟨h1, h2⟩ := undecodable_text n s _ (C05.truncated_rejected pre i cut suf h hcut hsuf)
  exact ⟨fun t e => by rcases h1 with h1 | h1 <;> simp [h1] at e, fun t e => by rcases h2 with h2 | h2 <;> simp [h2] at e⟩

/-- a stream with an unknown opcode byte is never deserialised to a state: not skipped -/
theorem unknown_is_error_text (n : Nat) (s : PySt) (pre : List Instr) (b : Nat) (rest : List Nat) (h : b ∉ validOps) :
    (∀ t, Gen.Deser.deserialize n s (encode pre ++ b :: rest) ≠ some (some t)) ∧
    (∀ t, deserializeI n s (encode pre ++ b :: rest) ≠ some (some t)) := by
  obtain ⟨h1, h2⟩ := undecodable_text n s _ (C05.unknown_opcode_rejected pre b rest h)
  exact ⟨fun t e => by rcases h1 with h1 | h1 <;> simp [h1] at e, fun t e => by rcases h2 with h2 | h2 <;> simp [h2] at e⟩

/-- an unknown opcode byte at the head of the stream raises at once, in both -/
theorem unknown_head_raises_text (n : Nat) (s : PySt) (b : Nat) (rest : List Nat) (h : b ∉ validOps) :
    Gen.Deser.deserialize n s (b :: rest) = some none ∧ deserializeI n s (b :: rest) = some none := by
  have hd : decode1 (b :: rest) = none := _root_.decode1_badOpcode b rest h
  have hr := DeserTie.step_reads n s b rest
  rw [hd] at hr
  simp only [DeserTie.reads] at hr
  constructor
  · simp [Gen.Deser.deserialize, Gen.Deser.run, hr, PyDeser.exec]
  · simp [deserializeI, runWith, hr, execI]

/-! ## 4. the excluded point of `keysNodup` -/

/-- the history `metavar 0; metavar 1; metavar 2; instantiate_pattern [2, 2]` (a key repeated: not a Python `dict`) is accepted
by the tracker model, the serializer writes `DeserTie.dupKeys`, and the deserialiser as written ends with two stack entries
where the history ended with one: without `keysNodup` the round trip fails -/
theorem keys_excluded_point :
    let cs : List Call := [.metavar 0 [] [] [] [] [], .metavar 1 [] [] [] [] [], .metavar 2 [] [] [] [] [],
      .instantiatePattern [2, 2]]
    (cs.all Call.keysNodup = false) ∧ callsOKB 5 (PySt.init []) cs = true ∧
    ((writeAll 5 (PySt.init []) cs ([], [], [])).bind id).map (fun r => (r.1.stack.length, r.2.1)) = some (1, DeserTie.dupKeys) ∧
    ((Gen.Deser.deserialize 5 (PySt.init []) DeserTie.dupKeys).bind id).map (·.stack.length) = some 2 := by
  decide

/-! ## 5. non-vacuity: the history of `PFExample.mod` (the module of `C02.EndToEndExample`) -/

namespace RoundTripExample
open PFExample

/-- Γ phase of the history `PModule.executeFull {} 40 mod` returns: the axiom `s0 → s1 → ⊥` -/
def gs : List Call := [.symbol 0, .symbol 1, .svar 0, .mu 0, .instantiatePattern [], .implies, .implies, .publishAxiom]
/-- claim phase: the axiom again and `φ0 → φ0` -/
def cls : List Call := [.symbol 0, .symbol 1, .svar 0, .mu 0, .instantiatePattern [], .implies, .implies, .publishClaim,
  .metavar 0 [] [] [] [] [], .metavar 0 [] [] [] [] [], .implies, .publishClaim]
/-- proof phase: `imp_refl` (two `instantiate` with non-empty dicts, two `modus_ponens`), then the axiom by `load` -/
def pfs : List Call := [.metavar 0 [] [] [] [] [], .metavar 0 [] [] [] [] [], .implies, .metavar 0 [] [] [] [] [], .prop2,
  .instantiate [1, 2], .metavar 0 [] [] [] [] [], .metavar 0 [] [] [] [] [], .implies, .prop1, .instantiate [1], .mp,
  .metavar 0 [] [] [] [] [], .prop1, .instantiate [1], .mp, .publishProof,
  .load (.proved (.imp (.sym 0) (.imp (.sym 1) (.inst (.mu 0 (.svar 0)) [])))), .publishProof]

def calls : List Call := gs ++ .intoClaim :: (cls ++ .intoProof :: pfs)

/-- it is the history the model run of `mod` returns (the one `C02.EndToEndExample` serialises) -/
theorem calls_is_mod : (PModule.executeFull {} 40 mod).map (·.map (·.2)) = some (some calls) := by rfl

/-- the bytes the serializer writes along it are those of `C02.EndToEndExample.mod_bytes` -/
theorem calls_bytes :
    ((writeAll 40 (PySt.init mod.claimsOf) calls ([], [], [])).bind id).map (·.2) =
    some ([4, 0, 4, 1, 3, 0, 7, 0, 26, 0, 5, 5, 30],
          [4, 0, 4, 1, 3, 0, 7, 0, 26, 0, 5, 5, 30, 137, 0, 137, 0, 5, 30],
          [137, 0, 137, 0, 5, 137, 0, 13, 26, 2, 2, 1, 137, 0, 137, 0, 5, 12, 26, 1, 1, 21, 137, 0, 12, 26, 1, 1, 21,
           30, 29, 0, 30]) := by
  decide +kernel

/-- every hypothesis of `roundtrip_text` in decidable form, and both runs of the deserialiser return a state (so the
conclusion is not vacuous either): fuel 40 on both sides -/
def check : Bool :=
  mod.claimsOf.all NPat.Shape && modOKB 40 mod.claimsOf gs cls pfs && (gs ++ cls ++ pfs).all Call.keysNodup &&
  (match PySt.trackAll 40 (PySt.init mod.claimsOf) calls ([], [], []) with
   | some (some (_, (g, c, p))) =>
     (match deserMod 40 (PySt.init mod.claimsOf) (encode g) (encode c) (encode p) with
      | some (some _) => true | _ => false) &&
     (match deserModI 40 (PySt.init mod.claimsOf) (encode g) (encode c) (encode p) with
      | some (some _) => true | _ => false)
   | _ => false)

theorem check_true : check = true := by decide +kernel

/-- **all hypotheses of `roundtrip_text` hold of the history of `mod`**, and both deserialisations return: the bytes the
serializer as written wrote, deserialised as written on a fresh tracker / a fresh `StatefulInterpreter` as written, end in the
history's final state up to notation -/
theorem mod_roundtrip :
    ∃ (s' : PySt) (gb cb pb : List Nat) (t tI : PySt),
      writeAll 40 (PySt.init mod.claimsOf) calls ([], [], []) = some (some (s', (gb, cb, pb))) ∧
      deserMod 40 (PySt.init mod.claimsOf) gb cb pb = some (some t) ∧ StEqX s' t ∧
      deserModI 40 (PySt.init mod.claimsOf) gb cb pb = some (some tI) ∧ StEqX s' tI := by
  have h := check_true
  simp only [check, Bool.and_eq_true, List.all_eq_true] at h
  obtain ⟨⟨⟨hsh, hok⟩, hkeys⟩, hrun⟩ := h
  split at hrun
  · rename_i s' g c p hT
    simp only [Bool.and_eq_true] at hrun
    obtain ⟨hW, _, hD, hDI⟩ := roundtrip_text 40 40 mod.claimsOf gs cls pfs s' g c p hsh
      (modOKB_sound 40 _ gs cls pfs hok) hkeys hT
    obtain ⟨h1, h2⟩ := hrun
    split at h1
    · rename_i t ht
      split at h2
      · rename_i tI htI
        obtain ⟨t', e, hx⟩ := hD _ ht
        cases e
        obtain ⟨tI', e, hxI⟩ := hDI _ htI
        cases e
        exact ⟨s', encode g, encode c, encode p, t, tI, hW, ht, hx, htI, hxI⟩
      · exact absurd h2 (by simp)
    · exact absurd h1 (by simp)
  · exact absurd hrun (by simp)

end RoundTripExample

end C14

#print axioms C14.roundtrip_text_phase
#print axioms C14.roundtrip_text
#print axioms C14.deserMod_is_deserialize
#print axioms C14.undecodable_text
#print axioms C14.truncated_is_error_text
#print axioms C14.unknown_is_error_text
#print axioms C14.unknown_head_raises_text
#print axioms C14.keys_excluded_point
#print axioms C14.RoundTripExample.calls_is_mod
#print axioms C14.RoundTripExample.calls_bytes
#print axioms C14.RoundTripExample.check_true
#print axioms C14.RoundTripExample.mod_roundtrip
