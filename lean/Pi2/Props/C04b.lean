import Pi2.Props.C04
import Pi2.Props.C07
import Pi2.InterpTie
/-!
# C04 / C07 / C08 — the interpreter classes as written are the tracker model

`Pi2/Gen/PyInterp.lean` is regenerated on every run from `basic_interpreter.py` and `stateful_interpreter.py`
(`vlib/transinterp.py`: every method, statement by statement).  `Pi2/InterpTie.lean` proves the generated
`BasicInterpreter` rules equal to `NPat.pyMP / pyGen / pyInst` (C07) and every generated `StatefulInterpreter` method,
called with the terms that are on its stack (`pyCall`: the calling convention of every real caller, which the model
`track1` builds in), equal to `track1` (C04, C08) — up to the fuel the reflexive `assert expected == argument`
comparisons cost.  (A separate module because `InterpTie` needs the fuel-monotonicity lemmas of `Pi2.MM.Mono`.)
-/
namespace C04
open InterpTie

/-- every method of both classes is covered by the translator and has a tie theorem -/
theorem interpreters_translated : Gen.PyInterp.translated = true := InterpTie.translated

/-- whatever the tracker as written answers, the model answers -/
theorem tracker_text_sound (n : Nat) (s : PySt) (c : Call) (g : Option (Option PySt)) (r : Option PySt)
    (hsh : ShapeStack s) (hg : pyCall n s c = some g) (hr : g = some r) : PySt.track1 n s c = some r :=
  pyCall_sound n s c g r hsh hg hr

/-- at a fuel that suffices to compare the stack entries with themselves the two coincide (also on "out of fuel") -/
theorem tracker_text_is_the_model (n : Nat) (s : PySt) (c : Call) (g : Option (Option PySt))
    (hsh : ShapeStack s) (hse : SelfEq n s) (hg : pyCall n s c = some g) : g = PySt.track1 n s c :=
  pyCall_exact n s c g hsh hse hg

/-- an answer of the model is the tracker's answer at every larger fuel that suffices for the reflexive comparisons -/
theorem tracker_text_complete (n m : Nat) (s : PySt) (c : Call) (g : Option (Option PySt)) (r : Option PySt)
    (hsh : ShapeStack s) (ht : PySt.track1 n s c = some r) (hnm : n ≤ m) (hse : SelfEq m s)
    (hg : pyCall m s c = some g) : g = some r :=
  pyCall_complete n m s c g r hsh ht hnm hse hg

/-- when the stack does not hold arguments of the types the method's signature demands, the model raises -/
theorem tracker_text_ill_typed (n : Nat) (s : PySt) (c : Call) (h : pyCall n s c = none) :
    PySt.track1 n s c = some none :=
  pyCall_none n s c h

end C04

namespace C07
open InterpTie Gen.PyInterp

/-- `BasicInterpreter.modus_ponens / exists_generalization / instantiate` as written are the rules C07 is stated about -/
theorem basic_rules_text_is_the_model :
    (∀ n a b, Basic.modus_ponens n ⟨a⟩ ⟨b⟩ = (NPat.pyMP n a b).map (Option.map Proved.mk)) ∧
    (∀ n a x, Basic.exists_generalization n ⟨a⟩ x = (NPat.pyGen n a x).map (Option.map Proved.mk)) ∧
    (∀ n a δ, Basic.instantiate n ⟨a⟩ δ = (NPat.pyInst n a δ).map (fun c => some ⟨c⟩)) :=
  ⟨modus_ponens_eq, exists_generalization_eq, instantiate_eq⟩

end C07
