import Pi2.KDefTieM8
import Pi2.KDefTieM9
import Pi2.KDefTieM10
import Pi2.Props.C20e
/-!
# C20 — the GENERAL several-module tie: `from_kore_definition` as translated IS `sigOfDefinitionM`

`kore_definition_text_is_the_model_multi`: for EVERY definition `d` of the decidable fragment `InFragmentM` (no module imports itself; every
sort name and every symbol name is declared at most once in the whole definition — NOT strengthened: imports of later / unknown modules,
duplicate module names, duplicate imports, sorts that are not visible are refused by the specification exactly as by the text), EVERY valid
set order `so`, every fuel `n ≥ (number of modules) + 1` (so in particular `≥ … + 2`): the generated `from_kore_definition` raises exactly
when `sigOfDefinitionM d` refuses; otherwise it returns a store `h` whose signature is `sigOfDefinitionM`'s (the declarations of ALL modules),
on which `get_axiom ordinal` is exactly the rule with that ordinal among those the main (= last) module reaches (`mainOrdinals`; `ValueError`
for every other ordinal), whose cached scope per ordinal is the scope of the rule with that ordinal among the rules of ALL modules
(`allRulesOfDefinition`: also of those `get_axiom` does not find), and on which `get_sort`, `get_symbol`, `resolve_to_ksymbol` are the lookups
in the signature.  Same shape as the one-module `C20.kore_definition_text_is_the_model`.

Built from `Pi2/KDefTieM8.lean` (the outer step: `LanguageSemantics.module`, `__enter__` / `__exit__`, the loop over the modules against
`addModules`; the generated function is literally that loop around `sentenceBody`, by `rfl`) and `Pi2/KDefTieM9.lean` (the queries on the
finished store from the `Found` lemmas: `cl` against `reach`, ordinal uniqueness, global symbol-name uniqueness).
`kore_definition_representsM` / `proof_hints_text_is_the_model_multi` / `k_pipeline_text_is_the_model_multi` (`Pi2/KDefTieM10.lean`): the
returned store stands for `sigOfDefinitionM d` in the sense `RepresentsM` (answers `get_axiom`, holds the cached scopes, has the signature),
`get_proof_hints` on such a store is `traceStepsR` and keeps `RepresentsM`, and the whole pipeline ends in the model's `traceF`.
`diamond_tie`, `island_tie`, `diamond_hints`: the theorems instantiated on the diamond of four modules and on the variant with an unreachable rule, for EVERY valid
set order (non-vacuity: both are in the fragment and accepted).
-/
namespace C20
section MultiFinal
open PyI PyM PyK Kore Gen.PyKDef KDefSpec KDefTie KDefTieM KDefTieM2

theorem notSelf_of_fragment {d : KDefinition} (hf : InFragmentM d) :
    ∀ m ∈ d.modules, ∀ s ∈ m.sentences, NotSelfImport m.name s := by
  unfold InFragmentM inFragmentM at hf
  simp only [Bool.and_eq_true, List.all_eq_true, decide_eq_true_eq] at hf
  obtain ⟨⟨h1, _⟩, _⟩ := hf
  intro m hm s hs
  have := h1 m hm s hs
  cases s <;> simp [selfImport, NotSelfImport] at this ⊢
  exact this

theorem symbols_nodup_of_fragment {d : KDefinition} (hf : InFragmentM d) : (declaredSymbols d).Nodup := by
  unfold InFragmentM inFragmentM at hf
  simp only [Bool.and_eq_true, decide_eq_true_eq] at hf
  exact hf.2

/-- `LanguageSemantics.from_kore_definition`, as translated from the source text, on ANY definition of the several-module fragment, for every
valid set order and every fuel `≥` (number of modules) `+ 1` -/
theorem kore_definition_text_is_the_model_multi (so : SetOrder) (hso : so.Valid) (n : Nat) (d : KDefinition) (hf : InFragmentM d)
    (hn : d.modules.length + 1 ≤ n) :
    Gen.PyKDef.translated = true ∧
    match sigOfDefinitionM d with
    | none => LanguageSemantics.from_kore_definition so n d = raise
    | some ds => ∃ h allRules, LanguageSemantics.from_kore_definition so n d = ret h ∧
        allRulesOfDefinition d = some allRules ∧
        sigView h = ds.sg ∧
        (∀ o, LanguageSemantics.get_axiom n h o = some ((ds.rule? o).map axiomOf)) ∧
        (∀ o, h._cached_axiom_scopes.lookup o = (allRules.find? (·.ordinal == o)).map fun ru => scopeObj ru.scope) ∧
        (∀ k, (LanguageSemantics.get_sort so n h k).map (Option.map fun s => s.name)
            = some (if ds.sg.sorts.contains k then some k else none)) ∧
        (∀ k, (LanguageSemantics.get_symbol so n h k).map (Option.map symDeclOf) = some (ds.sg.symbols.find? (·.name == k))) ∧
        (∀ s, (LanguageSemantics.resolve_to_ksymbol so n h (.sym s)).map (Option.map (Option.map symDeclOf))
            = ret (if s ≥ 2001 ∧ s < 100000 ∧ (s - 2001) % 2 = 0 then ds.sg.symbols.find? (·.name == (s - 2001) / 2) else none)) := by
  refine ⟨KDefTie.translated, ?_⟩
  have h1 := from_kore_definition_modules so hso n d (notSelf_of_fragment hf) hn
  unfold sigOfDefinitionM allRulesOfDefinition
  cases hm : modulesOfDefinition d with
  | none => rw [hm] at h1; exact h1
  | some a =>
    rw [hm] at h1
    obtain ⟨b, hb, hp, hl, he⟩ := h1
    obtain ⟨hsyms, hord⟩ := modulesOfDefinition_facts hm
    subst hp
    have hnodup : ((projF b).1.sg.symbols.map (·.name)).Nodup := by rw [hsyms]; exact symbols_nodup_of_fragment hf
    have hn' : b.fin.length + 1 ≤ n := by omega
    exact ⟨heapF (some false) b, (projF b).1.rules, he, rfl, sigView_heapF _ b, get_axiom_final _ hb hord n hn', cached_final _ b,
      get_sort_final so hso _ hb n hn', get_symbol_final' so hso _ hb hnodup n hn', resolve_final so hso _ hb hnodup n hn'⟩

/-- the statement with the fuel bound of the task: fuel `≥` (number of modules) `+ 2` -/
theorem kore_definition_text_is_the_model_multi' (so : SetOrder) (hso : so.Valid) (n : Nat) (d : KDefinition) (hf : InFragmentM d) :
    match sigOfDefinitionM d with
    | none => LanguageSemantics.from_kore_definition so (n + d.modules.length + 2) d = raise
    | some ds => ∃ h, LanguageSemantics.from_kore_definition so (n + d.modules.length + 2) d = ret h ∧ sigView h = ds.sg ∧
        ∀ o, LanguageSemantics.get_axiom (n + d.modules.length + 2) h o = some ((ds.rule? o).map axiomOf) := by
  have h := (kore_definition_text_is_the_model_multi so hso (n + d.modules.length + 2) d hf (by omega)).2
  cases hs : sigOfDefinitionM d with
  | none => rw [hs] at h; exact h
  | some ds =>
    rw [hs] at h
    obtain ⟨h', _, h1, _, h2, h3, _⟩ := h
    exact ⟨h', h1, h2, h3⟩

/-- the (finished) store `h` answers `get_axiom` and holds the cached scopes like the rules of `ds`, and has its signature — what
`get_proof_hints` needs of a semantics (the several-module counterpart of `KDefTie.Represents`; it is kept by `get_proof_hints`) -/
def RepresentsM (n : Nat) (h : PyLS) (ds : DefSem) : Prop := HintInv n ds.sg h ds.rules

/-- `from_kore_definition` returns a semantics that stands for `sigOfDefinitionM d` -/
theorem kore_definition_representsM (so : SetOrder) (hso : so.Valid) (n : Nat) (d : KDefinition) (hf : InFragmentM d)
    (hn : d.modules.length + 1 ≤ n) :
    match sigOfDefinitionM d with
    | none => LanguageSemantics.from_kore_definition so n d = raise
    | some ds => ∃ h, LanguageSemantics.from_kore_definition so n d = ret h ∧ RepresentsM n h ds := by
  have h1 := from_kore_definition_modules so hso n d (notSelf_of_fragment hf) hn
  unfold sigOfDefinitionM
  cases hm : modulesOfDefinition d with
  | none => rw [hm] at h1; exact h1
  | some a =>
    rw [hm] at h1
    obtain ⟨b, hb, hp, hl, he⟩ := h1
    obtain ⟨_, hord⟩ := modulesOfDefinition_facts hm
    subst hp
    exact ⟨heapF (some false) b, he, hintInv_final _ hb hord n (by omega)⟩

/-- `get_proof_hints`, as translated, on a several-module semantics that stands for `ds`: it raises exactly when `traceStepsR` has no steps
for the trace; otherwise it yields the hints of the steps and leaves a semantics that stands for `ds` with the extended scopes -/
theorem proof_hints_text_is_the_model_multi (n : Nat) (h : PyLS) (ds : DefSem) (hr : RepresentsM n h ds) (tr : PyLLVMTrace) :
    match traceStepsR ds tr with
    | none => get_proof_hints n h tr = raise
    | some (_, rules', steps) =>
        ∃ h', get_proof_hints n h tr = ret (h', steps.map hintOf) ∧ RepresentsM n h' { ds with rules := rules' } :=
  get_proof_hints_inv n h ds hr tr

/-- END TO END for several modules, all from translated text (shape of `k_pipeline_text_is_the_model`) -/
theorem k_pipeline_text_is_the_model_multi (so : SetOrder) (hso : so.Valid) (n k : Nat) (d : KDefinition) (hf : InFragmentM d)
    (hn : d.modules.length + 1 ≤ n) (ds : DefSem)
    (hd : sigOfDefinitionM d = some ds) (tr : PyLLVMTrace) (init : NPat) (s0 : Step) (ss : List Step)
    (ht : traceSteps ds tr = some (init, s0 :: ss)) (hrw : ∀ s ∈ s0 :: ss, s.rule.kind = .rewrite) :
    ∃ ls ls' hints,
      LanguageSemantics.from_kore_definition so n d = ret ls ∧
      get_proof_hints n ls tr = ret (ls', hints) ∧
      sigView ls' = ds.sg ∧
      (Gen.PyKore.ExecutionProofExp.from_proof_hints k hints (semView ls')
          = (match traceF ds.sg k (initSt init) (modelSteps (s0 :: ss)) with
             | none => none
             | some none => some none
             | some (some st) => ret (some (KoreTie.withSt (Gen.PyKore.ExecutionProofExp.__init__ (semView ls') init) st)))
        ∨ (traceF ds.sg k (initSt init) (modelSteps (s0 :: ss)) = none
            ∧ Gen.PyKore.ExecutionProofExp.from_proof_hints k hints (semView ls') = some none)) := by
  have h1 := kore_definition_representsM so hso n d hf hn
  rw [hd] at h1
  obtain ⟨ls, hls, hrep⟩ := h1
  have h2 := proof_hints_text_is_the_model_multi n ls ds hrep tr
  simp only [traceSteps] at ht
  cases htr : traceStepsR ds tr with
  | none => simp [htr] at ht
  | some x =>
    obtain ⟨init', rules', steps⟩ := x
    simp [htr] at ht
    obtain ⟨rfl, rfl⟩ := ht
    rw [htr] at h2
    obtain ⟨ls', hg, hrep'⟩ := h2
    have hsig : sigView ls' = ds.sg := hrep'.sig
    refine ⟨ls, ls', _, hls, hg, hsig, ?_⟩
    have hbefore : s0.before = init' := by
      simp only [traceStepsR, Option.bind_eq_bind, Option.bind_eq_some_iff] at htr
      obtain ⟨i, _, y, hy, he⟩ := htr
      simp at he
      obtain ⟨rfl, rfl, hs⟩ := he
      obtain ⟨y1, y2⟩ := y
      simp only at hs; subst hs
      exact stepsF_first hy
    have hall := allRewriting_hints (s0 :: ss) hrw
    have := KoreTie.from_proof_hints_eq k (semView ls') (hintOf s0) (ss.map hintOf) hall
    have hsteps : ((hintOf s0 :: ss.map hintOf).map KoreTie.stepOf) = modelSteps (s0 :: ss) := by
      simp [modelSteps, stepOf_hintOf, Function.comp_def]
    have hsg : (semView ls').sg = ds.sg := hsig
    have hcb : (hintOf s0).configuration_before = init' := hbefore
    rw [hsteps, hsg, hcb] at this
    exact this

end MultiFinal

/-! ## non-vacuity: the diamond of four modules, EVERY valid set order -/
namespace ExampleMulti
open PyI PyM PyK Kore Gen.PyKDef KDefSpec KDefTie KDefTieM KDefTieM2

theorem island_in_fragment : InFragmentM island := by decide +kernel
theorem diamond_accepted : (sigOfDefinitionM diamond).isSome = true := by decide +kernel
theorem island_accepted : (sigOfDefinitionM island).isSome = true := by decide +kernel

/-- the general theorem on the diamond: for EVERY valid set order (fuel 5) the generated builder returns a store with the specification's
signature and `get_axiom` -/
theorem diamond_tie (so : SetOrder) (hso : so.Valid) :
    ∃ ds h, sigOfDefinitionM diamond = some ds ∧ LanguageSemantics.from_kore_definition so 5 diamond = ret h ∧ sigView h = ds.sg ∧
      (∀ o, LanguageSemantics.get_axiom 5 h o = some ((ds.rule? o).map axiomOf)) ∧
      (∀ k, (LanguageSemantics.get_symbol so 5 h k).map (Option.map symDeclOf) = some (ds.sg.symbols.find? (·.name == k))) := by
  have h := (kore_definition_text_is_the_model_multi so hso 5 diamond diamond_in_fragment (by decide)).2
  cases hs : sigOfDefinitionM diamond with
  | none => have := diamond_accepted; rw [hs] at this; cases this
  | some ds =>
    rw [hs] at h
    obtain ⟨h', _, h1, _, h2, h3, _, _, h6, _⟩ := h
    exact ⟨ds, h', rfl, h1, h2, h3, h6⟩

/-- the pipeline on the diamond and the hint stream `b =[2]=> f(a) =[1, X ↦ a]=> a`, for EVERY valid set order: the specification has steps
(`decide`), so the generated `from_kore_definition` and `get_proof_hints` return, and `from_proof_hints` is the model's `traceF` -/
theorem diamond_hints (so : SetOrder) (hso : so.Valid) :
    ∃ ds ls ls' hints, sigOfDefinitionM diamond = some ds ∧ LanguageSemantics.from_kore_definition so 5 diamond = ret ls ∧
      get_proof_hints 5 ls trace = ret (ls', hints) ∧ hints.length = 2 ∧ sigView ls' = ds.sg := by
  have h1 := kore_definition_representsM so hso 5 diamond diamond_in_fragment (by decide)
  cases hs : sigOfDefinitionM diamond with
  | none => have := diamond_accepted; rw [hs] at this; cases this
  | some ds =>
    rw [hs] at h1
    obtain ⟨ls, hls, hrep⟩ := h1
    have h2 := proof_hints_text_is_the_model_multi 5 ls ds hrep trace
    have hlen : ((sigOfDefinitionM diamond).bind fun ds => (traceStepsR ds trace).map fun x => x.2.2.length) = some 2 := by decide +kernel
    rw [hs] at hlen
    cases htr : traceStepsR ds trace with
    | none => simp [htr] at hlen
    | some x =>
      obtain ⟨i, r, st⟩ := x
      rw [htr] at h2
      simp [htr] at hlen
      obtain ⟨ls', hg, hrep'⟩ := h2
      exact ⟨ds, ls, ls', _, rfl, hls, hg, by simp [hlen], hrep'.sig⟩

/-- on `island` (the main module does not import module 2): for every valid set order `get_axiom 1` raises `ValueError` although the scope of rule 1 is cached -/
theorem island_tie (so : SetOrder) (hso : so.Valid) :
    ∃ h, LanguageSemantics.from_kore_definition so 5 island = ret h ∧ LanguageSemantics.get_axiom 5 h 1 = raise ∧
      (h._cached_axiom_scopes.lookup 1).isSome = true ∧ (LanguageSemantics.get_axiom 5 h 2).map Option.isSome = some true := by
  have h := (kore_definition_text_is_the_model_multi so hso 5 island island_in_fragment (by decide)).2
  cases hs : sigOfDefinitionM island with
  | none => have := island_accepted; rw [hs] at this; cases this
  | some ds =>
    rw [hs] at h
    obtain ⟨h', allRules, h1, har, _, h3, h4, _⟩ := h
    have e1 : (ds.rule? 1).isSome = false := by
      have : ((sigOfDefinitionM island).map fun ds => (ds.rule? 1).isSome) = some false := by decide +kernel
      rw [hs] at this; simpa using this
    have e2 : (ds.rule? 2).isSome = true := by
      have : ((sigOfDefinitionM island).map fun ds => (ds.rule? 2).isSome) = some true := by decide +kernel
      rw [hs] at this; simpa using this
    have e3 : (allRules.find? (·.ordinal == 1)).isSome = true := by
      have : ((allRulesOfDefinition island).map fun rs => (rs.find? (·.ordinal == 1)).isSome) = some true := by decide +kernel
      rw [har] at this; simpa using this
    refine ⟨h', h1, ?_, ?_, ?_⟩
    · rw [h3]; cases hr : ds.rule? 1 with
      | none => rfl
      | some x => rw [hr] at e1; cases e1
    · rw [h4]; simpa using e3
    · rw [h3]; cases hr : ds.rule? 2 with
      | none => rw [hr] at e2; cases e2
      | some x => rfl

end ExampleMulti
end C20

#print axioms C20.kore_definition_text_is_the_model_multi
#print axioms C20.kore_definition_text_is_the_model_multi'
#print axioms C20.kore_definition_representsM
#print axioms C20.proof_hints_text_is_the_model_multi
#print axioms C20.k_pipeline_text_is_the_model_multi
#print axioms C20.ExampleMulti.diamond_hints
#print axioms C20.ExampleMulti.diamond_tie
#print axioms C20.ExampleMulti.island_tie
