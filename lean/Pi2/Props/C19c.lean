import Pi2.PrettyOperands2
import Pi2.Props.C19b
/-!
# C19 (part) — the operands of a pretty `MetaVar` step, read back from its text; all 26 calls

`Pi2/Props/C19b.lean` (`pretty_step_operands_match_binary`) carried the hypothesis `callIsMetaVar c = false`: the text
of a `metavar` step was described (`pretty_metavar_text`) and one block read back, but not the whole text.  Here
(`Pi2/PrettyOperands2.lean`) the text `MetaVar <id><block>…` — the id is NOT separated from the first block; a block
`name, len=k i1 i2 … \n` is written only for a NON-EMPTY list — is split at the newlines, the id is the leading decimal
of the first line, and a name without a block is the empty list.  The reader is total on these texts, for all ids and
all five lists; so the format is injective and the hypothesis is dropped.
-/
set_option linter.unusedVariables false
open PySt PrettyOperands
namespace C19

/-- **the text of a `metavar` step shows the id and the five lists**, for all ids and all lists, empty ones included
(an empty list has no block; the reader answers `[]` for it).  `afterFirst ' '` is the text after `MetaVar `. -/
theorem pretty_metavar_text_shows_operands (σ : Nat → String) (id : Nat) (ef sf ps ns hs : List Nat) :
    PrettyTie.stepText σ (.metavar id ef sf ps ns hs) = prettyMetaVarText id ef sf ps ns hs ∧
      readMetaVar (afterFirst ' ' (prettyMetaVarText id ef sf ps ns hs).toList) = some (.lists id ef sf ps ns hs) :=
  ⟨metavar_text σ id ef sf ps ns hs, readMetaVar_prettyMetaVarText id ef sf ps ns hs⟩

/-- **the text format of `metavar` is injective**: two `metavar` calls that write the same text have the same id and
the same five lists (no list name is a prefix of another in a way that confuses the reader; the decimal of the id
does not run into the first name, which starts with a letter; the last item of a block is closed by a space) -/
theorem pretty_metavar_text_injective (σ : Nat → String) (id id' : Nat) (ef sf ps ns hs ef' sf' ps' ns' hs' : List Nat)
    (h : PrettyTie.stepText σ (.metavar id ef sf ps ns hs) = PrettyTie.stepText σ (.metavar id' ef' sf' ps' ns' hs')) :
    id = id' ∧ ef = ef' ∧ sf = sf' ∧ ps = ps' ∧ ns = ns' ∧ hs = hs' := by
  rw [metavar_text, metavar_text] at h
  exact prettyMetaVarText_inj id id' ef sf ps ns hs ef' sf' ps' ns' hs' h

/-- **every step line shows the operand of the call** — all decorated methods, `metavar` included; no assumption on
the free strings (symbol name, `load` id) -/
theorem pretty_line_shows_operand_all (σ : Nat → String) (c : Gen.PyPretty.PCall) :
    readOperand (PrettyTie.stepText σ c).toList = some (pcallOperand c) :=
  readOperand_stepText_all σ c

/-- **the step lines carry the operands of the binary instructions — every call.**  The statement of
`pretty_step_operands_match_binary` without the hypothesis `callIsMetaVar c = false`: for every call `c` the serializer
answers with `is` and the tracker accepts in state `s`, the operands read from the text of the step lines
`PrettyPrintingInterpreter` writes for `c` in `s` are the operands of `is`, one line per instruction, in order
(`metavar`: the id and the five lists of `MetaVar`, five empty lists for `CleanMetaVar`). -/
theorem pretty_step_operands_match_binary_all (n : Nat) (s s' : PySt) (c : Call) (is : List Instr)
    (h : emit1 n s c = some (some is)) (ht : track1 n s c = some (some s'))
    (σ symName : Nat → String) (saveId loadId : String) :
    (pcallIn n s symName saveId loadId c).toList.map (fun pc => readOperand (PrettyTie.stepText σ pc).toList) =
      is.map (instrOperand symName s'.symtab) := by
  rw [← pcall_operands_match_emitted n s s' c is h ht symName saveId loadId]
  cases hp : pcallIn n s symName saveId loadId c with
  | none => rfl
  | some pc => simp [readOperand_stepText_all σ pc]

/-- **the `len=k` field of a block is the length of the list**: in the block written for a non-empty list `l`, the
second space-separated piece is `len=` and the decimal of `l.length` -/
theorem pretty_metavar_len_field (p : String) (pc : Char) (hp : p.toList = [pc]) (nm : String)
    (hnm : ' ' ∉ nm.toList) (l : List Nat) (hl : l ≠ []) :
    (prettyBlock p nm l).toList = blockBody pc nm.toList l ++ ['\n'] ∧
      readLen (blockBody pc nm.toList l) = some l.length :=
  ⟨prettyBlock_toList p pc hp nm l hl, readLen_body pc nm.toList hnm l⟩

/-- the reader that checks the `len=` field accepts only blocks whose field is the number of items it reads, and
agrees with the unchecked reader there -/
theorem checked_block_reader_sound (l : List Char) (r : List Char × List Nat) (h : readBlockChecked l = some r) :
    readBlock l = some r ∧ readLen l = some r.2.length :=
  readBlockChecked_sound l r h

/-- **every step line shows the operand of the call, also to the reader that checks `len=`** -/
theorem pretty_line_shows_operand_checked (σ : Nat → String) (c : Gen.PyPretty.PCall) :
    readOperandChecked (PrettyTie.stepText σ c).toList = some (pcallOperand c) :=
  readOperandChecked_stepText σ c

/-- `pretty_step_operands_match_binary_all` for the reader that checks the `len=` field of every `MetaVar` block -/
theorem pretty_step_operands_match_binary_checked (n : Nat) (s s' : PySt) (c : Call) (is : List Instr)
    (h : emit1 n s c = some (some is)) (ht : track1 n s c = some (some s'))
    (σ symName : Nat → String) (saveId loadId : String) :
    (pcallIn n s symName saveId loadId c).toList.map (fun pc => readOperandChecked (PrettyTie.stepText σ pc).toList) =
      is.map (instrOperand symName s'.symtab) := by
  rw [← pcall_operands_match_emitted n s s' c is h ht symName saveId loadId]
  cases hp : pcallIn n s symName saveId loadId c with
  | none => rfl
  | some pc => simp [readOperandChecked_stepText σ pc]

/-! ## Non-vacuity: a constrained metavariable -/
namespace Constrained

/-- `phi3` with `eFresh = [1, 2]`, `neg = [7]`, `appctx = [10]` (two lists empty, one two-digit item) -/
def call : Call := .metavar 3 [1, 2] [] [] [7] [10]

/-- the translated printer writes this text for it … -/
theorem text : PrettyTie.stepText (fun _ => "") (.metavar 3 [1, 2] [] [] [7] [10]) =
    "MetaVar 3eFresh, len=2 x1 x2 \nneg, len=1 X7 \nappctx, len=1 x10 \n" := by decide +kernel

/-- … both readers read the id and the five lists back from it … -/
theorem read : readOperand "MetaVar 3eFresh, len=2 x1 x2 \nneg, len=1 X7 \nappctx, len=1 x10 \n".toList =
      some (.lists 3 [1, 2] [] [] [7] [10]) ∧
    readOperandChecked "MetaVar 3eFresh, len=2 x1 x2 \nneg, len=1 X7 \nappctx, len=1 x10 \n".toList =
      some (.lists 3 [1, 2] [] [] [7] [10]) := by decide +kernel

/-- … the serializer answers the call in the initial state with one `MetaVar` instruction, the tracker accepts it
(the hypotheses of `pretty_step_operands_match_binary_all` hold of it) … -/
theorem answered : emit1 5 (init []) call = some (some [.metavar 3 [1, 2] [] [] [7] [10]]) ∧
    (track1 5 (init []) call).isSome = true ∧ callIsMetaVar call = true := by decide +kernel

/-- … and the two sides of `pretty_step_operands_match_binary_all`, evaluated -/
theorem both_sides :
    (pcallIn 5 (init []) (fun _ => "") "" "" call).toList.map
        (fun pc => readOperand (PrettyTie.stepText (fun _ => "") pc).toList) =
      [some (.lists 3 [1, 2] [] [] [7] [10])] ∧
    [Instr.metavar 3 [1, 2] [] [] [7] [10]].map (instrOperand (fun _ => "") []) =
      [some (.lists 3 [1, 2] [] [] [7] [10])] := by decide +kernel

/-- a wrong `len=` field: the unchecked reader does not see it, the checked reader refuses the line -/
theorem wrong_len : readOperand "MetaVar 3eFresh, len=5 x1 x2 \n".toList = some (.lists 3 [1, 2] [] [] [] []) ∧
    readOperandChecked "MetaVar 3eFresh, len=5 x1 x2 \n".toList = none := by decide +kernel

/-- different constraints, different texts (instances of injectivity): moving an id from one list to another, and
splitting `12` into `1, 2` -/
theorem different_texts (σ : Nat → String) :
    PrettyTie.stepText σ (.metavar 0 [1] [] [] [] []) ≠ PrettyTie.stepText σ (.metavar 0 [] [] [] [] [1]) ∧
    PrettyTie.stepText σ (.metavar 0 [12] [] [] [] []) ≠ PrettyTie.stepText σ (.metavar 0 [1, 2] [] [] [] []) := by
  refine ⟨fun h => ?_, fun h => ?_⟩
  · exact absurd (pretty_metavar_text_injective σ _ _ _ _ _ _ _ _ _ _ _ _ h).2.1 (by decide)
  · exact absurd (pretty_metavar_text_injective σ _ _ _ _ _ _ _ _ _ _ _ _ h).2.1 (by decide)

end Constrained

#print axioms pretty_metavar_text_shows_operands
#print axioms pretty_metavar_text_injective
#print axioms pretty_line_shows_operand_all
#print axioms pretty_step_operands_match_binary_all
#print axioms pretty_metavar_len_field
#print axioms checked_block_reader_sound
#print axioms pretty_line_shows_operand_checked
#print axioms pretty_step_operands_match_binary_checked
#print axioms Constrained.text
#print axioms Constrained.read
#print axioms Constrained.answered
#print axioms Constrained.both_sides
#print axioms Constrained.wrong_len
#print axioms Constrained.different_texts

end C19
