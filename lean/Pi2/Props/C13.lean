import Pi2.MatchThm
import Pi2.MatchPartial
/-!
# C13 — matching is sound and complete

`matchF` models `match_single` (fuel; outer `none` = `RecursionError`, inner `none` = Python `None`).
Statements are on full expansions, for shaped patterns (see C12).
-/
set_option linter.unusedVariables false
namespace C13
open NPat

/-- **soundness**: if matching succeeds, instantiating the pattern with the returned substitution
gives the instance, and every metavariable of the pattern is bound -/
theorem match_sound (n : Nat) (p i : NPat) (s s' : Subst) (hp : p.Shape = true) (hi : i.Shape = true)
    (hs : ShapeMap s = true) (h : matchF n p i s = some (some s')) :
    Py.inst (Py.lookup (expand.expandMap s')) p.expand = i.expand ∧
    (∀ k ∈ Py.metavars p.expand, (Py.lookup s' k).isSome = true) :=
  let r := matchF_sound n p i s s' hp hi hs h
  ⟨r.1, r.2.2.1⟩

/-- pre-supplied bindings are respected -/
theorem match_respects_seed (n : Nat) (p i : NPat) (s s' : Subst) (hp : p.Shape = true) (hi : i.Shape = true)
    (hs : ShapeMap s = true) (h : matchF n p i s = some (some s')) :
    ∀ k v, Py.lookup s k = some v → Py.lookup s' k = some v :=
  (matchF_sound n p i s s' hp hi hs h).2.1

/-- **completeness**: if the instance is an instantiation of a substitution-free pattern (by a θ
defined on its metavariables) and the seed agrees with θ, matching never answers "no match", and
the answer agrees with θ — including when the only solution is the empty substitution -/
theorem match_complete (n : Nat) (p i : NPat) (s : Subst) (θ : VId → Option Pat) (r : Option Subst)
    (hp : p.Shape = true) (hi : i.Shape = true) (hs : ShapeMap s = true) (hsf : p.expand.SubstFree = true)
    (hθ : ∀ k ∈ Py.metavars p.expand, (θ k).isSome = true) (hinst : i.expand = Py.inst θ p.expand)
    (hseed : ∀ k v, Py.lookup s k = some v → θ k = some v.expand) (h : matchF n p i s = some r) :
    ∃ s', r = some s' ∧ (∀ k v, Py.lookup s' k = some v → θ k = some v.expand) :=
  matchF_complete n p i s θ r hp hi hs hsf hθ hinst hseed h

/-- **completeness for partial instantiations** (`pattern.instantiate(θ)` with a θ that leaves some metavariable ids
alone): matching still never answers "no match", provided every id left alone has one constraint record in the pattern;
the answer agrees with θ extended by "an id left alone is bound to its own record" -/
theorem match_complete_partial (n : Nat) (p i : NPat) (s : Subst) (θ : VId → Option Pat) (r : Option Subst)
    (hp : p.Shape = true) (hi : i.Shape = true) (hs : ShapeMap s = true) (hsf : p.expand.SubstFree = true)
    (hc : Py.Consistent θ (Py.mvRecs p.expand)) (hinst : i.expand = Py.inst θ p.expand)
    (hseed : ∀ k v, Py.lookup s k = some v → θ k = some v.expand) (h : matchF n p i s = some r) :
    ∃ s', r = some s' ∧ (∀ k v, Py.lookup s' k = some v → Py.extend θ (Py.mvRecs p.expand) k = some v.expand) :=
  matchF_complete_partial n p i s θ r hp hi hs hsf hc hinst hseed h

/-- the proviso is needed — the open finding KF-C13-two-lists as a theorem: a pattern that uses id 0 under two constraint
lists, matched against itself (the instantiation by the empty substitution), is answered "no match" -/
theorem match_incomplete_two_lists :
    let p : NPat := .imp (.mv 0 [] [] [] [] []) (.mv 0 [0] [] [] [] [])
    p.expand.SubstFree = true ∧ p.expand = Py.inst (fun _ => none) p.expand ∧ matchF 10 p p [] = some none := by
  refine ⟨by rfl, by rfl, by rfl⟩

/-- lists of equations -/
theorem matchList_sound (n : Nat) (eqs : List (NPat × NPat)) (s s' : Subst)
    (hsh : ∀ pi ∈ eqs, pi.1.Shape = true ∧ pi.2.Shape = true) (hs : ShapeMap s = true)
    (h : matchListF n eqs s = some (some s')) :
    ∀ pi ∈ eqs, Py.inst (Py.lookup (expand.expandMap s')) pi.1.expand = pi.2.expand :=
  (matchListF_sound n eqs s s' hsh hs h).1

/-- the empty list of equations matches with the empty substitution: *success*, not failure -/
theorem matchList_empty_succeeds (n : Nat) : matchListF n [] [] = some (some []) := matchListF_nil n []

/-- destructuring sees through notation: the head reached by `unwrap`/`deconstruct` has the same expansion -/
theorem head_transparent (n : Nat) (p q : NPat) (hp : p.Shape = true) (h : headF n p = some q) :
    q.expand = p.expand ∧ q.isInst = false :=
  let r := headF_expand n p q hp h
  ⟨r.1, r.2.2⟩

/-! Non-vacuity: a ground equation — the only solution is the empty substitution (the F5 case) -/
example : matchF 10 (.evar 0) (.evar 0) [] = some (some []) := by rfl
/-- the hypotheses of `match_complete_partial` are satisfiable with a θ that leaves an id alone -/
example : Py.Consistent (fun k => if k = 1 then some (.evar 3) else none)
    (Py.mvRecs (NPat.imp (.mv 0 [0] [] [] [] []) (.imp (.mv 1 [] [] [] [] []) (.mv 0 [0] [] [] [] []))).expand) := by
  intro m1 h1 m2 h2 k e1 e2 hθ
  simp [NPat.expand, Py.mvRecs] at h1 h2
  rcases h1 with rfl | rfl | rfl <;> rcases h2 with rfl | rfl | rfl <;> simp_all [Py.mvId]
example : matchF 10 (.imp (.mv 0 [] [] [] [] []) (.mv 0 [] [] [] [] [])) (.imp (.evar 1) (.evar 1)) [] = some (some [(0, .evar 1)]) := by rfl
example : matchF 10 (.imp (.mv 0 [] [] [] [] []) (.mv 0 [] [] [] [] [])) (.imp (.evar 1) (.evar 2)) [] = some none := by rfl

end C13
