import Pi2.MatchThm
import Pi2.MatchPartial
import Pi2.MatchTie
/-!
# C13 — matching is sound and complete

`matchF` models `match_single` (fuel; outer `none` = `RecursionError`, inner `none` = Python `None`).
Statements are on full expansions, for shaped patterns (see C12).
-/
set_option linter.unusedVariables false
namespace C13
open NPat

/-- **soundness**: if matching succeeds, instantiating the pattern with the returned substitution
gives the instance, and every metavariable of the pattern is bound -/
theorem match_sound (n : Nat) (p i : NPat) (s s' : Subst) (hp : p.Shape = true) (hi : i.Shape = true)
    (hs : ShapeMap s = true) (h : matchF n p i s = some (some s')) :
    Py.inst (Py.lookup (expand.expandMap s')) p.expand = i.expand ∧
    (∀ k ∈ Py.metavars p.expand, (Py.lookup s' k).isSome = true) :=
  let r := matchF_sound n p i s s' hp hi hs h
  ⟨r.1, r.2.2.1⟩

/-- pre-supplied bindings are respected -/
theorem match_respects_seed (n : Nat) (p i : NPat) (s s' : Subst) (hp : p.Shape = true) (hi : i.Shape = true)
    (hs : ShapeMap s = true) (h : matchF n p i s = some (some s')) :
    ∀ k v, Py.lookup s k = some v → Py.lookup s' k = some v :=
  (matchF_sound n p i s s' hp hi hs h).2.1

/-- **completeness**: if the instance is an instantiation of a substitution-free pattern (by a θ
defined on its metavariables) and the seed agrees with θ, matching never answers "no match", and
the answer agrees with θ — including when the only solution is the empty substitution -/
theorem match_complete (n : Nat) (p i : NPat) (s : Subst) (θ : VId → Option Pat) (r : Option Subst)
    (hp : p.Shape = true) (hi : i.Shape = true) (hs : ShapeMap s = true) (hsf : p.expand.SubstFree = true)
    (hθ : ∀ k ∈ Py.metavars p.expand, (θ k).isSome = true) (hinst : i.expand = Py.inst θ p.expand)
    (hseed : ∀ k v, Py.lookup s k = some v → θ k = some v.expand) (h : matchF n p i s = some r) :
    ∃ s', r = some s' ∧ (∀ k v, Py.lookup s' k = some v → θ k = some v.expand) :=
  matchF_complete n p i s θ r hp hi hs hsf hθ hinst hseed h

/-- **completeness for partial instantiations** (`pattern.instantiate(θ)` with a θ that leaves some metavariable ids
alone): matching still never answers "no match", provided every id left alone has one constraint record in the pattern;
the answer agrees with θ extended by "an id left alone is bound to its own record" -/
theorem match_complete_partial (n : Nat) (p i : NPat) (s : Subst) (θ : VId → Option Pat) (r : Option Subst)
    (hp : p.Shape = true) (hi : i.Shape = true) (hs : ShapeMap s = true) (hsf : p.expand.SubstFree = true)
    (hc : Py.Consistent θ (Py.mvRecs p.expand)) (hinst : i.expand = Py.inst θ p.expand)
    (hseed : ∀ k v, Py.lookup s k = some v → θ k = some v.expand) (h : matchF n p i s = some r) :
    ∃ s', r = some s' ∧ (∀ k v, Py.lookup s' k = some v → Py.extend θ (Py.mvRecs p.expand) k = some v.expand) :=
  matchF_complete_partial n p i s θ r hp hi hs hsf hc hinst hseed h

/-- the proviso is needed — the open finding KF-C13-two-lists as a theorem: a pattern that uses id 0 under two constraint
lists, matched against itself (the instantiation by the empty substitution), is answered "no match" -/
theorem match_incomplete_two_lists :
    let p : NPat := .imp (.mv 0 [] [] [] [] []) (.mv 0 [0] [] [] [] [])
    p.expand.SubstFree = true ∧ p.expand = Py.inst (fun _ => none) p.expand ∧ matchF 10 p p [] = some none := by
  refine ⟨by rfl, by rfl, by rfl⟩

/-- lists of equations -/
theorem matchList_sound (n : Nat) (eqs : List (NPat × NPat)) (s s' : Subst)
    (hsh : ∀ pi ∈ eqs, pi.1.Shape = true ∧ pi.2.Shape = true) (hs : ShapeMap s = true)
    (h : matchListF n eqs s = some (some s')) :
    ∀ pi ∈ eqs, Py.inst (Py.lookup (expand.expandMap s')) pi.1.expand = pi.2.expand :=
  (matchListF_sound n eqs s s' hsh hs h).1

/-- the empty list of equations matches with the empty substitution: *success*, not failure -/
theorem matchList_empty_succeeds (n : Nat) : matchListF n [] [] = some (some []) := matchListF_nil n []

/-- destructuring sees through notation: the head reached by `unwrap`/`deconstruct` has the same expansion -/
theorem head_transparent (n : Nat) (p q : NPat) (hp : p.Shape = true) (h : headF n p = some q) :
    q.expand = p.expand ∧ q.isInst = false :=
  let r := headF_expand n p q hp h
  ⟨r.1, r.2.2⟩

/-! ## the text of `pattern.py` is the model

`Pi2/Gen/PyMatch.lean` is regenerated on every run from `match_single`, `match`, `Pattern.unwrap / extract`, the
`deconstruct` static methods, `Instantiate.simplify`, `MetaVar.can_be_replaced_by` and `Notation.matches /
assert_matches` (`vlib/transmatch.py`: statement by statement); `Pi2/MatchTie.lean` proves the generated functions equal
to `headF`, `matchF`, `matchListF`, `notationMatchesF` — plain equations at every fuel.  In the generated functions the
result type is `Option (Option (Option _))`: out of fuel / exception / Python's `None`. -/

/-- every function the matching code consists of is covered by the translator -/
theorem matching_translated : Gen.PyMatch.translated = true := MatchTie.translated

/-- `match_single(pattern, instance, extend)` as written is `matchF` seeded with `extend if extend else {}`: same
answer, same fuel, and it never raises -/
theorem matching_text_is_the_model (n : Nat) (p i : NPat) (e : Option Subst) :
    Gen.PyMatch.match_single n p i e = (matchF n p i (e.getD [])).map some :=
  MatchTie.match_single_eq n p i e

/-- `match(equations)` as written is `matchListF` from the empty dictionary -/
theorem matchList_text_is_the_model (n : Nat) (eqs : List (NPat × NPat)) :
    Gen.PyMatch.«match» n eqs = (matchListF n eqs []).map some :=
  MatchTie.match_eq n eqs

/-- F5 on the text: the empty list of equations is a *successful* match with the empty substitution, and so is a
ground equation -/
theorem matchList_text_empty_succeeds (n : Nat) :
    Gen.PyMatch.«match» n [] = some (some (some [])) ∧
    Gen.PyMatch.«match» 2 [(.evar 0, .evar 0)] = some (some (some [])) := ⟨rfl, by rfl⟩

/-- `unwrap` / `deconstruct` as written return the head `headF` reaches, seen through the class's projection -/
theorem destructors_text_is_the_model (cls : PyM.PyClass) (n : Nat) (p : NPat) :
    Gen.PyMatch.Pattern.unwrap cls n p
      = MatchTie.viaHead n p (fun h => if PyM.isinstance h cls then some (Gen.PyMatch.patternFields h) else none) ∧
    Gen.PyMatch.Pattern.unwrap .Implies n p
      = MatchTie.viaHead n p (fun h => match h with | .imp l r => some [l, r] | _ => none) ∧
    Gen.PyMatch.Pattern.unwrap .App n p
      = MatchTie.viaHead n p (fun h => match h with | .app l r => some [l, r] | _ => none) ∧
    Gen.PyMatch.EVar.deconstruct n p = MatchTie.viaHead n p (fun h => match h with | .evar x => some x | _ => none) ∧
    Gen.PyMatch.SVar.deconstruct n p = MatchTie.viaHead n p (fun h => match h with | .svar x => some x | _ => none) ∧
    Gen.PyMatch.Symbol.deconstruct n p = MatchTie.viaHead n p (fun h => match h with | .sym x => some x | _ => none) ∧
    Gen.PyMatch.Exists.deconstruct n p
      = MatchTie.viaHead n p (fun h => match h with | .ex x b => some (x, b) | _ => none) ∧
    Gen.PyMatch.Mu.deconstruct n p
      = MatchTie.viaHead n p (fun h => match h with | .mu x b => some (x, b) | _ => none) :=
  ⟨MatchTie.unwrap_eq cls n p, MatchTie.implies_unwrap_eq n p, MatchTie.app_unwrap_eq n p,
   MatchTie.evar_deconstruct_eq n p, MatchTie.svar_deconstruct_eq n p, MatchTie.symbol_deconstruct_eq n p,
   MatchTie.exists_deconstruct_eq n p, MatchTie.mu_deconstruct_eq n p⟩

/-- `Notation.matches` as written is `notationMatchesF`; `assert_matches` raises exactly when it answers `None` -/
theorem notation_matches_text_is_the_model (n : Nat) (N : PyM.PyNotation) (p : NPat) :
    Gen.PyMatch.Notation.matches n N p = (notationMatchesF n N.definition N.arity p).map some ∧
    Gen.PyMatch.Notation.assert_matches n N p = notationMatchesF n N.definition N.arity p :=
  ⟨MatchTie.matches_eq n N p, MatchTie.assert_matches_eq n N p⟩

/-- soundness stated about the text: whatever substitution the translated `match_single` returns instantiates the
pattern to the instance -/
theorem matching_text_sound (n : Nat) (p i : NPat) (s s' : Subst) (hp : p.Shape = true) (hi : i.Shape = true)
    (hs : ShapeMap s = true) (h : Gen.PyMatch.match_single n p i (some s) = some (some (some s'))) :
    Py.inst (Py.lookup (expand.expandMap s')) p.expand = i.expand ∧
    (∀ k ∈ Py.metavars p.expand, (Py.lookup s' k).isSome = true) := by
  rw [MatchTie.match_single_seeded] at h
  have h' : matchF n p i s = some (some s') := by
    cases hm : matchF n p i s with
    | none => rw [hm] at h; cases h
    | some o => rw [hm] at h; cases h; rfl
  exact match_sound n p i s s' hp hi hs h'

/-! Non-vacuity: a ground equation — the only solution is the empty substitution (the F5 case) -/
example : matchF 10 (.evar 0) (.evar 0) [] = some (some []) := by rfl
/-- the hypotheses of `match_complete_partial` are satisfiable with a θ that leaves an id alone -/
example : Py.Consistent (fun k => if k = 1 then some (.evar 3) else none)
    (Py.mvRecs (NPat.imp (.mv 0 [0] [] [] [] []) (.imp (.mv 1 [] [] [] [] []) (.mv 0 [0] [] [] [] []))).expand) := by
  intro m1 h1 m2 h2 k e1 e2 hθ
  simp [NPat.expand, Py.mvRecs] at h1 h2
  rcases h1 with rfl | rfl | rfl <;> rcases h2 with rfl | rfl | rfl <;> simp_all [Py.mvId]
example : matchF 10 (.imp (.mv 0 [] [] [] [] []) (.mv 0 [] [] [] [] [])) (.imp (.evar 1) (.evar 1)) [] = some (some [(0, .evar 1)]) := by rfl
example : matchF 10 (.imp (.mv 0 [] [] [] [] []) (.mv 0 [] [] [] [] [])) (.imp (.evar 1) (.evar 2)) [] = some none := by rfl

end C13
