import Pi2.MatchThm
/-!
# C13 — matching is sound and complete

`matchF` models `match_single` (fuel; outer `none` = `RecursionError`, inner `none` = Python `None`).
Statements are on full expansions, for shaped patterns (see C12).
-/
set_option linter.unusedVariables false
namespace C13
open NPat

/-- **soundness**: if matching succeeds, instantiating the pattern with the returned substitution
gives the instance, and every metavariable of the pattern is bound -/
theorem match_sound (n : Nat) (p i : NPat) (s s' : Subst) (hp : p.Shape = true) (hi : i.Shape = true)
    (hs : ShapeMap s = true) (h : matchF n p i s = some (some s')) :
    Py.inst (Py.lookup (expand.expandMap s')) p.expand = i.expand ∧
    (∀ k ∈ Py.metavars p.expand, (Py.lookup s' k).isSome = true) :=
  let r := matchF_sound n p i s s' hp hi hs h
  ⟨r.1, r.2.2.1⟩

/-- pre-supplied bindings are respected -/
theorem match_respects_seed (n : Nat) (p i : NPat) (s s' : Subst) (hp : p.Shape = true) (hi : i.Shape = true)
    (hs : ShapeMap s = true) (h : matchF n p i s = some (some s')) :
    ∀ k v, Py.lookup s k = some v → Py.lookup s' k = some v :=
  (matchF_sound n p i s s' hp hi hs h).2.1

/-- **completeness**: if the instance is an instantiation of a substitution-free pattern (by a θ
defined on its metavariables) and the seed agrees with θ, matching never answers "no match", and
the answer agrees with θ — including when the only solution is the empty substitution -/
theorem match_complete (n : Nat) (p i : NPat) (s : Subst) (θ : VId → Option Pat) (r : Option Subst)
    (hp : p.Shape = true) (hi : i.Shape = true) (hs : ShapeMap s = true) (hsf : p.expand.SubstFree = true)
    (hθ : ∀ k ∈ Py.metavars p.expand, (θ k).isSome = true) (hinst : i.expand = Py.inst θ p.expand)
    (hseed : ∀ k v, Py.lookup s k = some v → θ k = some v.expand) (h : matchF n p i s = some r) :
    ∃ s', r = some s' ∧ (∀ k v, Py.lookup s' k = some v → θ k = some v.expand) :=
  matchF_complete n p i s θ r hp hi hs hsf hθ hinst hseed h

/-- lists of equations -/
theorem matchList_sound (n : Nat) (eqs : List (NPat × NPat)) (s s' : Subst)
    (hsh : ∀ pi ∈ eqs, pi.1.Shape = true ∧ pi.2.Shape = true) (hs : ShapeMap s = true)
    (h : matchListF n eqs s = some (some s')) :
    ∀ pi ∈ eqs, Py.inst (Py.lookup (expand.expandMap s')) pi.1.expand = pi.2.expand :=
  (matchListF_sound n eqs s s' hsh hs h).1

/-- the empty list of equations matches with the empty substitution: *success*, not failure -/
theorem matchList_empty_succeeds (n : Nat) : matchListF n [] [] = some (some []) := matchListF_nil n []

/-- destructuring sees through notation: the head reached by `unwrap`/`deconstruct` has the same expansion -/
theorem head_transparent (n : Nat) (p q : NPat) (hp : p.Shape = true) (h : headF n p = some q) :
    q.expand = p.expand ∧ q.isInst = false :=
  let r := headF_expand n p q hp h
  ⟨r.1, r.2.2⟩

/-! Non-vacuity: a ground equation — the only solution is the empty substitution (the F5 case) -/
example : matchF 10 (.evar 0) (.evar 0) [] = some (some []) := by rfl
example : matchF 10 (.imp (.mv 0 [] [] [] [] []) (.mv 0 [] [] [] [] [])) (.imp (.evar 1) (.evar 1)) [] = some (some [(0, .evar 1)]) := by rfl
example : matchF 10 (.imp (.mv 0 [] [] [] [] []) (.mv 0 [] [] [] [] [])) (.imp (.evar 1) (.evar 2)) [] = some none := by rfl

end C13
