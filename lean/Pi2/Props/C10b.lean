import Pi2.Props.C10
import Pi2.Props.C09
/-!
# C10 (continued) — the integer-indexed utilities of `tautology.py`

`Props/C10.lean` covers the straight-line lemma bodies (82 documented entry points).  The documented methods that recurse on an
integer index (`conjunction_implies_nth`, `ac_move_to_front` through `or_move_to_front` / `and_move_to_front`,
`reduce_n_or_duplicates_at_front`, `merge_clauses`, `simplify_clause`, `prove_trivial_clause`) are `Gen.opaqueMethods` there.  Their
bodies are translated WITH their proof objects by `vlib/transclause.py` (`Gen/ClauseProofs.lean`) and proved in `Pi2/Clause*.lean` to
conclude the documented schema for ALL operand lists; the statements are those of `C09.clause_utilities_conclude` /
`C09.clause_builders_prove`, restated here because they are what C10 says about these methods (docstring = conclusion).
-/
namespace C10

/-- every indexed utility concludes its docstring: `p0 /\ (p1 /\ …) -> pn`; `terms <-> (selected operands, then the others)`;
`p \/ (p … (p \/ q)) <-> p \/ q`; `(l1 \/ …) \/ r <-> l1 \/ (… \/ r)`; `clause <-> simplified clause`; a trivial clause is proved -/
theorem indexed_utilities_conclude : type_of% @C09.clause_utilities_conclude := C09.clause_utilities_conclude

/-- … and whatever the two proof builders return PROVES (replays to) the advertised pattern, at any fuel, on every input -/
theorem indexed_builders_prove : type_of% @C09.clause_builders_prove := C09.clause_builders_prove

end C10

#print axioms C10.indexed_utilities_conclude
#print axioms C10.indexed_builders_prove
