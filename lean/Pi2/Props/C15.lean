import Pi2.MM.Compressed
import Pi2.Gen.MMDigits
/-!
# C15 — Metamath compressed proofs: numbers, steps, the label table
-/
namespace C15
open MM

/-! ## the letters -/

theorem msdigit_hiChar (d : Nat) (h1 : 1 ≤ d) (h5 : d ≤ 5) : msdigit (hiChar d) = some d := by
  have : d = 1 ∨ d = 2 ∨ d = 3 ∨ d = 4 ∨ d = 5 := by omega
  rcases this with rfl | rfl | rfl | rfl | rfl <;> decide

theorem lsdigit_loChar (d : Nat) (h1 : 1 ≤ d) (h20 : d ≤ 20) : lsdigit (loChar d) = some d := by
  have : d = 1 ∨ d = 2 ∨ d = 3 ∨ d = 4 ∨ d = 5 ∨ d = 6 ∨ d = 7 ∨ d = 8 ∨ d = 9 ∨ d = 10 ∨
      d = 11 ∨ d = 12 ∨ d = 13 ∨ d = 14 ∨ d = 15 ∨ d = 16 ∨ d = 17 ∨ d = 18 ∨ d = 19 ∨ d = 20 := by
    omega
  rcases this with rfl | rfl | rfl | rfl | rfl | rfl | rfl | rfl | rfl | rfl | rfl | rfl | rfl | rfl |
    rfl | rfl | rfl | rfl | rfl | rfl <;> decide

theorem hiChar_props (d : Nat) (h1 : 1 ≤ d) (h5 : d ≤ 5) :
    hiChar d ≠ 'Z' ∧ (lsdigit (hiChar d)).isSome = false := by
  have : d = 1 ∨ d = 2 ∨ d = 3 ∨ d = 4 ∨ d = 5 := by omega
  rcases this with rfl | rfl | rfl | rfl | rfl <;> decide

theorem loChar_ne_Z (d : Nat) (h1 : 1 ≤ d) (h20 : d ≤ 20) : loChar d ≠ 'Z' := by
  have : d = 1 ∨ d = 2 ∨ d = 3 ∨ d = 4 ∨ d = 5 ∨ d = 6 ∨ d = 7 ∨ d = 8 ∨ d = 9 ∨ d = 10 ∨
      d = 11 ∨ d = 12 ∨ d = 13 ∨ d = 14 ∨ d = 15 ∨ d = 16 ∨ d = 17 ∨ d = 18 ∨ d = 19 ∨ d = 20 := by
    omega
  rcases this with rfl | rfl | rfl | rfl | rfl | rfl | rfl | rfl | rfl | rfl | rfl | rfl | rfl | rfl |
    rfl | rfl | rfl | rfl | rfl | rfl <;> decide

theorem msdigit_inv (c : Char) (d : Nat) (h : msdigit c = some d) :
    c = hiChar d ∧ 1 ≤ d ∧ d ≤ 5 := by
  unfold msdigit at h
  split at h
  · next hc =>
    simp only [Option.some.injEq] at h
    have h85 : ('U' : Char).toNat = 85 := by decide
    have h89 : ('Y' : Char).toNat = 89 := by decide
    rw [h85, h89] at hc
    refine ⟨?_, by omega, by omega⟩
    unfold hiChar
    have : 84 + d = c.toNat := by omega
    rw [this, Char.ofNat_toNat]
  · simp at h

theorem lsdigit_inv (c : Char) (d : Nat) (h : lsdigit c = some d) :
    c = loChar d ∧ 1 ≤ d ∧ d ≤ 20 := by
  unfold lsdigit at h
  split at h
  · next hc =>
    simp only [Option.some.injEq] at h
    have h65 : ('A' : Char).toNat = 65 := by decide
    have h84 : ('T' : Char).toNat = 84 := by decide
    rw [h65, h84] at hc
    refine ⟨?_, by omega, by omega⟩
    unfold loChar
    have : 64 + d = c.toNat := by omega
    rw [this, Char.ofNat_toNat]
  · simp at h

/-! ## bijective base 5 -/

/-- the value of high digits, least significant first -/
def val : List Nat → Nat
  | [] => 0
  | d :: ds => d + 5 * val ds

def Digits (ds : List Nat) : Prop := ∀ d ∈ ds, 1 ≤ d ∧ d ≤ 5

theorem hiDigits_succ (h : Nat) : hiDigits (h + 1) = (h % 5 + 1) :: hiDigits (h / 5) := by
  rw [hiDigits]

theorem hiDigits_spec (h : Nat) : val (hiDigits h) = h ∧ Digits (hiDigits h) := by
  induction h using Nat.strongRecOn with
  | _ h ih =>
    cases h with
    | zero => simp [hiDigits, val, Digits]
    | succ k =>
      rw [hiDigits_succ]
      obtain ⟨hv, hd⟩ := ih (k / 5) (by omega)
      constructor
      · simp only [val, hv]; omega
      · intro d hd'
        rcases List.mem_cons.mp hd' with rfl | hd'
        · omega
        · exact hd d hd'

theorem hiDigits_val (ds : List Nat) (hd : Digits ds) : hiDigits (val ds) = ds := by
  induction ds with
  | nil => simp [val, hiDigits]
  | cons d ds ih =>
    have hd1 := hd d (by simp)
    have hds : Digits ds := fun x hx => hd x (List.mem_cons_of_mem _ hx)
    have : val (d :: ds) = (d - 1 + 5 * val ds) + 1 := by simp only [val]; omega
    rw [this, hiDigits_succ]
    have e1 : (d - 1 + 5 * val ds) % 5 + 1 = d := by omega
    have e2 : (d - 1 + 5 * val ds) / 5 = val ds := by omega
    rw [e1, e2, ih hds]

theorem convLoop_digits (ds : List Nat) (hd : Digits ds) (e acc : Nat) :
    convLoop (ds.map hiChar) e acc = some (acc + 20 * 5 ^ e * val ds) := by
  induction ds generalizing e acc with
  | nil => simp [convLoop, val]
  | cons d ds ih =>
    have hd1 := hd d (by simp)
    have hds : Digits ds := fun x hx => hd x (List.mem_cons_of_mem _ hx)
    simp only [List.map_cons, convLoop, msdigit_hiChar d hd1.1 hd1.2, Option.bind_eq_bind,
      Option.bind_some, ih hds, val, Nat.pow_succ]
    congr 1
    rw [Nat.mul_add, Nat.add_assoc]
    congr 1
    have : 20 * (5 ^ e * 5) * val ds = 20 * 5 ^ e * (5 * val ds) := by
      rw [Nat.mul_assoc, Nat.mul_assoc, Nat.mul_assoc]
    rw [this, Nat.mul_comm d, Nat.mul_assoc]
    rw [Nat.mul_comm d 20, ← Nat.mul_assoc, Nat.mul_comm (5 ^ e) 20]

theorem convLoop_inv (cs : List Char) (e acc n : Nat) (h : convLoop cs e acc = some n) :
    ∃ ds, Digits ds ∧ cs = ds.map hiChar ∧ n = acc + 20 * 5 ^ e * val ds := by
  induction cs generalizing e acc with
  | nil =>
    simp only [convLoop, Option.some.injEq] at h
    exact ⟨[], by simp [Digits], rfl, by simp [val, h]⟩
  | cons c cs ih =>
    simp only [convLoop, Option.bind_eq_bind, Option.bind_eq_some_iff] at h
    obtain ⟨d, hd, h⟩ := h
    obtain ⟨hc, h1, h5⟩ := msdigit_inv c d hd
    obtain ⟨ds, hds, rfl, hn⟩ := ih (e + 1) _ h
    refine ⟨d :: ds, ?_, by simp [hc], ?_⟩
    · intro x hx
      rcases List.mem_cons.mp hx with rfl | hx
      · exact ⟨h1, h5⟩
      · exact hds x hx
    · have := convLoop_digits (d :: ds) (by
        intro x hx
        rcases List.mem_cons.mp hx with rfl | hx
        · exact ⟨h1, h5⟩
        · exact hds x hx) e acc
      simp only [List.map_cons, convLoop, msdigit_hiChar d h1 h5, Option.bind_eq_bind,
        Option.bind_some] at this
      rw [h] at this
      exact Option.some.inj this

/-! ## 1, 2: numbers -/

theorem decode_encode (n : Nat) (hn : 1 ≤ n) : MM.convertToNumber (MM.encodeNum n) = some n := by
  obtain ⟨hv, hd⟩ := hiDigits_spec ((n - 1) / 20)
  unfold convertToNumber encodeNum
  simp only [List.reverse_append, List.reverse_cons, List.reverse_nil, List.nil_append,
    List.singleton_append, List.map_reverse, List.reverse_reverse]
  rw [lsdigit_loChar _ (by omega) (by omega)]
  simp only [Option.bind_eq_bind, Option.bind_some]
  rw [convLoop_digits _ hd, hv]
  simp only [Nat.pow_zero, Nat.mul_one]
  congr 1; omega

theorem encode_decode (w : List Char) (n : Nat) :
    MM.convertToNumber w = some n → MM.encodeNum n = w ∧ 1 ≤ n := by
  intro h
  unfold convertToNumber at h
  cases hw : w.reverse with
  | nil => rw [hw] at h; simp at h
  | cons first rest =>
    rw [hw] at h
    simp only [Option.bind_eq_bind, Option.bind_eq_some_iff] at h
    obtain ⟨d, hd, h⟩ := h
    obtain ⟨hf, h1, h20⟩ := lsdigit_inv first d hd
    obtain ⟨ds, hds, hrest, hn⟩ := convLoop_inv rest 0 d n h
    simp only [Nat.pow_zero, Nat.mul_one] at hn
    have hq : (n - 1) / 20 = val ds := by omega
    have hr : (n - 1) % 20 + 1 = d := by omega
    refine ⟨?_, by omega⟩
    unfold encodeNum
    rw [hq, hr, hiDigits_val ds hds]
    have : w = (first :: rest).reverse := by rw [← hw, List.reverse_reverse]
    rw [this, hrest, hf]
    simp [List.map_reverse]

/-! ## 3: steps -/

theorem tok_hi (pre rest buf : List Char)
    (hpre : ∀ c ∈ pre, c ≠ 'Z' ∧ (lsdigit c).isSome = false) :
    tokenize (pre ++ rest) buf = tokenize rest (buf ++ pre) := by
  induction pre generalizing buf with
  | nil => simp
  | cons c pre ih =>
    obtain ⟨hz, hl⟩ := hpre c (by simp)
    simp only [List.cons_append, tokenize, hz, if_false, hl, Bool.false_eq_true]
    rw [ih _ (fun x hx => hpre x (List.mem_cons_of_mem _ hx))]
    simp

theorem tokenize_encodeNum (n : Nat) (hn : 1 ≤ n) (rest : List Char) :
    tokenize (encodeNum n ++ rest) [] = (tokenize rest []).map (n :: ·) := by
  have hdec := decode_encode n hn
  obtain ⟨_, hd⟩ := hiDigits_spec ((n - 1) / 20)
  unfold encodeNum at hdec ⊢
  have hlo1 : 1 ≤ (n - 1) % 20 + 1 := by omega
  have hlo20 : (n - 1) % 20 + 1 ≤ 20 := by omega
  rw [List.append_assoc, tok_hi _ _ _ (by
    intro c hc
    obtain ⟨d, hdm, rfl⟩ := List.mem_map.mp hc
    have := hd d (List.mem_reverse.mp hdm)
    exact hiChar_props d this.1 this.2)]
  simp only [List.nil_append, List.singleton_append, tokenize, loChar_ne_Z _ hlo1 hlo20, if_false,
    lsdigit_loChar _ hlo1 hlo20, Option.isSome_some, if_true, hdec, Option.bind_eq_bind,
    Option.bind_some]

theorem tokenize_steps (steps : List (Option Nat)) (h : ∀ n, some n ∈ steps → 1 ≤ n) :
    MM.tokenize (steps.flatMap MM.encodeStep) [] = some (steps.map MM.stepVal) := by
  induction steps with
  | nil => simp [tokenize]
  | cons st steps ih =>
    have ih' := ih (fun n hn => h n (List.mem_cons_of_mem _ hn))
    cases st with
    | none =>
      simp only [List.flatMap_cons, encodeStep, List.singleton_append, tokenize, if_true,
        List.isEmpty_nil, ih', Option.map_some, List.map_cons, stepVal]
    | some n =>
      simp only [List.flatMap_cons, encodeStep, List.map_cons, stepVal]
      rw [tokenize_encodeNum n (h n (by simp)), ih']
      rfl

/-! ## 4, 5: the label table -/

theorem parseLabels_spec (labels body acc : List String) (hl : ∀ l ∈ labels, l ≠ ")") :
    parseLabels (labels ++ ")" :: body) acc = some (acc.reverse ++ labels, body) := by
  induction labels generalizing acc with
  | nil => simp [parseLabels]
  | cons l labels ih =>
    have hne : l ≠ ")" := hl l (by simp)
    rw [List.cons_append]
    unfold parseLabels
    split
    · next heq => simp at heq
    · next heq =>
      simp only [List.cons.injEq] at heq
      exact absurd heq.1 hne
    · next heq =>
      simp only [List.cons.injEq] at heq
      obtain ⟨rfl, rfl⟩ := heq
      rw [ih _ (fun x hx => hl x (List.mem_cons_of_mem _ hx))]
      simp

theorem no_extra (floats vars : List String) (h : ∀ v ∈ vars, v ∈ floats) :
    vars.filter (!floats.contains ·) = [] := by
  rw [List.filter_eq_nil_iff]
  intro v hv
  simp [h v hv]

theorem mandatory_in_database_order (floats vars labels : List String) (body : List String)
    (tab : List String) (steps : List Nat) :
    (∀ v ∈ vars, v ∈ floats) → (∀ l ∈ labels, l ≠ ")") →
    MM.importProof floats vars ("(" :: labels ++ ")" :: body) = some (tab, steps) →
    tab = (floats.filter (vars.contains ·)).map (· ++ "-is-pattern") ++ labels := by
  intro hv hl h
  simp only [importProof, List.cons_append, parseLabels_spec labels body [] hl, no_extra floats vars hv,
    Option.bind_eq_bind, Option.bind_some, List.reverse_nil, List.nil_append,
    Option.bind_eq_some_iff, Option.pure_def, Option.some.injEq, Prod.mk.injEq] at h
  obtain ⟨_, _, h, _⟩ := h
  rw [← h]
  simp

theorem mandatory_order_independent_of_set_order (floats vars vars' : List String)
    (toks : List String) :
    vars.Perm vars' → (∀ v ∈ vars, v ∈ floats) →
    MM.importProof floats vars toks = MM.importProof floats vars' toks := by
  intro hp hv
  have hv' : ∀ v ∈ vars', v ∈ floats := fun v h => hv v (hp.mem_iff.mpr h)
  have hc : floats.filter (vars.contains ·) = floats.filter (vars'.contains ·) := by
    apply List.filter_congr
    intro x _
    have := hp.mem_iff (a := x)
    simp only [List.contains_eq_mem, this]
  unfold importProof
  rw [no_extra floats vars hv, no_extra floats vars' hv', hc]

/-! ## 6: resolving a step number -/

theorem resolve_spec (k n : Nat) :
    (n = 0 → MM.resolve k n = .save) ∧ (1 ≤ n → n ≤ k → MM.resolve k n = .label (n - 1)) ∧
    (k < n → MM.resolve k n = .reuse (n - k - 1)) := by
  refine ⟨?_, ?_, ?_⟩
  · intro h; simp [resolve, h]
  · intro h1 hk
    have : n ≠ 0 := by omega
    simp [resolve, this, hk]
  · intro hk
    have h0 : n ≠ 0 := by omega
    have h1 : ¬ n ≤ k := by omega
    simp [resolve, h0, h1]

/-! ## 7: the tables of the Python source -/

theorem digit_tables_tied :
    (Gen.mmLsdigit.all fun (c, d) => MM.lsdigit c == some d) = true ∧
    (Gen.mmMsdigit.all fun (c, d) => MM.msdigit c == some d) = true ∧
    Gen.mmLsdigit.length = 20 ∧ Gen.mmMsdigit.length = 5 := by decide

example : MM.encodeNum 120 = "YT".toList := (encode_decode _ _ (by decide)).1
example : MM.encodeNum 121 = "UUA".toList := (encode_decode _ _ (by decide)).1
example : MM.encodeNum 620 = "YYT".toList := (encode_decode _ _ (by decide)).1
example : MM.encodeNum 621 = "UUUA".toList := (encode_decode _ _ (by decide)).1

end C15

