import Pi2.MM.Compressed
import Pi2.Gen.MMDigits
import Pi2.MM.ImportTie
/-!
# C15 — Metamath compressed proofs: numbers, steps, the label table
-/
namespace C15
open MM

/-! ## the letters -/

theorem msdigit_hiChar (d : Nat) (h1 : 1 ≤ d) (h5 : d ≤ 5) : msdigit (hiChar d) = some d := by
  have : d = 1 ∨ d = 2 ∨ d = 3 ∨ d = 4 ∨ d = 5 := by omega
  rcases this with rfl | rfl | rfl | rfl | rfl <;> decide

theorem lsdigit_loChar (d : Nat) (h1 : 1 ≤ d) (h20 : d ≤ 20) : lsdigit (loChar d) = some d := by
  have : d = 1 ∨ d = 2 ∨ d = 3 ∨ d = 4 ∨ d = 5 ∨ d = 6 ∨ d = 7 ∨ d = 8 ∨ d = 9 ∨ d = 10 ∨
      d = 11 ∨ d = 12 ∨ d = 13 ∨ d = 14 ∨ d = 15 ∨ d = 16 ∨ d = 17 ∨ d = 18 ∨ d = 19 ∨ d = 20 := by
    omega
  rcases this with rfl | rfl | rfl | rfl | rfl | rfl | rfl | rfl | rfl | rfl | rfl | rfl | rfl | rfl |
    rfl | rfl | rfl | rfl | rfl | rfl <;> decide

theorem hiChar_props (d : Nat) (h1 : 1 ≤ d) (h5 : d ≤ 5) :
    hiChar d ≠ 'Z' ∧ (lsdigit (hiChar d)).isSome = false := by
  have : d = 1 ∨ d = 2 ∨ d = 3 ∨ d = 4 ∨ d = 5 := by omega
  rcases this with rfl | rfl | rfl | rfl | rfl <;> decide

theorem loChar_ne_Z (d : Nat) (h1 : 1 ≤ d) (h20 : d ≤ 20) : loChar d ≠ 'Z' := by
  have : d = 1 ∨ d = 2 ∨ d = 3 ∨ d = 4 ∨ d = 5 ∨ d = 6 ∨ d = 7 ∨ d = 8 ∨ d = 9 ∨ d = 10 ∨
      d = 11 ∨ d = 12 ∨ d = 13 ∨ d = 14 ∨ d = 15 ∨ d = 16 ∨ d = 17 ∨ d = 18 ∨ d = 19 ∨ d = 20 := by
    omega
  rcases this with rfl | rfl | rfl | rfl | rfl | rfl | rfl | rfl | rfl | rfl | rfl | rfl | rfl | rfl |
    rfl | rfl | rfl | rfl | rfl | rfl <;> decide

theorem msdigit_inv (c : Char) (d : Nat) (h : msdigit c = some d) :
    c = hiChar d ∧ 1 ≤ d ∧ d ≤ 5 := by
  unfold msdigit at h
  split at h
  · next hc =>
    simp only [Option.some.injEq] at h
    have h85 : ('U' : Char).toNat = 85 := by decide
    have h89 : ('Y' : Char).toNat = 89 := by decide
    rw [h85, h89] at hc
    refine ⟨?_, by omega, by omega⟩
    unfold hiChar
    have : 84 + d = c.toNat := by omega
    rw [this, Char.ofNat_toNat]
  · simp at h

theorem lsdigit_inv (c : Char) (d : Nat) (h : lsdigit c = some d) :
    c = loChar d ∧ 1 ≤ d ∧ d ≤ 20 := by
  unfold lsdigit at h
  split at h
  · next hc =>
    simp only [Option.some.injEq] at h
    have h65 : ('A' : Char).toNat = 65 := by decide
    have h84 : ('T' : Char).toNat = 84 := by decide
    rw [h65, h84] at hc
    refine ⟨?_, by omega, by omega⟩
    unfold loChar
    have : 64 + d = c.toNat := by omega
    rw [this, Char.ofNat_toNat]
  · simp at h

/-! ## bijective base 5 -/

/-- the value of high digits, least significant first -/
def val : List Nat → Nat
  | [] => 0
  | d :: ds => d + 5 * val ds

def Digits (ds : List Nat) : Prop := ∀ d ∈ ds, 1 ≤ d ∧ d ≤ 5

theorem hiDigits_succ (h : Nat) : hiDigits (h + 1) = (h % 5 + 1) :: hiDigits (h / 5) := by
  rw [hiDigits]

theorem hiDigits_spec (h : Nat) : val (hiDigits h) = h ∧ Digits (hiDigits h) := by
  induction h using Nat.strongRecOn with
  | _ h ih =>
    cases h with
    | zero => simp [hiDigits, val, Digits]
    | succ k =>
      rw [hiDigits_succ]
      obtain ⟨hv, hd⟩ := ih (k / 5) (by omega)
      constructor
      · simp only [val, hv]; omega
      · intro d hd'
        rcases List.mem_cons.mp hd' with rfl | hd'
        · omega
        · exact hd d hd'

theorem hiDigits_val (ds : List Nat) (hd : Digits ds) : hiDigits (val ds) = ds := by
  induction ds with
  | nil => simp [val, hiDigits]
  | cons d ds ih =>
    have hd1 := hd d (by simp)
    have hds : Digits ds := fun x hx => hd x (List.mem_cons_of_mem _ hx)
    have : val (d :: ds) = (d - 1 + 5 * val ds) + 1 := by simp only [val]; omega
    rw [this, hiDigits_succ]
    have e1 : (d - 1 + 5 * val ds) % 5 + 1 = d := by omega
    have e2 : (d - 1 + 5 * val ds) / 5 = val ds := by omega
    rw [e1, e2, ih hds]

theorem convLoop_digits (ds : List Nat) (hd : Digits ds) (e acc : Nat) :
    convLoop (ds.map hiChar) e acc = some (acc + 20 * 5 ^ e * val ds) := by
  induction ds generalizing e acc with
  | nil => simp [convLoop, val]
  | cons d ds ih =>
    have hd1 := hd d (by simp)
    have hds : Digits ds := fun x hx => hd x (List.mem_cons_of_mem _ hx)
    simp only [List.map_cons, convLoop, msdigit_hiChar d hd1.1 hd1.2, Option.bind_eq_bind,
      Option.bind_some, ih hds, val, Nat.pow_succ]
    congr 1
    rw [Nat.mul_add, Nat.add_assoc]
    congr 1
    have : 20 * (5 ^ e * 5) * val ds = 20 * 5 ^ e * (5 * val ds) := by
      rw [Nat.mul_assoc, Nat.mul_assoc, Nat.mul_assoc]
    rw [this, Nat.mul_comm d, Nat.mul_assoc]
    rw [Nat.mul_comm d 20, ← Nat.mul_assoc, Nat.mul_comm (5 ^ e) 20]

theorem convLoop_inv (cs : List Char) (e acc n : Nat) (h : convLoop cs e acc = some n) :
    ∃ ds, Digits ds ∧ cs = ds.map hiChar ∧ n = acc + 20 * 5 ^ e * val ds := by
  induction cs generalizing e acc with
  | nil =>
    simp only [convLoop, Option.some.injEq] at h
    exact ⟨[], by simp [Digits], rfl, by simp [val, h]⟩
  | cons c cs ih =>
    simp only [convLoop, Option.bind_eq_bind, Option.bind_eq_some_iff] at h
    obtain ⟨d, hd, h⟩ := h
    obtain ⟨hc, h1, h5⟩ := msdigit_inv c d hd
    obtain ⟨ds, hds, rfl, hn⟩ := ih (e + 1) _ h
    refine ⟨d :: ds, ?_, by simp [hc], ?_⟩
    · intro x hx
      rcases List.mem_cons.mp hx with rfl | hx
      · exact ⟨h1, h5⟩
      · exact hds x hx
    · have := convLoop_digits (d :: ds) (by
        intro x hx
        rcases List.mem_cons.mp hx with rfl | hx
        · exact ⟨h1, h5⟩
        · exact hds x hx) e acc
      simp only [List.map_cons, convLoop, msdigit_hiChar d h1 h5, Option.bind_eq_bind,
        Option.bind_some] at this
      rw [h] at this
      exact Option.some.inj this

/-! ## 1, 2: numbers -/

theorem decode_encode (n : Nat) (hn : 1 ≤ n) : MM.convertToNumber (MM.encodeNum n) = some n := by
  obtain ⟨hv, hd⟩ := hiDigits_spec ((n - 1) / 20)
  unfold convertToNumber encodeNum
  simp only [List.reverse_append, List.reverse_cons, List.reverse_nil, List.nil_append,
    List.singleton_append, List.map_reverse, List.reverse_reverse]
  rw [lsdigit_loChar _ (by omega) (by omega)]
  simp only [Option.bind_eq_bind, Option.bind_some]
  rw [convLoop_digits _ hd, hv]
  simp only [Nat.pow_zero, Nat.mul_one]
  congr 1; omega

theorem encode_decode (w : List Char) (n : Nat) :
    MM.convertToNumber w = some n → MM.encodeNum n = w ∧ 1 ≤ n := by
  intro h
  unfold convertToNumber at h
  cases hw : w.reverse with
  | nil => rw [hw] at h; simp at h
  | cons first rest =>
    rw [hw] at h
    simp only [Option.bind_eq_bind, Option.bind_eq_some_iff] at h
    obtain ⟨d, hd, h⟩ := h
    obtain ⟨hf, h1, h20⟩ := lsdigit_inv first d hd
    obtain ⟨ds, hds, hrest, hn⟩ := convLoop_inv rest 0 d n h
    simp only [Nat.pow_zero, Nat.mul_one] at hn
    have hq : (n - 1) / 20 = val ds := by omega
    have hr : (n - 1) % 20 + 1 = d := by omega
    refine ⟨?_, by omega⟩
    unfold encodeNum
    rw [hq, hr, hiDigits_val ds hds]
    have : w = (first :: rest).reverse := by rw [← hw, List.reverse_reverse]
    rw [this, hrest, hf]
    simp [List.map_reverse]

/-! ## 3: steps -/

theorem tok_hi (pre rest buf : List Char)
    (hpre : ∀ c ∈ pre, c ≠ 'Z' ∧ (lsdigit c).isSome = false) :
    tokenize (pre ++ rest) buf = tokenize rest (buf ++ pre) := by
  induction pre generalizing buf with
  | nil => simp
  | cons c pre ih =>
    obtain ⟨hz, hl⟩ := hpre c (by simp)
    simp only [List.cons_append, tokenize, hz, if_false, hl, Bool.false_eq_true]
    rw [ih _ (fun x hx => hpre x (List.mem_cons_of_mem _ hx))]
    simp

theorem tokenize_encodeNum (n : Nat) (hn : 1 ≤ n) (rest : List Char) :
    tokenize (encodeNum n ++ rest) [] = (tokenize rest []).map (n :: ·) := by
  have hdec := decode_encode n hn
  obtain ⟨_, hd⟩ := hiDigits_spec ((n - 1) / 20)
  unfold encodeNum at hdec ⊢
  have hlo1 : 1 ≤ (n - 1) % 20 + 1 := by omega
  have hlo20 : (n - 1) % 20 + 1 ≤ 20 := by omega
  rw [List.append_assoc, tok_hi _ _ _ (by
    intro c hc
    obtain ⟨d, hdm, rfl⟩ := List.mem_map.mp hc
    have := hd d (List.mem_reverse.mp hdm)
    exact hiChar_props d this.1 this.2)]
  simp only [List.nil_append, List.singleton_append, tokenize, loChar_ne_Z _ hlo1 hlo20, if_false,
    lsdigit_loChar _ hlo1 hlo20, Option.isSome_some, if_true, hdec, Option.bind_eq_bind,
    Option.bind_some]

theorem tokenize_steps (steps : List (Option Nat)) (h : ∀ n, some n ∈ steps → 1 ≤ n) :
    MM.tokenize (steps.flatMap MM.encodeStep) [] = some (steps.map MM.stepVal) := by
  induction steps with
  | nil => simp [tokenize]
  | cons st steps ih =>
    have ih' := ih (fun n hn => h n (List.mem_cons_of_mem _ hn))
    cases st with
    | none =>
      simp only [List.flatMap_cons, encodeStep, List.singleton_append, tokenize, if_true,
        List.isEmpty_nil, ih', Option.map_some, List.map_cons, stepVal]
    | some n =>
      simp only [List.flatMap_cons, encodeStep, List.map_cons, stepVal]
      rw [tokenize_encodeNum n (h n (by simp)), ih']
      rfl

/-! ## 4, 5: the label table -/

theorem parseLabels_spec (labels body acc : List String) (hl : ∀ l ∈ labels, l ≠ ")") :
    parseLabels (labels ++ ")" :: body) acc = some (acc.reverse ++ labels, body) := by
  induction labels generalizing acc with
  | nil => simp [parseLabels]
  | cons l labels ih =>
    have hne : l ≠ ")" := hl l (by simp)
    rw [List.cons_append]
    unfold parseLabels
    split
    · next heq => simp at heq
    · next heq =>
      simp only [List.cons.injEq] at heq
      exact absurd heq.1 hne
    · next heq =>
      simp only [List.cons.injEq] at heq
      obtain ⟨rfl, rfl⟩ := heq
      rw [ih _ (fun x hx => hl x (List.mem_cons_of_mem _ hx))]
      simp

theorem no_extra (floats vars : List String) (h : ∀ v ∈ vars, v ∈ floats) :
    vars.filter (!floats.contains ·) = [] := by
  rw [List.filter_eq_nil_iff]
  intro v hv
  simp [h v hv]

theorem mandatory_in_database_order (floats vars labels : List String) (body : List String)
    (tab : List String) (steps : List Nat) :
    (∀ v ∈ vars, v ∈ floats) → (∀ l ∈ labels, l ≠ ")") →
    MM.importProof floats vars ("(" :: labels ++ ")" :: body) = some (tab, steps) →
    tab = (floats.filter (vars.contains ·)).map (· ++ "-is-pattern") ++ labels := by
  intro hv hl h
  simp only [importProof, List.cons_append, parseLabels_spec labels body [] hl, no_extra floats vars hv,
    Option.bind_eq_bind, Option.bind_some, List.reverse_nil, List.nil_append,
    Option.bind_eq_some_iff, Option.pure_def, Option.some.injEq, Prod.mk.injEq] at h
  obtain ⟨_, _, h, _⟩ := h
  rw [← h]
  simp

theorem mandatory_order_independent_of_set_order (floats vars vars' : List String)
    (toks : List String) :
    vars.Perm vars' → (∀ v ∈ vars, v ∈ floats) →
    MM.importProof floats vars toks = MM.importProof floats vars' toks := by
  intro hp hv
  have hv' : ∀ v ∈ vars', v ∈ floats := fun v h => hv v (hp.mem_iff.mpr h)
  have hc : floats.filter (vars.contains ·) = floats.filter (vars'.contains ·) := by
    apply List.filter_congr
    intro x _
    have := hp.mem_iff (a := x)
    simp only [List.contains_eq_mem, this]
  unfold importProof
  rw [no_extra floats vars hv, no_extra floats vars' hv', hc]

/-! ## 6: resolving a step number -/

theorem resolve_spec (k n : Nat) :
    (n = 0 → MM.resolve k n = .save) ∧ (1 ≤ n → n ≤ k → MM.resolve k n = .label (n - 1)) ∧
    (k < n → MM.resolve k n = .reuse (n - k - 1)) := by
  refine ⟨?_, ?_, ?_⟩
  · intro h; simp [resolve, h]
  · intro h1 hk
    have : n ≠ 0 := by omega
    simp [resolve, this, hk]
  · intro hk
    have h0 : n ≠ 0 := by omega
    have h1 : ¬ n ≤ k := by omega
    simp [resolve, h0, h1]

/-! ## 7: the tables of the Python source -/

theorem digit_tables_tied :
    (Gen.mmLsdigit.all fun (c, d) => MM.lsdigit c == some d) = true ∧
    (Gen.mmMsdigit.all fun (c, d) => MM.msdigit c == some d) = true ∧
    Gen.mmLsdigit.length = 20 ∧ Gen.mmMsdigit.length = 5 := by decide

example : MM.encodeNum 120 = "YT".toList := (encode_decode _ _ (by decide)).1
example : MM.encodeNum 121 = "UUA".toList := (encode_decode _ _ (by decide)).1
example : MM.encodeNum 620 = "YYT".toList := (encode_decode _ _ (by decide)).1
example : MM.encodeNum 621 = "UUUA".toList := (encode_decode _ _ (by decide)).1

/-! ## 8: the TEXT of `_import_proof` (`Pi2/Gen/ImportProof.lean`, regenerated from converter.py by `vlib/transimport.py`,
character level) is the model (`Pi2/MM/Compressed.lean`, token level) — see `Pi2/MM/ImportTie.lean` -/

open ImpSup in
/-- the generated `convert_to_number` is the model's, on every word -/
theorem convert_to_number_text_is_the_model (word : List Char) :
    Gen.ImportProof.convert_to_number word = MM.convertToNumber word :=
  ImportTie.convert_to_number_eq word

open ImpSup in
/-- the generated main loop is the model's `tokenize`, on every letter string -/
theorem main_loop_text_is_the_model (letters : List Char) (d : PyDict Nat Str) :
    (Gen.ImportProof.import_proof_for1 letters ⟨d, []⟩ []).map (·.1)
      = (MM.tokenize letters []).map (Gen.ImportProof.Proof.mk d) :=
  ImportTie.main_loop_eq letters d

/-- Appendix B, for the GENERATED decoder: decoding the book's encoding of `n ≥ 1` gives `n` … -/
theorem generated_decode_encode (n : Nat) (hn : 1 ≤ n) :
    Gen.ImportProof.convert_to_number (MM.encodeNum n) = some n := by
  rw [ImportTie.convert_to_number_eq]; exact decode_encode n hn

/-- … and a word the generated decoder accepts is the book's encoding of its value (one word per number) -/
theorem generated_encode_decode (w : List Char) (n : Nat) :
    Gen.ImportProof.convert_to_number w = some n → MM.encodeNum n = w ∧ 1 ≤ n := by
  rw [ImportTie.convert_to_number_eq]; exact encode_decode w n

open ImpSup in
/-- … and the generated main loop reads a sequence of encoded steps (`Z` = 0) back as written -/
theorem generated_steps_roundtrip (steps : List (Option Nat)) (h : ∀ n, some n ∈ steps → 1 ≤ n) (d : PyDict Nat Str) :
    (Gen.ImportProof.import_proof_for1 (steps.flatMap MM.encodeStep) ⟨d, []⟩ []).map (·.1)
      = some ⟨d, steps.map MM.stepVal⟩ := by
  rw [ImportTie.main_loop_eq, tokenize_steps steps h]; rfl

open ImpSup ImportTie in
/-- **the whole `_import_proof`, on what the parser stores**: `statement.proof` is `' '.join(tokens)`; when the tokens are `(`,
labels (non-empty, no whitespace, no `)`), `)`, and further tokens without whitespace, the generated character-level code on the
joined string returns what the token-level model returns on the tokens (the table numbered from 1).
`floats` = `self._floating_patterns`, `vars` = `statement.get_metavariables()`. -/
theorem import_proof_text_is_the_model (floats vars labels body : List String)
    (hl : ∀ l ∈ labels, LabelOK l.toList) (hb : ∀ b ∈ body, ∀ c ∈ b.toList, pyIsSpace c = false) :
    Gen.ImportProof.import_proof ⟨floats.map String.toList⟩ ⟨vars.map String.toList,
        some (joinToks (("(" :: labels ++ ")" :: body).map String.toList))⟩
      = (MM.importProof floats vars ("(" :: labels ++ ")" :: body)).map ofModel :=
  import_proof_parsed floats vars labels body hl hb

open ImpSup ImportTie in
/-- the same for every layout the character loops tolerate: anything without `(` in front, any run of whitespace behind `(`,
ONE (arbitrary) whitespace character behind every label, anything behind `)` (its non-blank characters are the letters) -/
theorem import_proof_text_is_the_model_any_layout (floats vars : List String) (labels : List (String × Char))
    (body : List String) (pre ws tail : List Char)
    (hpre : ∀ c ∈ pre, c ≠ '(') (hws : ∀ c ∈ ws, pyIsSpace c = true)
    (hl : ∀ p ∈ labels, LabelOK p.1.toList ∧ pyIsSpace p.2 = true)
    (hbody : body.flatMap String.toList = tail.filter (fun c => !pyIsSpace c)) :
    Gen.ImportProof.import_proof ⟨floats.map String.toList⟩ ⟨vars.map String.toList,
        some (pre ++ '(' :: (ws ++ (flat (labels.map fun p => (p.1.toList, p.2)) ++ ')' :: tail)))⟩
      = (MM.importProof floats vars ("(" :: labels.map (·.1) ++ ")" :: body)).map ofModel :=
  import_proof_layout floats vars labels body pre ws tail hpre hws hl hbody

open ImpSup ImportTie in
/-- strings without `(` (uncompressed proofs), `None` and `''`: the Python code raises, the model rejects -/
theorem import_proof_text_rejects_uncompressed (floats vars toks : List String)
    (h : ∀ c ∈ joinToks (toks.map String.toList), c ≠ '(') :
    Gen.ImportProof.import_proof ⟨floats.map String.toList⟩ ⟨vars.map String.toList, some (joinToks (toks.map String.toList))⟩ = none
      ∧ MM.importProof floats vars toks = none := by
  refine ⟨import_proof_no_paren _ _ _ h, ?_⟩
  cases toks with
  | nil => simp [MM.importProof]
  | cons t ts =>
    apply model_needs_open
    intro e
    subst e
    have : '(' ∈ joinToks (("(" :: ts).map String.toList) := by
      rw [List.map_cons, joinToks_cons]
      have : ("(" : String).toList = ['('] := by decide
      simp [this]
    exact h _ this rfl

theorem encodeNum_no_space (n : Nat) : ∀ c ∈ MM.encodeNum n, ImpSup.pyIsSpace c = false := by
  intro c hc
  obtain ⟨_, hd⟩ := hiDigits_spec ((n - 1) / 20)
  unfold encodeNum at hc
  rcases List.mem_append.mp hc with h | h
  · obtain ⟨d, hdm, rfl⟩ := List.mem_map.mp h
    have := hd d (List.mem_reverse.mp hdm)
    have : d = 1 ∨ d = 2 ∨ d = 3 ∨ d = 4 ∨ d = 5 := by omega
    rcases this with rfl | rfl | rfl | rfl | rfl <;> decide
  · simp only [List.mem_singleton] at h
    subst h
    have : (n - 1) % 20 + 1 = 1 ∨ (n - 1) % 20 + 1 = 2 ∨ (n - 1) % 20 + 1 = 3 ∨ (n - 1) % 20 + 1 = 4 ∨ (n - 1) % 20 + 1 = 5 ∨
        (n - 1) % 20 + 1 = 6 ∨ (n - 1) % 20 + 1 = 7 ∨ (n - 1) % 20 + 1 = 8 ∨ (n - 1) % 20 + 1 = 9 ∨ (n - 1) % 20 + 1 = 10 ∨
        (n - 1) % 20 + 1 = 11 ∨ (n - 1) % 20 + 1 = 12 ∨ (n - 1) % 20 + 1 = 13 ∨ (n - 1) % 20 + 1 = 14 ∨
        (n - 1) % 20 + 1 = 15 ∨ (n - 1) % 20 + 1 = 16 ∨ (n - 1) % 20 + 1 = 17 ∨ (n - 1) % 20 + 1 = 18 ∨
        (n - 1) % 20 + 1 = 19 ∨ (n - 1) % 20 + 1 = 20 := by omega
    rcases this with h | h | h | h | h | h | h | h | h | h | h | h | h | h | h | h | h | h | h | h <;> (rw [h]; decide)

open ImpSup ImportTie in
/-- **the text of `_import_proof` meets the specification**: on the compressed proof `( labels ) <encoded steps>` (as the parser
stores it) of a statement whose variables all have `$f #Pattern` statements, it returns the table
"mandatory hypotheses in DATABASE order, then the listed labels", numbered from 1, and the steps as written (`Z` = 0). -/
theorem import_proof_text_meets_the_specification (floats vars labels : List String) (steps : List (Option Nat))
    (hv : ∀ v ∈ vars, v ∈ floats) (hl : ∀ l ∈ labels, LabelOK l.toList) (hs : ∀ n, some n ∈ steps → 1 ≤ n) :
    Gen.ImportProof.import_proof ⟨floats.map String.toList⟩ ⟨vars.map String.toList,
        some (joinToks (("(" :: labels ++ ")" :: [String.ofList (steps.flatMap MM.encodeStep)]).map String.toList))⟩
      = some ⟨numbered 1 (((floats.filter (vars.contains ·)).map (· ++ "-is-pattern") ++ labels).map String.toList),
          steps.map MM.stepVal⟩ := by
  have hb : ∀ b ∈ [String.ofList (steps.flatMap MM.encodeStep)], ∀ c ∈ b.toList, pyIsSpace c = false := by
    intro b hb c hc
    simp only [List.mem_singleton] at hb
    subst hb
    rw [String.toList_ofList] at hc
    obtain ⟨st, _, hst⟩ := List.mem_flatMap.mp hc
    cases st with
    | none => simp only [encodeStep, List.mem_singleton] at hst; subst hst; decide
    | some n => exact encodeNum_no_space n c hst
  rw [import_proof_parsed floats vars labels _ hl hb]
  have hne : ∀ l ∈ labels, l ≠ ")" := fun l h => label_ne_close l (hl l h)
  simp only [importProof, List.cons_append, ImportTie.parseLabels_spec labels _ [] hne, no_extra floats vars hv,
    Option.bind_eq_bind, Option.bind_some, List.reverse_nil, List.nil_append, List.flatMap_cons, List.flatMap_nil,
    List.append_nil, String.toList_ofList, tokenize_steps steps hs, List.mergeSort_nil, Option.pure_def, Option.map_some,
    ofModel]

end C15

