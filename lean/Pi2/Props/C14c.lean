import Pi2.EndToEnd3
import Pi2.Props.C14b
/-!
# C14 — "reproduces the same sequence of machine steps", as a theorem

`C14.deserialize_replays_history`, `C14.roundtrip_text_phase`, `C14.roundtrip_text` conclude the equality (up to notation) of
the FINAL states of a history and of its replay.  Here the step correspondence (helpers: `Pi2/EndToEnd3.lean`).

The deserialiser with its calls: `PySt.deserializeCalls` / `PySt.replayCalls` (model: `PySt.deserialize` / `PySt.replay` that
also return the interpreter calls they make, `deserializeCalls_forget`), `EndToEnd.runWithTr` / `EndToEnd.deserModWithTr` (the
loop of `deserialize_instructions` as written — `Gen.Deser.step` — that also returns, iteration by iteration, the tracker call
`PyDeser.toCall` of the method call the branch makes; `runWith_forget`, `deserMod_forget`).

`SameRun n k s out out' cs cs' s' t'` — "the replay `cs'` is the same sequence of machine steps as the history `cs`":

* `cs'.length = cs.length`;
* **re-serialising the replay gives the same streams**: `PySt.trackAll k s cs' out = some (some (t', out'))`, where
  `PySt.trackAll n s cs out = some (some (s', out'))` is the history (`trackAll` = what a `SerializingInterpreter` does: the
  tracker call `track1` and the instructions `emit1` appended to the stream of the phase);
* `SameSteps`: for **every** `j ≤ cs.length` (`StepAt … j`): both prefixes of length `j` run, have written the same three
  streams `oj`, and end in states `sj`, `tj` with `StEqX sj tj`; and if `j < cs.length`, the `j`-th calls `c`, `c'` correspond
  (`CallEqX`: the same call, or two `load`s of terms equal up to notation), emit the same instruction in `sj` resp. `tj`
  (`emit1 n sj c = emit1 k tj c' = some (some is1)`), and `c'` is the deserialiser's dispatch of that instruction in the
  replay's own state (`Dispatched tj is1 c'`: `is1 = [i]` and `callOfInstr tj i = some c'`; or, in a module, `is1 = []` and `c'`
  is the phase switch the driver makes between two streams);
* `StEqX s' t'` (the old conclusion; it is the case `j = cs.length`).

No new hypothesis: those of `deserialize_replays_history` (model) resp. `roundtrip_text_phase` / `roundtrip_text` (texts).
-/
set_option linter.unusedVariables false
namespace C14
open PySt EndToEnd PyDeser

/-- the replay `cs'` (fuel `k`, final state `t'`) is the same sequence of machine steps as the history `cs` (fuel `n`, final
state `s'`, streams `out ↦ out'`), both started in `s` -/
def SameRun (n k : Nat) (s : PySt) (out out' : List Instr × List Instr × List Instr) (cs cs' : List Call) (s' t' : PySt) :
    Prop :=
  cs'.length = cs.length ∧ PySt.trackAll k s cs' out = some (some (t', out')) ∧ SameSteps n k s s out cs cs' ∧ StEqX s' t'

theorem sameRun_of_lock {n k : Nat} {s s' t' : PySt} {cs cs' : List Call} {out out' : List Instr × List Instr × List Instr}
    (hL : Lock n k s s cs cs' s' t') (h : PySt.trackAll n s cs out = some (some (s', out'))) :
    SameRun n k s out out' cs cs' s' t' := by
  obtain ⟨hss, out'', h1, h2⟩ := hL.sameSteps out
  rw [h] at h1
  simp only [Option.some.injEq, Prod.mk.injEq, true_and] at h1
  subst h1
  exact ⟨hL.length, h2, hss, hL.final.toX⟩

/-! ## forgetting the calls -/

theorem deserializeCalls_forget (n : Nat) (s : PySt) (bs : List Nat) :
    PySt.deserialize n s bs = (PySt.deserializeCalls n s bs).map (Option.map (·.2)) :=
  PySt.deserialize_eq_deserializeCalls n s bs

/-- the traced loop as written, on the tracker, is `Gen.Deser.deserialize` (the object of `deserializer_text_is_the_model`) -/
theorem runWith_forget (n : Nat) (s : PySt) (bs : List Nat) :
    Gen.Deser.deserialize n s bs = (runWithTr n (exec n) bs.length s bs).map (Option.map (·.2)) := by
  rw [deserialize_eq_runWith]; exact runWith_eq_runWithTr n (exec n) (execCalls_exec n) _ s bs

/-- … and on `StatefulInterpreter` as written, `deserializeI` -/
theorem runWithI_forget (n : Nat) (s : PySt) (bs : List Nat) :
    deserializeI n s bs = (runWithTr n (execI n) bs.length s bs).map (Option.map (·.2)) :=
  runWith_eq_runWithTr n (execI n) (execCalls_execI n) _ s bs

theorem deserMod_forget (k : Nat) (t : PySt) (gb cb pb : List Nat) :
    deserMod k t gb cb pb = (deserModWithTr k (exec k) t gb cb pb).map (Option.map (·.2)) :=
  deserModWith_eq_tr k (exec k) (execCalls_exec k) t gb cb pb

theorem deserModI_forget (k : Nat) (t : PySt) (gb cb pb : List Nat) :
    deserModI k t gb cb pb = (deserModWithTr k (execI k) t gb cb pb).map (Option.map (·.2)) :=
  deserModWith_eq_tr k (execI k) (execCalls_execI k) t gb cb pb

/-- one interpreter call per instruction, in order: the `j`-th call is the dispatch of the `j`-th instruction (this is the
definition of `replayCalls`; the state in which it is dispatched is identified in `SameSteps`) -/
theorem one_call_per_instruction (n : Nat) (s s' : PySt) (is : List Instr) (cs : List Call)
    (h : PySt.deserializeCalls n s (encode is) = some (some (cs, s'))) : cs.length = is.length := by
  simp only [PySt.deserializeCalls, _root_.decode_encode] at h
  exact PySt.replayCalls_length n is s s' cs h

/-- the iteration of the loop as written makes the call the model dispatches (`EndToEnd.step_call`): whenever the branch of
opcode byte `b`, run on the tracker, returns a state, the method call it made is — as a tracker call — `callOfInstr` of the
instruction `decode1` reads -/
theorem text_step_makes_the_model_call (n : Nat) (s : PySt) (b : Nat) (r : List Nat) (hk : DeserTie.NodupKeys1 (b :: r))
    (x : PySt × List Nat) (h : exec n s (Gen.Deser.step n s b r) = some (some x)) :
    ∃ i rest c, decode1 (b :: r) = some (i, rest) ∧ callOfInstr s i = some c ∧
      madeCall s (Gen.Deser.step n s b r) = some [c] :=
  step_call n s b r hk x h

/-! ## 1. model level -/

/-- **the same sequence of machine steps (model level).**  Under the hypotheses of `deserialize_replays_history`: the history
`cs` wrote `is` to the stream of its phase, one instruction per call; the deserialiser run on `encode is` from `s`, whenever it
returns, returns a state `t'` — not an exception — after having made the calls `cs'`, exactly one per instruction of `is`, and
`cs'` is the same sequence of machine steps as `cs` (`SameRun`): serialising `cs'` again writes the same streams, and after
every prefix the two interpreters are in states equal up to notation. -/
theorem roundtrip_same_steps (n k : Nat) (cs : List Call) (s s' : PySt)
    (out out' : List Instr × List Instr × List Instr)
    (hS : ShapeSt s) (hT : CanonTab s.symtab) (hok : CallsOK n s cs)
    (h : PySt.trackAll n s cs out = some (some (s', out'))) :
    ∃ is, out' = addOut s.phase out is ∧ is.length = cs.length ∧
      ∀ r, PySt.deserialize k s (encode is) = some r →
        ∃ cs' t', r = some t' ∧ PySt.deserializeCalls k s (encode is) = some (some (cs', t')) ∧
          cs'.length = is.length ∧ SameRun n k s out out' cs cs' s' t' := by
  obtain ⟨is, hem, hout⟩ := trackAll_emitAll n cs s s' out out' hS hok h
  have hlen := emitAll_length n cs s s' is hok hem
  refine ⟨is, hout, hlen, fun r hr => ?_⟩
  rw [deserializeCalls_forget] at hr
  have hdc : PySt.deserializeCalls k s (encode is) = PySt.replayCalls k s is := by
    simp only [PySt.deserializeCalls, _root_.decode_encode]
  rw [hdc] at hr ⊢
  cases hrc : PySt.replayCalls k s is with
  | none => simp [hrc] at hr
  | some r0 =>
    obtain ⟨cs', t', rfl, hL⟩ := replayCalls_lock n k cs s s s' is r0 (StEqG.refl true s) hS hS hT hok hem hrc
    simp only [hrc, Option.map_some, Option.some.injEq] at hr
    exact ⟨cs', t', hr.symm, rfl, by rw [hL.length, hlen], sameRun_of_lock hL h⟩

/-! ## 2. on the texts -/

/-- one phase, any executor of the loop as written that answers only what the tracker answers -/
theorem roundtrip_text_same_steps_phaseE (n k : Nat) (E : PySt → Res → Option (Option (PySt × List Nat)))
    (hE : ExecSound k E) (hEc : ExecCalls E) (cs : List Call) (s s' : PySt) (is : List Instr)
    (out out' : List Instr × List Instr × List Instr)
    (hS : ShapeSt s) (hT : CanonTab s.symtab) (hok : CallsOK n s cs) (hkeys : ∀ x ∈ cs, x.keysNodup = true)
    (hem : PySt.emitAll n s cs = some (some (s', is)))
    (h : PySt.trackAll n s cs out = some (some (s', out'))) :
    ∀ r, runWith k E (encode is).length s (encode is) = some r →
      ∃ cs' t', r = some t' ∧ runWithTr k E (encode is).length s (encode is) = some (some (cs', t')) ∧
        PySt.deserializeCalls k s (encode is) = some (some (cs', t')) ∧ SameRun n k s out out' cs cs' s' t' := by
  intro r hr
  rw [runWith_eq_runWithTr k E hEc] at hr
  cases hrc : runWithTr k E (encode is).length s (encode is) with
  | none => simp [hrc] at hr
  | some r0 =>
    obtain ⟨cs', t', rfl, hrep, hL, _⟩ := roundtrip_phaseL n k E hE cs s s s' is (StEqG.refl true s) hS hS hT hok hkeys hem r0 hrc
    simp only [hrc, Option.map_some, Option.some.injEq] at hr
    refine ⟨cs', t', hr.symm, rfl, ?_, sameRun_of_lock hL h⟩
    simp only [PySt.deserializeCalls, _root_.decode_encode]
    exact hrep

/-- **the same sequence of machine steps, for a phase, on the texts.**  Under the hypotheses of `roundtrip_text_phase`:
`deserialize_instructions` as written, run on the bytes `encode is` the serializer as written wrote for the history `cs`, from
`s` — on the tracker (`Gen.Deser.deserialize`) or on `StatefulInterpreter` as written (`deserializeI`) —, whenever it returns,
returns a state `t'` after having made, iteration by iteration, the method calls `cs'` (`runWithTr`); these are the calls the
model deserialiser makes (`deserializeCalls`), one per instruction; `cs'` is the same sequence of machine steps as `cs`
(`SameRun`), and the serializer as written, run along `cs'`, writes the same bytes again (`writeAll`). -/
theorem roundtrip_text_same_steps_phase (n k : Nat) (cs : List Call) (s s' : PySt) (g c p g' c' p' : List Instr)
    (hS : ShapeSt s) (hT : CanonTab s.symtab) (hok : CallsOK n s cs) (hkeys : ∀ x ∈ cs, x.keysNodup = true)
    (h : PySt.trackAll n s cs (g, c, p) = some (some (s', (g', c', p')))) :
    ∃ is, (g', c', p') = addOut s.phase (g, c, p) is ∧ is.length = cs.length ∧
      (∀ r, Gen.Deser.deserialize k s (encode is) = some r →
        ∃ cs' t', r = some t' ∧ runWithTr k (exec k) (encode is).length s (encode is) = some (some (cs', t')) ∧
          PySt.deserializeCalls k s (encode is) = some (some (cs', t')) ∧ cs'.length = is.length ∧
          SameRun n k s (g, c, p) (g', c', p') cs cs' s' t' ∧
          writeAll k s cs' (encode g, encode c, encode p) = some (some (t', (encode g', encode c', encode p')))) ∧
      (∀ r, deserializeI k s (encode is) = some r →
        ∃ cs' t', r = some t' ∧ runWithTr k (execI k) (encode is).length s (encode is) = some (some (cs', t')) ∧
          PySt.deserializeCalls k s (encode is) = some (some (cs', t')) ∧ cs'.length = is.length ∧
          SameRun n k s (g, c, p) (g', c', p') cs cs' s' t' ∧
          writeAll k s cs' (encode g, encode c, encode p) = some (some (t', (encode g', encode c', encode p')))) := by
  obtain ⟨is, hem, hout⟩ := trackAll_emitAll n cs s s' _ _ hS hok h
  have hlen := emitAll_length n cs s s' is hok hem
  refine ⟨is, hout, hlen, fun r hr => ?_, fun r hr => ?_⟩
  · rw [deserialize_eq_runWith] at hr
    obtain ⟨cs', t', hr', htr, hdc, hrun⟩ := roundtrip_text_same_steps_phaseE n k (exec k) (execSound_exec k) (execCalls_exec k)
      cs s s' is _ _ hS hT hok hkeys hem h r hr
    exact ⟨cs', t', hr', htr, hdc, by rw [hrun.1, hlen], hrun, writeAll_of_trackAll k cs' s t' g c p g' c' p' hrun.2.1⟩
  · obtain ⟨cs', t', hr', htr, hdc, hrun⟩ := roundtrip_text_same_steps_phaseE n k (execI k) (execI_sound k) (execCalls_execI k)
      cs s s' is _ _ hS hT hok hkeys hem h r hr
    exact ⟨cs', t', hr', htr, hdc, by rw [hrun.1, hlen], hrun, writeAll_of_trackAll k cs' s t' g c p g' c' p' hrun.2.1⟩

/-- a module, any executor -/
theorem roundtrip_text_same_stepsE (n k : Nat) (E : PySt → Res → Option (Option (PySt × List Nat)))
    (hE : ExecSound k E) (hEc : ExecCalls E) (claims : List NPat) (gs cls pfs : List Call) (s' : PySt) (g c p : List Instr)
    (hclaims : ∀ q ∈ claims, q.Shape = true)
    (hok : ModOK n claims gs cls pfs)
    (hkeys : ∀ x ∈ gs ++ cls ++ pfs, x.keysNodup = true)
    (hT : PySt.trackAll n (PySt.init claims) (gs ++ .intoClaim :: (cls ++ .intoProof :: pfs)) ([], [], [])
      = some (some (s', (g, c, p)))) :
    ∀ r, deserModWith k E (PySt.init claims) (encode g) (encode c) (encode p) = some r →
      ∃ cs' t', r = some t' ∧
        deserModWithTr k E (PySt.init claims) (encode g) (encode c) (encode p) = some (some (cs', t')) ∧
        SameRun n k (PySt.init claims) ([], [], []) (g, c, p) (gs ++ .intoClaim :: (cls ++ .intoProof :: pfs)) cs' s' t' ∧
        writeAll k (PySt.init claims) cs' ([], [], []) = some (some (t', (encode g, encode c, encode p))) := by
  intro r hr
  rw [deserModWith_eq_tr k E hEc] at hr
  cases hrc : deserModWithTr k E (PySt.init claims) (encode g) (encode c) (encode p) with
  | none => simp [hrc] at hr
  | some r0 =>
    obtain ⟨cs', t', rfl, hL, _⟩ := roundtrip_modL n k E hE claims gs cls pfs s' g c p hclaims hok hkeys hT r0 hrc
    simp only [hrc, Option.map_some, Option.some.injEq] at hr
    have hrun := sameRun_of_lock hL hT
    exact ⟨cs', t', hr.symm, rfl, hrun, writeAll_of_trackAll_init k cs' _ t' g c p hrun.2.1⟩

/-- **the same sequence of machine steps, on the texts** (C14).  Under the hypotheses of `roundtrip_text`: the three byte streams
the serializer as written wrote along the module's history `gs; into_claim_phase; cls; into_proof_phase; pfs`, fed phase by
phase to `deserialize_instructions` as written on a fresh interpreter — the tracker (`deserMod`) or `StatefulInterpreter` as
written (`deserModI`), the phases switched by `into_claim_phase` / `into_proof_phase` as written —: whenever the run returns,
it returns a state `t'`, not an exception, after having made the interpreter calls `cs'` (`deserModWithTr`: the method calls of
the loop iterations and the two phase switches, in order), and

* `cs'` has as many calls as the history, the `j`-th corresponding to the history's `j`-th (`CallEqX`), both emitting the same
  instruction, `cs'[j]` being the deserialiser's dispatch of it in the replay's own `j`-th state;
* before and after every one of these steps the two interpreters are in the same stack, memory and claim state up to notation
  and the same symbol table (`StEqX`), having written the same three streams so far (`SameSteps`);
* serialising the replay again — the model `trackAll`, and the serializer as written `writeAll` — gives the same three byte
  streams `encode g`, `encode c`, `encode p`. -/
theorem roundtrip_text_same_steps (n k : Nat) (claims : List NPat) (gs cls pfs : List Call) (s' : PySt) (g c p : List Instr)
    (hclaims : ∀ q ∈ claims, q.Shape = true)
    (hok : ModOK n claims gs cls pfs)
    (hkeys : ∀ x ∈ gs ++ cls ++ pfs, x.keysNodup = true)
    (hT : PySt.trackAll n (PySt.init claims) (gs ++ .intoClaim :: (cls ++ .intoProof :: pfs)) ([], [], [])
      = some (some (s', (g, c, p)))) :
    (∀ r, deserMod k (PySt.init claims) (encode g) (encode c) (encode p) = some r →
      ∃ cs' t', r = some t' ∧
        deserModWithTr k (exec k) (PySt.init claims) (encode g) (encode c) (encode p) = some (some (cs', t')) ∧
        SameRun n k (PySt.init claims) ([], [], []) (g, c, p) (gs ++ .intoClaim :: (cls ++ .intoProof :: pfs)) cs' s' t' ∧
        writeAll k (PySt.init claims) cs' ([], [], []) = some (some (t', (encode g, encode c, encode p)))) ∧
    (∀ r, deserModI k (PySt.init claims) (encode g) (encode c) (encode p) = some r →
      ∃ cs' t', r = some t' ∧
        deserModWithTr k (execI k) (PySt.init claims) (encode g) (encode c) (encode p) = some (some (cs', t')) ∧
        SameRun n k (PySt.init claims) ([], [], []) (g, c, p) (gs ++ .intoClaim :: (cls ++ .intoProof :: pfs)) cs' s' t' ∧
        writeAll k (PySt.init claims) cs' ([], [], []) = some (some (t', (encode g, encode c, encode p)))) :=
  ⟨roundtrip_text_same_stepsE n k (exec k) (execSound_exec k) (execCalls_exec k) claims gs cls pfs s' g c p hclaims hok hkeys hT,
   roundtrip_text_same_stepsE n k (execI k) (execI_sound k) (execCalls_execI k) claims gs cls pfs s' g c p hclaims hok hkeys hT⟩

/-! ## 3. why the calls correspond only up to notation (`CallEqX`) -/

/-- does the call load a term written with the notation node `inst`? -/
def isInstLoad : Call → Bool
  | .load (.pat (.inst _ _)) => true
  | _ => false

/-- the second alternative of `CallEqX` cannot be dropped: the well-formed history `metavar 0; metavar 0; implies; save;
load t` with `t = inst (φ0 → φ0) {}` (`==` to the saved `φ0 → φ0`, written with a notation node) emits `Load 0`, and the
deserialiser as written — here on `StatefulInterpreter` as written — replays `load(memory[0])`, i.e. loads `φ0 → φ0`: the fifth
replayed call is a different call, equal to the history's only up to notation -/
theorem calls_correspond_only_up_to_notation :
    let cs : List Call := [.metavar 0 [] [] [] [] [], .metavar 0 [] [] [] [] [], .implies, .save,
      .load (.pat (.inst (.imp (.mv 0 [] [] [] [] []) (.mv 0 [] [] [] [] [])) []))]
    callsOKB 5 (PySt.init []) cs = true ∧ cs.all Call.keysNodup = true ∧
    cs.map isInstLoad = [false, false, false, false, true] ∧
    (match PySt.trackAll 5 (PySt.init []) cs ([], [], []) with
     | some (some (_, (g, _, _))) =>
       (match runWithTr 5 (execI 5) (encode g).length (PySt.init []) (encode g) with
        | some (some (cs', _)) => some (cs'.map isInstLoad)
        | _ => none)
     | _ => none) = some [false, false, false, false, false] := by
  decide +kernel

/-! ## 4. non-vacuity: the history of `PFExample.mod` -/

namespace RoundTripExample
open PFExample

/-- independent of the theorems, by evaluation: the traced runs of the deserialiser as written on the bytes of `mod` — on the
tracker and on `StatefulInterpreter` as written — return; each made 41 calls (8 + 1 + 12 + 1 + 19: one per instruction, and the
two phase switches), as many as the history; and the serializer as written, run along the replayed calls, writes the bytes of
`calls_bytes` again -/
def checkSteps : Bool :=
  match PySt.trackAll 40 (PySt.init mod.claimsOf) calls ([], [], []) with
  | some (some (_, (g, c, p))) =>
    (match deserModWithTr 40 (exec 40) (PySt.init mod.claimsOf) (encode g) (encode c) (encode p) with
     | some (some (cs', _)) => cs'.length == calls.length && cs'.length == 41 &&
         (((writeAll 40 (PySt.init mod.claimsOf) cs' ([], [], [])).bind id).map (·.2) == some (encode g, encode c, encode p))
     | _ => false) &&
    (match deserModWithTr 40 (execI 40) (PySt.init mod.claimsOf) (encode g) (encode c) (encode p) with
     | some (some (cs', _)) => cs'.length == calls.length && cs'.length == 41 &&
         (((writeAll 40 (PySt.init mod.claimsOf) cs' ([], [], [])).bind id).map (·.2) == some (encode g, encode c, encode p))
     | _ => false) &&
    (encode g, encode c, encode p) ==
      ([4, 0, 4, 1, 3, 0, 7, 0, 26, 0, 5, 5, 30],
       [4, 0, 4, 1, 3, 0, 7, 0, 26, 0, 5, 5, 30, 137, 0, 137, 0, 5, 30],
       [137, 0, 137, 0, 5, 137, 0, 13, 26, 2, 2, 1, 137, 0, 137, 0, 5, 12, 26, 1, 1, 21, 137, 0, 12, 26, 1, 1, 21,
        30, 29, 0, 30])
  | _ => false

theorem checkSteps_true : checkSteps = true := by decide +kernel

/-- **all hypotheses of `roundtrip_text_same_steps` hold of the history of `mod`** and both deserialisations return
(`check_true`, by `decide +kernel`): so there are replayed call lists `cs'`, `csI'` — of the deserialiser as written on a fresh
tracker / a fresh `StatefulInterpreter` as written — that are the same sequence of 41 machine steps as the history of `mod`
and re-serialise to the same bytes -/
theorem mod_same_steps :
    ∃ (s' : PySt) (g c p : List Instr) (cs' csI' : List Call) (t tI : PySt),
      PySt.trackAll 40 (PySt.init mod.claimsOf) calls ([], [], []) = some (some (s', (g, c, p))) ∧
      deserModWithTr 40 (exec 40) (PySt.init mod.claimsOf) (encode g) (encode c) (encode p) = some (some (cs', t)) ∧
      SameRun 40 40 (PySt.init mod.claimsOf) ([], [], []) (g, c, p) calls cs' s' t ∧
      writeAll 40 (PySt.init mod.claimsOf) cs' ([], [], []) = some (some (t, (encode g, encode c, encode p))) ∧
      deserModWithTr 40 (execI 40) (PySt.init mod.claimsOf) (encode g) (encode c) (encode p) = some (some (csI', tI)) ∧
      SameRun 40 40 (PySt.init mod.claimsOf) ([], [], []) (g, c, p) calls csI' s' tI ∧
      writeAll 40 (PySt.init mod.claimsOf) csI' ([], [], []) = some (some (tI, (encode g, encode c, encode p))) ∧
      cs'.length = 41 ∧ csI'.length = 41 := by
  have h := check_true
  simp only [check, Bool.and_eq_true, List.all_eq_true] at h
  obtain ⟨⟨⟨hsh, hok⟩, hkeys⟩, hrun⟩ := h
  split at hrun
  · rename_i s' g c p hT
    simp only [Bool.and_eq_true] at hrun
    obtain ⟨hD, hDI⟩ := roundtrip_text_same_steps 40 40 mod.claimsOf gs cls pfs s' g c p hsh
      (modOKB_sound 40 _ gs cls pfs hok) hkeys hT
    obtain ⟨h1, h2⟩ := hrun
    split at h1
    · rename_i t ht
      split at h2
      · rename_i tI htI
        obtain ⟨cs', t', e, htr, hsr, hw⟩ := hD _ ht
        cases e
        obtain ⟨csI', tI', e, htrI, hsrI, hwI⟩ := hDI _ htI
        cases e
        have hlen : calls.length = 41 := by decide
        exact ⟨s', g, c, p, cs', csI', t, tI, hT, htr, hsr, hw, htrI, hsrI, hwI, by rw [hsr.1]; exact hlen,
          by rw [hsrI.1]; exact hlen⟩
      · exact absurd h2 (by simp)
    · exact absurd h1 (by simp)
  · exact absurd hrun (by simp)

/-- instance of the step statement: after each of the 42 prefixes (0 … 41 calls) the history of `mod` and its replay on
`StatefulInterpreter` as written have written the same streams and are in states equal up to notation -/
theorem mod_every_prefix :
    ∃ (g c p : List Instr) (csI' : List Call) (tI : PySt),
      deserModWithTr 40 (execI 40) (PySt.init mod.claimsOf) (encode g) (encode c) (encode p) = some (some (csI', tI)) ∧
      ∀ j, j ≤ 41 → ∃ sj tj oj,
        PySt.trackAll 40 (PySt.init mod.claimsOf) (calls.take j) ([], [], []) = some (some (sj, oj)) ∧
        PySt.trackAll 40 (PySt.init mod.claimsOf) (csI'.take j) ([], [], []) = some (some (tj, oj)) ∧ StEqX sj tj := by
  obtain ⟨s', g, c, p, cs', csI', t, tI, _, _, _, _, htrI, hsrI, _⟩ := mod_same_steps
  refine ⟨g, c, p, csI', tI, htrI, fun j hj => ?_⟩
  have hlen : calls.length = 41 := by decide
  obtain ⟨sj, tj, oj, h1, h2, h3, _⟩ := hsrI.2.2.1.2 j (by rw [hlen]; exact hj)
  exact ⟨sj, tj, oj, h1, h2, h3⟩

end RoundTripExample

end C14

#print axioms C14.sameRun_of_lock
#print axioms C14.deserializeCalls_forget
#print axioms C14.runWith_forget
#print axioms C14.runWithI_forget
#print axioms C14.deserMod_forget
#print axioms C14.deserModI_forget
#print axioms C14.one_call_per_instruction
#print axioms C14.text_step_makes_the_model_call
#print axioms C14.roundtrip_same_steps
#print axioms C14.roundtrip_text_same_steps_phaseE
#print axioms C14.roundtrip_text_same_steps_phase
#print axioms C14.roundtrip_text_same_stepsE
#print axioms C14.roundtrip_text_same_steps
#print axioms C14.calls_correspond_only_up_to_notation
#print axioms C14.RoundTripExample.checkSteps_true
#print axioms C14.RoundTripExample.mod_same_steps
#print axioms C14.RoundTripExample.mod_every_prefix
