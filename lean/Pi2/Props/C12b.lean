import Pi2.NotationTotal
import Pi2.Props.C12
/-!
# C12 — notation is transparent: TOTAL correctness (termination of `==` and of the other notation operations)

`Props/C12.lean` is partial correctness: *if* `peqF n a b = some r` *then* `r = decide (a.expand = b.expand)` (running
out of fuel, `none`, is Python's `RecursionError`).  This module adds termination: every operation of `pattern.py` on
patterns with notation returns as soon as the fuel reaches an explicit, computable bound, for ALL patterns (no `Shape`,
no distinct-keys hypothesis: `NPat` is a finite tree, and although `Instantiate`'s methods recurse on
`self.simplify()`, which is not a subterm, the measure `NPat.ht` — `Pi2/NotationTotal.lean` — strictly decreases:
`ht (simplify (inst p m)) ≤ ht p * wt m < ht (inst p m)`).  So `==` cannot loop, and with `Shape` it *decides*
equality of the full expansions.

* `N a b = ht a + ht b - 1` is the bound for `a == b`; `ht` is defined by structural recursion:
  `ht leaf = 1`, `ht (l → r) = ht (l r) = 1 + max`, `ht (∃/μ x. p) = 1 + ht p`, `ht (p[q/x]) = 1 + ht p + ht q`,
  `ht (Instantiate p m) = 1 + ht p * wt m`, `wt m = 1 + |m| + max ht of the values`.
* The bound is attained on small inputs (examples at the end) but is an over-approximation in general
  (multiplicative in the nesting of notation bodies).  The exact recursion depth is computable too, by bounded search
  below `N`: `NPat.peqDepth`, with `peqF n a b = none ↔ n < peqDepth a b`.
-/
set_option linter.unusedVariables false
namespace C12
open NPat

/-- the fuel bound for `a == b`: `ht a + ht b - 1` -/
def N (a b : NPat) : Nat := NPat.peqBound a b

theorem N_eq (a b : NPat) : N a b = a.ht + b.ht - 1 := rfl

/-- **`==` terminates** (no hypothesis on the patterns) -/
theorem peqF_total (a b : NPat) : ∀ n, n ≥ N a b → ∃ r, peqF n a b = some r :=
  fun n h => NPat.peqF_terminates a b n h

/-- **total correctness of `==`**: with fuel at least `N a b`, Python's `a == b` returns, and returns whether the
full expansions are equal -/
theorem eq_decides_expansion_equality (a b : NPat) (ha : a.Shape = true) (hb : b.Shape = true) :
    ∀ n, n ≥ N a b → peqF n a b = some (decide (a.expand = b.expand)) :=
  fun n h => NPat.peqF_decides a b ha hb n h

/-- fuel monotonicity of `==`: more fuel, same answer -/
theorem peqF_mono {n m : Nat} (h : n ≤ m) (a b : NPat) (r : Bool) (hr : peqF n a b = some r) :
    peqF m a b = some r := NPat.peqF_mono h a b r hr

/-- fuel is the recursion depth: `==` fails (`none` = `RecursionError`) exactly below the computable depth
`peqDepth a b`, which is at most `N a b` -/
theorem eq_recursion_depth (a b : NPat) :
    (∀ n, peqF n a b = none ↔ n < peqDepth a b) ∧ peqDepth a b ≤ N a b :=
  ⟨peqF_none_iff a b, peqDepth_le_bound a b⟩

/-- on shaped patterns `==` is a decidable equivalence relation that now provably answers: reflexive, symmetric and
transitive at the bound (not only "whenever it returns") -/
theorem eq_is_equivalence (a b c : NPat) (ha : a.Shape = true) (hb : b.Shape = true) (hc : c.Shape = true) :
    peqF (N a a) a a = some true ∧
    peqF (N a b) a b = peqF (N b a) b a ∧
    (peqF (N a b) a b = some true → peqF (N b c) b c = some true → peqF (N a c) a c = some true) := by
  rw [eq_decides_expansion_equality a a ha ha _ (Nat.le_refl _), eq_decides_expansion_equality a b ha hb _ (Nat.le_refl _),
    eq_decides_expansion_equality b a hb ha _ (Nat.le_refl _), eq_decides_expansion_equality b c hb hc _ (Nat.le_refl _),
    eq_decides_expansion_equality a c ha hc _ (Nat.le_refl _)]
  refine ⟨by simp, ?_, ?_⟩
  · exact congrArg some (decide_eq_decide.mpr ⟨Eq.symm, Eq.symm⟩)
  · intro h1 h2
    simp only [Option.some.injEq, decide_eq_true_eq] at h1 h2 ⊢
    exact h1.trans h2

/-- **the other notation operations terminate**, one measure for all of them (no hypothesis on the patterns):
`instantiate` from fuel `ht p * wt δ` (result not higher than that), `apply_esubst` / `apply_ssubst` from `ht p`
(result at most `ht p + ht plug + 1`), `metavars`, `evar_is_free`, `simplify`, `deconstruct_nary_application`
from `ht p` -/
theorem operations_total :
    (∀ δ p n, n ≥ ht p * wt δ → ∃ r, instF n δ p = some r ∧ ht r ≤ ht p * wt δ) ∧
    (∀ x plug p n, n ≥ ht p → ∃ r, esubF n x plug p = some r ∧ ht r ≤ ht p + ht plug + 1) ∧
    (∀ x plug p n, n ≥ ht p → ∃ r, ssubF n x plug p = some r ∧ ht r ≤ ht p + ht plug + 1) ∧
    (∀ p n, n ≥ ht p → ∃ L, metavarsF n p = some L) ∧
    (∀ e p n, n ≥ ht p → ∃ b, evarIsFreeF n e p = some b) ∧
    (∀ p n, n + 1 ≥ ht p → ∃ s, simplifyF n p = some s ∧ ht s ≤ ht p) ∧
    (∀ p m n, n + 1 ≥ ht (.inst p m) → ∃ s, simplifyF n (.inst p m) = some s ∧ ht s < ht (.inst p m)) ∧
    (∀ p n, n ≥ ht p → ∃ r, naryF n p = some r) :=
  ⟨fun δ p n h => instF_terminates δ p n h, fun x plug p n h => esubF_terminates x plug p n h,
   fun x plug p n h => ssubF_terminates x plug p n h, fun p n h => metavarsF_terminates p n h,
   fun e p n h => evarIsFreeF_terminates n e p h, fun p n h => simplifyF_terminates p n h,
   fun p m n h => by
     rw [ht_inst] at h ⊢
     obtain ⟨s, hs, hs'⟩ := instF_terminates m p n (by omega)
     exact ⟨s, by simpa only [simplifyF] using hs, by omega⟩,
   fun p n h => naryF_terminates n p h⟩

/-- fuel monotonicity of all the operations: more fuel, same answer -/
theorem operations_mono {n m : Nat} (h : n ≤ m) :
    (∀ δ p r, instF n δ p = some r → instF m δ p = some r) ∧
    (∀ x plug p r, esubF n x plug p = some r → esubF m x plug p = some r) ∧
    (∀ x plug p r, ssubF n x plug p = some r → ssubF m x plug p = some r) ∧
    (∀ p L, metavarsF n p = some L → metavarsF m p = some L) ∧
    (∀ e p b, evarIsFreeF n e p = some b → evarIsFreeF m e p = some b) ∧
    (∀ p s, simplifyF n p = some s → simplifyF m p = some s) ∧
    (∀ p r, naryF n p = some r → naryF m p = some r) ∧
    (∀ a b r, peqF n a b = some r → peqF m a b = some r) := by
  refine ⟨fun δ p => instF_mono h δ p, ?_, ?_, fun p => metavarsF_mono h p, ?_, ?_,
    fun p r hr => naryF_mono h p r hr, fun a b => NPat.peqF_mono h a b⟩
  · intro x plug p
    exact OLe.of_step (fun n => esubF n x plug p) (fun n => (monoAll n).2.2.2.1 x plug p) h
  · intro x plug p
    exact OLe.of_step (fun n => ssubF n x plug p) (fun n => (monoAll n).2.2.2.2 x plug p) h
  · intro e p
    exact OLe.of_step (fun n => evarIsFreeF n e p) (fun n => evarIsFreeF_step n e p) h
  · intro p s hs
    cases p with
    | inst q mm => simp only [simplifyF] at hs ⊢; exact instF_mono h mm q s hs
    | _ => simpa only [simplifyF] using hs

/-- **total correctness of the other operations** on shaped patterns: from the bound on, each returns, and returns
the operation on the expansion (`Props/C12.lean` composed with `operations_total`) -/
theorem operations_total_correct :
    (∀ δ p n, p.Shape = true → ShapeMap δ = true → n ≥ ht p * wt δ →
      ∃ r, instF n δ p = some r ∧ r.expand = Py.inst (Py.lookup (expand.expandMap δ)) p.expand) ∧
    (∀ x plug p n, p.Shape = true → plug.Shape = true → n ≥ ht p →
      ∃ r, esubF n x plug p = some r ∧ r.expand = Py.esub x plug.expand p.expand) ∧
    (∀ x plug p n, p.Shape = true → plug.Shape = true → n ≥ ht p →
      ∃ r, ssubF n x plug p = some r ∧ r.expand = Py.ssub x plug.expand p.expand) ∧
    (∀ p n, p.Shape = true → n ≥ ht p →
      ∃ L, metavarsF n p = some L ∧ ∀ j, j ∈ L ↔ j ∈ Py.metavars p.expand) ∧
    (∀ e p n, p.Shape = true → n ≥ ht p → evarIsFreeF n e p = some (p.expand.eFresh e)) ∧
    (∀ p m n, (NPat.inst p m).Shape = true → n + 1 ≥ ht (.inst p m) →
      ∃ s, simplifyF n (.inst p m) = some s ∧ s.expand = (NPat.inst p m).expand) := by
  refine ⟨?_, ?_, ?_, ?_, ?_, ?_⟩
  · intro δ p n hp hδ h
    obtain ⟨r, hr, _⟩ := instF_terminates δ p n h
    exact ⟨r, hr, instantiate_transparent n δ p r hp hδ hr⟩
  · intro x plug p n hp hq h
    obtain ⟨r, hr, _⟩ := esubF_terminates x plug p n h
    exact ⟨r, hr, esubst_transparent n x plug p r hp hq hr⟩
  · intro x plug p n hp hq h
    obtain ⟨r, hr, _⟩ := ssubF_terminates x plug p n h
    exact ⟨r, hr, ssubst_transparent n x plug p r hp hq hr⟩
  · intro p n hp h
    obtain ⟨L, hL⟩ := metavarsF_terminates p n h
    exact ⟨L, hL, metavars_transparent n p L hp hL⟩
  · intro e p n hp h
    obtain ⟨b, hb⟩ := evarIsFreeF_terminates n e p h
    rw [hb, evar_is_free_transparent n e p b hp hb]
  · intro p m n hp h
    obtain ⟨s, hs, _⟩ := simplifyF_terminates (.inst p m) n h
    exact ⟨s, hs, simplify_transparent n p m s hp hs⟩

/-! ## the same for the text of `pattern.py` (`Pi2/Gen/PyNotation.lean`, through `notation_text_is_the_model`) -/

/-- **`==` as written in `pattern.py` terminates** (dataclass `__eq__`s, `Instantiate.__eq__`, reflected-operand
protocol): on patterns whose argument maps are `dict`s (`NotTie.DK`) it returns from fuel `N a b` on, and on shaped
patterns it returns whether the full expansions are equal -/
theorem notation_text_eq_total (a b : NPat) (da : NotTie.DK a = true) (db : NotTie.DK b = true) :
    (∀ n, n ≥ N a b → ∃ r, Gen.PyNot.eq n a b = some r) ∧
    (a.Shape = true → b.Shape = true → ∀ n, n ≥ N a b → Gen.PyNot.eq n a b = some (decide (a.expand = b.expand))) ∧
    (∀ n, Gen.PyNot.eq n a b = none ↔ n < peqDepth a b) := by
  refine ⟨fun n h => ?_, fun ha hb n h => ?_, fun n => ?_⟩
  · rw [NotTie.eq_eq n a b da db]; exact peqF_total a b n h
  · rw [NotTie.eq_eq n a b da db]; exact eq_decides_expansion_equality a b ha hb n h
  · rw [NotTie.eq_eq n a b da db]; exact peqF_none_iff a b n

/-- the other methods as written terminate, with the same bounds -/
theorem notation_text_operations_total :
    (∀ δ p n, NotTie.DK p = true → NotTie.DKDict δ → n ≥ ht p * wt δ → ∃ r, Gen.PyNot.instantiate n p δ = some r) ∧
    (∀ x plug p n, NotTie.DK p = true → NotTie.DK plug = true → n ≥ ht p → ∃ r, Gen.PyNot.apply_esubst n p x plug = some r) ∧
    (∀ x plug p n, NotTie.DK p = true → NotTie.DK plug = true → n ≥ ht p → ∃ r, Gen.PyNot.apply_ssubst n p x plug = some r) ∧
    (∀ p n, NotTie.DK p = true → n ≥ ht p → ∃ L, Gen.PyNot.metavars n p = some L) ∧
    (∀ e p n, NotTie.DK p = true → n ≥ ht p → ∃ b, Gen.PyNot.evar_is_free n p e = some b) ∧
    (∀ p m n, NotTie.DK (.inst p m) = true → n + 1 ≥ ht (.inst p m) → ∃ s, Gen.PyNot.simplify n (.inst p m) = some (some s)) := by
  refine ⟨?_, ?_, ?_, ?_, ?_, ?_⟩
  · intro δ p n dp dδ h
    obtain ⟨r, hr, _⟩ := instF_terminates δ p n h
    exact ⟨r, by rw [NotTie.instantiate_eq n p δ dp dδ]; exact hr⟩
  · intro x plug p n dp dq h
    obtain ⟨r, hr, _⟩ := esubF_terminates x plug p n h
    exact ⟨r, by rw [NotTie.apply_esubst_eq n p x plug dp dq]; exact hr⟩
  · intro x plug p n dp dq h
    obtain ⟨r, hr, _⟩ := ssubF_terminates x plug p n h
    exact ⟨r, by rw [NotTie.apply_ssubst_eq n p x plug dp dq]; exact hr⟩
  · intro p n dp h
    obtain ⟨L, hL⟩ := metavarsF_terminates p n h
    exact ⟨L, by rw [NotTie.metavars_eq n p dp]; exact hL⟩
  · intro e p n dp h
    obtain ⟨b, hb⟩ := evarIsFreeF_terminates n e p h
    exact ⟨b, NotTie.evar_is_free_of_model n e p b dp hb⟩
  · intro p m n d h
    obtain ⟨s, hs, _⟩ := simplifyF_terminates (.inst p m) n h
    exact ⟨s, by rw [NotTie.simplify_eq n p m d, hs]; rfl⟩

/-! ## non-vacuity and tightness: fuel is recursion depth -/

private def φ0 : NPat := .mv 0 [] [] [] [] []

/-- the bound is attained: `Instantiate(φ0, {}) == x0` needs two frames (`__eq__`, then `instantiate` inside
`simplify` / the comparison of the result); with one unit of fuel the model reports `RecursionError` -/
example : N (.inst φ0 []) (.evar 0) = 2 := by decide
example : peqF 1 (.inst φ0 []) (.evar 0) = none := by decide
example : peqF 2 (.inst φ0 []) (.evar 0) = some false := by decide
example : Gen.PyNot.eq 1 (.inst φ0 []) (.evar 0) = none := by decide
example : Gen.PyNot.eq 2 (.inst φ0 []) (.evar 0) = some false := by decide
/-- … and on notation-free patterns -/
example : N (.evar 0) (.evar 0) = 1 ∧ peqF 0 (.evar 0) (.evar 0) = none ∧ peqF 1 (.evar 0) (.evar 0) = some true := by decide

/-- `¬¬φ0` written with notation against its expansion (the example of `Props/C12.lean`): the recursion depth of `==`
is 7 — one unit less is `RecursionError` —, the closed bound is 64 -/
example : peqF 6 (negN (negN φ0)) (NPat.ofPat (negN (negN φ0)).expand) = none := by decide
example : peqF 7 (negN (negN φ0)) (NPat.ofPat (negN (negN φ0)).expand) = some true := by decide
example : N (negN (negN φ0)) (NPat.ofPat (negN (negN φ0)).expand) = 64 := by decide

/-- the depth grows with the nesting of notation: `k` nested notation applications need `k + 1` frames -/
private def nest : Nat → NPat
  | 0 => φ0
  | k + 1 => .inst φ0 [(0, nest k)]
example : peqF 5 (nest 5) φ0 = none ∧ peqF 6 (nest 5) φ0 = some true ∧ N (nest 5) φ0 = 16 := by decide
example : peqDepth (nest 3) φ0 = 4 := by decide

#print axioms peqF_total
#print axioms eq_decides_expansion_equality
#print axioms peqF_mono
#print axioms eq_recursion_depth
#print axioms eq_is_equivalence
#print axioms operations_total
#print axioms operations_mono
#print axioms operations_total_correct
#print axioms notation_text_eq_total
#print axioms notation_text_operations_total

end C12
