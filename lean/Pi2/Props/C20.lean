import Pi2.KoreThm
import Pi2.KoreTie
import Pi2.KDefTie
/-!
# C20 — K execution traces become chained, checkable rewrite proofs

Model: `Pi2/Kore.lean` — `ConvertionScope`, `LanguageSemantics._convert_pattern` on the quantifier-free
Kore fragment (notation definitions taken from the table regenerated from `proofs/kore.py`),
`convert_substitutions`, `ExecutionProofExp.rewrite_event` / `from_proof_hints` (tree after the `fix:`
commit F16: a claim may be stated again).

* variables: `scope_injective` (equal names ↦ equal metavariables, distinct ↦ distinct), `scope_stable`
  (a name keeps its id however the scope grows), `conv_scope` (conversion only appends, every variable
  of the term ends up in the scope), `ids_disjoint` (pattern variables and sort parameters do not
  collide while a rule has at most 100 variables — beyond that they do: finding KF-C20-ids, witnessed
  by an `example` in `Pi2/KoreThm.lean`);
* `convert_subst`: instantiating a converted rule with the converted (total, ground) substitution is,
  up to notation, the conversion of the substituted rule;
* chaining: `chain_claims` (one claim per step, in order, each the instantiated rule of its step),
  `chain_links` (each claim is a `kore-rewrites` whose left side is `==` to the configuration the
  previous step reached, the first to the initial configuration), `mismatch_refused`;
* the TEXT is the model (`Pi2/KoreTie.lean`; `Pi2/Gen/PyKore.lean` is regenerated from
  `language_semantics.py` / `execution_proof_generation.py` on every run by `vlib/transkore.py`):
  `kore_conversion_text_is_the_model` (`ConvertionScope`, `_convert_sort`, `_convert_pattern`, `convert_pattern`,
  `convert_substitutions` are `Scope.resolveMv / resolveSortParam`, `convSort`, `conv`, `convertPattern`,
  `convertSubst`: plain equations), `rewrite_event_text_is_the_model`, `trace_text_is_the_model`
  (`rewrite_event = rewriteEventF`, `from_proof_hints = traceF`, up to the order in which fuel runs out),
  `text_chain` (the chaining theorems stated directly about the translated `from_proof_hints`);
* the construction of the semantics and the reading of the hints are the TEXT too (`Pi2/KDefTie.lean`; `Pi2/Gen/PyKDef.lean` is
  regenerated from `language_semantics.py` / `rewrite_steps.py` on every run by `vlib/transkdef.py`; specification
  `Pi2/KDefSpec.lean`): `kore_definition_text_is_the_model` (`from_kore_definition` on a one-module definition raises exactly when
  `sigOfDefinition` refuses it, and otherwise returns a semantics whose signature is `sigOfDefinition`'s, whose `get_axiom ordinal` is
  the rule with that ordinal — ordinals count ALL axioms —, whose cached scope per ordinal is the scope `conv` produced, and whose
  `get_sort / get_symbol / resolve_to_ksymbol` are the lookups in the signature), `proof_hints_text_is_the_model` (`get_proof_hints` is
  `traceStepsR`), `k_pipeline_text_is_the_model` (definition + hint stream ⟼ the claims of `traceF`, all from translated text);
* acceptance of the serialised module by the checker is NOT a theorem here (the functional
  assumptions use a constrained metavariable, outside the fragment of `module_accepted`): it is decided
  by the real checker on every generated module in the check.
-/
namespace C20
open Kore

theorem scope_injective (sc : Scope) (h : sc.mvs.Nodup) (x y : Nat) :
    ((sc.resolveMv x).2 = ((sc.resolveMv x).1.resolveMv y).2 ↔ x = y) := Kore.scope_injective sc h x y

theorem scope_stable (sc sc' : Scope) (x : Nat) (hx : x ∈ sc.mvs) (hext : ∃ ext, sc'.mvs = sc.mvs ++ ext) :
    (sc'.resolveMv x) = (sc', sc.mvs.idxOf x) := Kore.scope_stable sc sc' x hx hext

theorem conv_scope (sg : Sig) (sc sc' : Scope) (t : KTerm) (p : NPat) (h : conv sg sc t = some (sc', p))
    (hn : sc.mvs.Nodup) :
    sc'.mvs.Nodup ∧ (∃ ext, sc'.mvs = sc.mvs ++ ext) ∧ (∀ x ∈ t.evars, x ∈ sc'.mvs) :=
  Kore.conv_scope sg sc sc' t p h hn

theorem ids_disjoint (sc : Scope) (x s : Nat) (h : sc.mvs.length < 100) :
    (sc.resolveMv x).2 ≠ (sc.resolveSortParam s).2 := Kore.ids_disjoint sc x s h

theorem convert_subst (sg : Sig) (r : KTerm) (σ : List (Nat × KTerm)) (sc1 sc1' : Scope) (p : NPat)
    (δ : List (Nat × NPat))
    (hr : conv sg {} r = some (sc1, p))
    (hkeys : (σ.map (·.1)).Nodup) (hground : ∀ x t, (x, t) ∈ σ → t.ground = true)
    (hdom : ∀ x ∈ r.evars, (σ.lookup x).isSome) (hsub : ∀ x t, (x, t) ∈ σ → x ∈ r.evars)
    (hδ : convertSubst sg sc1 σ [] = some (sc1', δ)) (hsmall : sc1.mvs.length ≤ 100) :
    ∃ sc2 q n inst, conv sg {} (r.subst σ) = some (sc2, q) ∧ NPat.instF n δ p = some inst ∧
      inst.expand = q.expand :=
  Kore.convert_subst sg r σ sc1 sc1' p δ hr hkeys hground hdom hsub hδ hsmall

theorem chain_claims (sg : Sig) (n : Nat) (steps : List (NPat × List (Nat × NPat))) (st st' : ExecSt)
    (h : traceF sg n st steps = some (some st')) :
    ∃ insts, st'.claims = st.claims ++ insts ∧ insts.length = steps.length ∧
      ∀ i (h : i < steps.length), ∃ inst, insts[i]? = some inst ∧ NPat.instF n (steps[i]).2 (steps[i]).1 = some inst :=
  Kore.chain_claims sg n steps st st' h

theorem chain_links (sg : Sig) (n : Nat) (steps : List (NPat × List (Nat × NPat))) (st st' : ExecSt)
    (h : traceF sg n st steps = some (some st')) :
    ∃ insts, st'.claims = st.claims ++ insts ∧ Linked n st.curr insts st'.curr :=
  Kore.chain_links sg n steps st st' h

theorem mismatch_refused (sg : Sig) (n : Nat) (st : ExecSt) (rule : NPat) (σ : List (Nat × NPat))
    (inst rw s lhs rhs : NPat) (ar : Nat)
    (hi : NPat.instF n σ rule = some inst) (hk : koreNotation "kore-rewrites" = some (rw, ar))
    (hm : NPat.notationMatchesF n rw ar inst = some (some [s, lhs, rhs]))
    (hne : NPat.peqF n lhs st.curr = some false) :
    rewriteEventF sg n st rule σ = some none :=
  Kore.mismatch_refused sg n st rule σ inst rw s lhs rhs ar hi hk hm hne

/-! ## the Python text is the model -/
section Text
open PyI PyM PyK Gen.PyKore KoreTie

/-- `ConvertionScope` and the conversion functions of `LanguageSemantics`, as translated from the source text,
are the model's: for every Python scope object `withScope ps sc` (the dictionaries that the model's scope `sc`
stands for), every signature, every Kore sort / term of the modelled fragment, every substitution -/
theorem kore_conversion_text_is_the_model :
    Gen.PyKore.translated = true ∧
    (∀ ps sc x, ConvertionScope.resolve_metavar (withScope ps sc) x
        = ret (withScope ps (sc.resolveMv x).1, mvN (sc.resolveMv x).2)) ∧
    (∀ ps sc x, ConvertionScope.resolve_sort_param_metavar (withScope ps sc) x
        = ret (withScope ps (sc.resolveSortParam x).1, mvN (sc.resolveSortParam x).2)) ∧
    (∀ ps sc x, ConvertionScope.lookup_metavar (withScope ps sc) x = some ((sc.mvs.idxOf? x).map mvN)) ∧
    (∀ sem ps sc s, LanguageSemantics._convert_sort sem (withScope ps sc) s = lift ps (convSort sem.sg sc s)) ∧
    (∀ sem ps sc t, LanguageSemantics._convert_pattern sem (withScope ps sc) t = lift ps (conv sem.sg sc t)) ∧
    (∀ sem t, LanguageSemantics.convert_pattern sem t = some (convertPattern sem.sg t)) ∧
    (∀ sem ps sc σ ord, sem._cached_axiom_scopes.lookup ord = some (withScope ps sc) →
      LanguageSemantics.convert_substitutions sem σ ord
        = match convertSubst sem.sg sc σ [] with
          | none => some none
          | some r => ret ({ sem with _cached_axiom_scopes := kSet sem._cached_axiom_scopes ord (withScope ps r.1) }, r.2)) :=
  ⟨KoreTie.translated, resolve_metavar_eq, resolve_sort_param_metavar_eq, lookup_metavar_eq, convert_sort_eq,
    convert_pattern_rec_eq, convert_pattern_eq, convert_substitutions_eq⟩

/-- `ExecutionProofExp.rewrite_event`, as translated, is `rewriteEventF` (same fuel): equal results, except that
the model may already be out of fuel where the text raises (it adds each functional assumption right after
checking it, the text checks all of them first) -/
theorem rewrite_event_text_is_the_model (n : Nat) (e : PyExec) (rule : PyRule) (σ : Dict) :
    (ExecutionProofExp.rewrite_event n e rule σ
        = liftE e (stepPf rule.pattern σ) (rewriteEventF e.language_semantics.sg n (toSt e) rule.pattern σ)
      ∨ (rewriteEventF e.language_semantics.sg n (toSt e) rule.pattern σ = none
          ∧ ExecutionProofExp.rewrite_event n e rule σ = some none)) ∧
    (∀ r, rewriteEventF e.language_semantics.sg n (toSt e) rule.pattern σ = some r →
      ExecutionProofExp.rewrite_event n e rule σ = some (r.map fun st => (withSt e st, stepPf rule.pattern σ))) ∧
    (∀ e' pf, ExecutionProofExp.rewrite_event n e rule σ = some (some (e', pf)) →
      ∃ st, rewriteEventF e.language_semantics.sg n (toSt e) rule.pattern σ = some (some st) ∧
        e' = withSt e st ∧ pf = stepPf rule.pattern σ) :=
  ⟨rewrite_event_eq n e rule σ, fun r h => rewrite_event_of_model n e rule σ r h,
    fun e' pf h => rewrite_event_success n e e' rule σ pf h⟩

/-- `ExecutionProofExp.from_proof_hints`, as translated, is `traceF` from the configuration before the first hint -/
theorem trace_text_is_the_model (n : Nat) (sem : PySem) (h0 : PyHint) (hs : List PyHint)
    (hall : AllRewriting (h0 :: hs)) :
    ExecutionProofExp.from_proof_hints n (h0 :: hs) sem
        = (match traceF sem.sg n (initSt h0.configuration_before) ((h0 :: hs).map stepOf) with
           | none => none
           | some none => some none
           | some (some st) => ret (some (withSt (ExecutionProofExp.__init__ sem h0.configuration_before) st)))
      ∨ (traceF sem.sg n (initSt h0.configuration_before) ((h0 :: hs).map stepOf) = none
          ∧ ExecutionProofExp.from_proof_hints n (h0 :: hs) sem = some none) :=
  from_proof_hints_eq n sem h0 hs hall

/-- the chaining theorems about the translated text itself: if `from_proof_hints` returns a proof expression,
it has one claim per hint, in order, each the instantiated rule of its hint, each a `kore-rewrites` whose left
side is `==` to the configuration reached so far (the first: the configuration before the first hint), and
the current configuration is the last right side -/
theorem text_chain (n : Nat) (sem : PySem) (h0 : PyHint) (hs : List PyHint) (hall : AllRewriting (h0 :: hs))
    (e' : PyExec) (h : ExecutionProofExp.from_proof_hints n (h0 :: hs) sem = some (some (some e'))) :
    e'._claims.length = (h0 :: hs).length ∧
    (∀ i (hi : i < (h0 :: hs).length), ∃ inst, e'._claims[i]? = some inst ∧
      NPat.instF n ((h0 :: hs)[i]).substitutions (stepOf ((h0 :: hs)[i])).1 = some inst) ∧
    Linked n h0.configuration_before e'._claims e'._curr_config := by
  rcases from_proof_hints_eq n sem h0 hs hall with h1 | ⟨_, h1⟩
  · rw [h] at h1
    cases hm : traceF sem.sg n (initSt h0.configuration_before) ((h0 :: hs).map stepOf) with
    | none => rw [hm] at h1; cases h1
    | some o =>
      cases o with
      | none => rw [hm] at h1; cases h1
      | some st =>
        rw [hm] at h1
        simp only [ret, Option.some.injEq] at h1
        subst h1
        obtain ⟨insts, hc, hlen, hall'⟩ := Kore.chain_claims sem.sg n _ _ _ hm
        obtain ⟨insts2, hc2, hlink⟩ := Kore.chain_links sem.sg n _ _ _ hm
        have hc' : st.claims = insts := by simpa [initSt] using hc
        have hc2' : st.claims = insts2 := by simpa [initSt] using hc2
        refine ⟨?_, ?_, ?_⟩
        · show st.claims.length = _
          rw [hc', hlen, List.length_map]
        · intro i hi
          have hi' : i < ((h0 :: hs).map stepOf).length := by rw [List.length_map]; exact hi
          obtain ⟨inst, h1, h2⟩ := hall' i hi'
          refine ⟨inst, ?_, ?_⟩
          · show st.claims[i]? = _
            rw [hc']; exact h1
          · have hg : ((h0 :: hs).map stepOf)[i] = stepOf ((h0 :: hs)[i]) := List.getElem_map ..
            rw [hg] at h2; exact h2
        · show Linked n _ st.claims st.curr
          rw [hc2']; simpa [initSt] using hlink
  · rw [h] at h1; cases h1

end Text

/-! ## the construction of the semantics and the hint stream: the Python text is the specification -/
section Definition
open PyI PyM PyK Gen.PyKDef KDefSpec KDefTie

/-- `LanguageSemantics.from_kore_definition`, as translated from the source text, on a definition of the fragment (one module that
does not import itself), for every valid set order and every fuel `≥ 2`: it raises exactly when the specification
`sigOfDefinition` refuses the definition; otherwise it returns a store `h` whose signature (`sigView`: what the translated
conversion and trace generator use) is `sigOfDefinition`'s, on which `get_axiom ordinal` returns exactly the rule with that ordinal
(`ValueError` if the ordinal belongs to a skipped axiom or to none), whose cached scope per ordinal is the scope object of the
scope `conv` produced, and on which `get_sort`, `get_symbol`, `resolve_to_ksymbol` are the lookups in the signature -/
theorem kore_definition_text_is_the_model (so : SetOrder) (hso : so.Valid) (n : Nat) (d : KDefinition) (hf : InFragment d) :
    Gen.PyKDef.translated = true ∧
    match sigOfDefinition d with
    | none => LanguageSemantics.from_kore_definition so (n + 2) d = raise
    | some ds => ∃ h, LanguageSemantics.from_kore_definition so (n + 2) d = ret h ∧
        sigView h = ds.sg ∧
        (∀ o, LanguageSemantics.get_axiom (n + 2) h o = some ((ds.rule? o).map axiomOf)) ∧
        (∀ o, h._cached_axiom_scopes.lookup o = (ds.rule? o).map fun ru => scopeObj ru.scope) ∧
        (∀ k, (LanguageSemantics.get_sort so (n + 2) h k).map (Option.map fun s => s.name)
            = some (if ds.sg.sorts.contains k then some k else none)) ∧
        (∀ k, (LanguageSemantics.get_symbol so (n + 2) h k).map (Option.map symDeclOf) = some (ds.sg.symbols.find? (·.name == k))) ∧
        (∀ s, (LanguageSemantics.resolve_to_ksymbol so (n + 2) h (.sym s)).map (Option.map (Option.map symDeclOf))
            = ret (if s ≥ 2001 ∧ s < 100000 ∧ (s - 2001) % 2 = 0 then ds.sg.symbols.find? (·.name == (s - 2001) / 2) else none)) := by
  refine ⟨KDefTie.translated, ?_⟩
  have h1 := from_kore_definition_spec so hso n d hf
  cases hd : sigOfDefinition d with
  | none => rw [hd] at h1; exact h1
  | some ds =>
    rw [hd] at h1
    obtain ⟨h, hh, hr⟩ := h1
    exact ⟨h, hh, represents_sig hr, get_axiom_eq n hr, cached_scope_eq hr, get_sort_eq so hso n hr, get_symbol_eq so hso n hr,
      resolve_to_ksymbol_eq so hso n hr⟩

/-- `get_proof_hints`, as translated, on a finished semantics that represents `ds`: it raises exactly when the specification
`traceStepsR` has no steps for the trace; otherwise it yields one `RewriteStepExpression` per step — the configurations before /
after, the rule with the step's ordinal, the substitution converted in the rule's scope — and leaves a semantics that
represents `ds` with the scopes the substitutions have extended -/
theorem proof_hints_text_is_the_model (n : Nat) (h : PyLS) (ds : DefSem) (hr : Represents h ds) (tr : PyLLVMTrace) :
    match traceStepsR ds tr with
    | none => get_proof_hints (n + 2) h tr = raise
    | some (_, rules', steps) =>
        ∃ h', get_proof_hints (n + 2) h tr = ret (h', steps.map hintOf) ∧ Represents h' { ds with rules := rules' } :=
  get_proof_hints_eq n hr tr

/-- END TO END, all from translated text: a definition of the fragment with the meaning `ds`, a hint stream with the initial
configuration `init` and the (rewrite) steps `s0 :: ss` ⟼ `from_kore_definition` returns a semantics, `get_proof_hints` the hints,
and `ExecutionProofExp.from_proof_hints` on them is the model's `traceF ds.sg` from `init` over the steps (`trace_text_is_the_model`;
`chain_claims` / `chain_links` then say what its claims are) -/
theorem k_pipeline_text_is_the_model (so : SetOrder) (hso : so.Valid) (n k : Nat) (d : KDefinition) (hf : InFragment d) (ds : DefSem)
    (hd : sigOfDefinition d = some ds) (tr : PyLLVMTrace) (init : NPat) (s0 : Step) (ss : List Step)
    (ht : traceSteps ds tr = some (init, s0 :: ss)) (hrw : ∀ s ∈ s0 :: ss, s.rule.kind = .rewrite) :
    ∃ ls ls' hints,
      LanguageSemantics.from_kore_definition so (n + 2) d = ret ls ∧
      get_proof_hints (n + 2) ls tr = ret (ls', hints) ∧
      sigView ls' = ds.sg ∧
      (Gen.PyKore.ExecutionProofExp.from_proof_hints k hints (semView ls')
          = (match traceF ds.sg k (initSt init) (modelSteps (s0 :: ss)) with
             | none => none
             | some none => some none
             | some (some st) => ret (some (KoreTie.withSt (Gen.PyKore.ExecutionProofExp.__init__ (semView ls') init) st)))
        ∨ (traceF ds.sg k (initSt init) (modelSteps (s0 :: ss)) = none
            ∧ Gen.PyKore.ExecutionProofExp.from_proof_hints k hints (semView ls') = some none)) :=
  k_pipeline so hso n k d hf ds hd tr init s0 ss ht hrw

/-- beyond the one-module fragment: `LanguageSemantics.module`, as translated, gives every later module the counter OBJECT of the
main module and creates no new counter — the ordinals run on across the modules -/
theorem modules_share_one_counter (h h' : PyLS) (name m' : Nat) (hne : h._imported_modules ≠ [])
    (hm : LanguageSemantics.module h name = ret (h', m')) :
    ∃ main mo mo', h._imported_modules.getLast? = some main ∧ h.modules[main]? = some mo ∧ h'.modules[m']? = some mo' ∧
      mo'.counter = mo.counter ∧ h'.counters = h.counters ∧ h'._imported_modules = h._imported_modules ++ [m'] :=
  module_shares_counter h h' name m' hne hm

end Definition

end C20
