import Pi2.KoreThm
/-!
# C20 — K execution traces become chained, checkable rewrite proofs

Model: `Pi2/Kore.lean` — `ConvertionScope`, `LanguageSemantics._convert_pattern` on the quantifier-free
Kore fragment (notation definitions taken from the table regenerated from `proofs/kore.py`),
`convert_substitutions`, `ExecutionProofExp.rewrite_event` / `from_proof_hints` (tree after the `fix:`
commit F16: a claim may be stated again).

* variables: `scope_injective` (equal names ↦ equal metavariables, distinct ↦ distinct), `scope_stable`
  (a name keeps its id however the scope grows), `conv_scope` (conversion only appends, every variable
  of the term ends up in the scope), `ids_disjoint` (pattern variables and sort parameters do not
  collide while a rule has at most 100 variables — beyond that they do: finding KF-C20-ids, witnessed
  by an `example` in `Pi2/KoreThm.lean`);
* `convert_subst`: instantiating a converted rule with the converted (total, ground) substitution is,
  up to notation, the conversion of the substituted rule;
* chaining: `chain_claims` (one claim per step, in order, each the instantiated rule of its step),
  `chain_links` (each claim is a `kore-rewrites` whose left side is `==` to the configuration the
  previous step reached, the first to the initial configuration), `mismatch_refused`;
* acceptance of the serialised module by the checker is NOT a theorem here (the functional
  assumptions use a constrained metavariable, outside the fragment of `module_accepted`): it is decided
  by the real checker on every generated module in the check.
-/
namespace C20
open Kore

theorem scope_injective (sc : Scope) (h : sc.mvs.Nodup) (x y : Nat) :
    ((sc.resolveMv x).2 = ((sc.resolveMv x).1.resolveMv y).2 ↔ x = y) := Kore.scope_injective sc h x y

theorem scope_stable (sc sc' : Scope) (x : Nat) (hx : x ∈ sc.mvs) (hext : ∃ ext, sc'.mvs = sc.mvs ++ ext) :
    (sc'.resolveMv x) = (sc', sc.mvs.idxOf x) := Kore.scope_stable sc sc' x hx hext

theorem conv_scope (sg : Sig) (sc sc' : Scope) (t : KTerm) (p : NPat) (h : conv sg sc t = some (sc', p))
    (hn : sc.mvs.Nodup) :
    sc'.mvs.Nodup ∧ (∃ ext, sc'.mvs = sc.mvs ++ ext) ∧ (∀ x ∈ t.evars, x ∈ sc'.mvs) :=
  Kore.conv_scope sg sc sc' t p h hn

theorem ids_disjoint (sc : Scope) (x s : Nat) (h : sc.mvs.length < 100) :
    (sc.resolveMv x).2 ≠ (sc.resolveSortParam s).2 := Kore.ids_disjoint sc x s h

theorem convert_subst (sg : Sig) (r : KTerm) (σ : List (Nat × KTerm)) (sc1 sc1' : Scope) (p : NPat)
    (δ : List (Nat × NPat))
    (hr : conv sg {} r = some (sc1, p))
    (hkeys : (σ.map (·.1)).Nodup) (hground : ∀ x t, (x, t) ∈ σ → t.ground = true)
    (hdom : ∀ x ∈ r.evars, (σ.lookup x).isSome) (hsub : ∀ x t, (x, t) ∈ σ → x ∈ r.evars)
    (hδ : convertSubst sg sc1 σ [] = some (sc1', δ)) (hsmall : sc1.mvs.length ≤ 100) :
    ∃ sc2 q n inst, conv sg {} (r.subst σ) = some (sc2, q) ∧ NPat.instF n δ p = some inst ∧
      inst.expand = q.expand :=
  Kore.convert_subst sg r σ sc1 sc1' p δ hr hkeys hground hdom hsub hδ hsmall

theorem chain_claims (sg : Sig) (n : Nat) (steps : List (NPat × List (Nat × NPat))) (st st' : ExecSt)
    (h : traceF sg n st steps = some (some st')) :
    ∃ insts, st'.claims = st.claims ++ insts ∧ insts.length = steps.length ∧
      ∀ i (h : i < steps.length), ∃ inst, insts[i]? = some inst ∧ NPat.instF n (steps[i]).2 (steps[i]).1 = some inst :=
  Kore.chain_claims sg n steps st st' h

theorem chain_links (sg : Sig) (n : Nat) (steps : List (NPat × List (Nat × NPat))) (st st' : ExecSt)
    (h : traceF sg n st steps = some (some st')) :
    ∃ insts, st'.claims = st.claims ++ insts ∧ Linked n st.curr insts st'.curr :=
  Kore.chain_links sg n steps st st' h

theorem mismatch_refused (sg : Sig) (n : Nat) (st : ExecSt) (rule : NPat) (σ : List (Nat × NPat))
    (inst rw s lhs rhs : NPat) (ar : Nat)
    (hi : NPat.instF n σ rule = some inst) (hk : koreNotation "kore-rewrites" = some (rw, ar))
    (hm : NPat.notationMatchesF n rw ar inst = some (some [s, lhs, rhs]))
    (hne : NPat.peqF n lhs st.curr = some false) :
    rewriteEventF sg n st rule σ = some none :=
  Kore.mismatch_refused sg n st rule σ inst rw s lhs rhs ar hi hk hm hne

end C20
