import Pi2.PrettyPat
import Pi2.NotationThm
import Pi2.PrettyThm
/-!
# C19 — pretty-printed notation shows the arguments it depends on (first half)
-/
set_option linter.unusedVariables false
namespace C19

/-- the format string of a table entry parses, and shows every metavariable the expansion of the
definition contains -/
def entryOK (e : Gen.NotationEntry) : Bool :=
  match Fmt.parseFmt e.format.toList with
  | none => false
  | some segs => (Py.metavars e.definition.expand).all fun i => (Fmt.holes segs).contains i

/-- **table theorem** over `Gen.notations` (regenerated from the source on every run): every shipped
notation prints every argument its definition depends on -/
theorem shipped_notations_show_their_arguments : Gen.notations.all entryOK = true := by decide +kernel

/-- …every metavariable of a definition is below the arity (so it is bound by a full application), and
every definition except `functional` (whose metavariable declares `e_fresh x0`) is shaped, i.e. inside
the domain of the transparency theorems of C12 -/
theorem shipped_notations_arity :
    Gen.notations.all (fun e => (Py.metavars e.definition.expand).all (· < e.arity)) = true := by
  decide +kernel

theorem shipped_notations_shaped :
    Gen.notations.all (fun e => e.definition.Shape || e.label == "functional") = true := by
  decide +kernel

/-- if two applications of the same definition denote different patterns, some argument that the
definition depends on differs (contrapositive of `Py.inst_congr`) -/
theorem different_denotation_different_argument (d : Pat) (δ₁ δ₂ : VId → Option Pat)
    (h : Py.inst δ₁ d ≠ Py.inst δ₂ d) : ∃ k ∈ Py.metavars d, δ₁ k ≠ δ₂ k := by
  apply Classical.byContradiction
  intro hn
  apply h
  apply Py.inst_congr
  intro k hk
  apply Classical.byContradiction
  intro hne
  exact hn ⟨k, hk, hne⟩

/-- an argument the format string shows makes a visible difference: two argument tuples that differ in
exactly one shown position are rendered differently -/
theorem shown_argument_is_visible (segs : List Seg) (i : Nat) (A B : List (List Char)) (a b ra rb : List Char)
    (hi : i ∈ Fmt.holes segs) (hagree : ∀ j, j ≠ i → A[j]? = B[j]?) (ha : A[i]? = some a) (hb : B[i]? = some b)
    (hne : a ≠ b) (hra : Fmt.render segs A = some ra) (hrb : Fmt.render segs B = some rb) : ra ≠ rb :=
  Fmt.render_injective_at segs i A B a b ra rb hi hagree ha hb hne hra hrb

/-- an argument the format string does not mention cannot influence the output -/
theorem unshown_argument_is_invisible (segs : List Seg) (A B : List (List Char))
    (h : ∀ n ∈ Fmt.holes segs, A[n]? = B[n]?) : Fmt.render segs A = Fmt.render segs B :=
  Fmt.render_congr segs A B h

/-! Non-vacuity: `equiv`'s format string after the repair shows both arguments -/
example : (Fmt.parseFmt "({0} <-> {1})".toList).map Fmt.holes = some [0, 1] := by decide
example : (Fmt.parseFmt "(0 <-> 1)".toList).map Fmt.holes = some [] := by decide   -- the pinned f-string

end C19
