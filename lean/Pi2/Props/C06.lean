import Pi2.Sound.Inst
import Pi2.NotationThm
import Pi2.RustTie
/-!
# C06 — freshness and positivity judgements are sound for every instantiation

Semantic form.  A metavariable is instantiated by an *arbitrary* function of the valuation that
respects its declared constraints (`AllAdm`): independence of the declared-fresh variables,
monotone / antitone in the declared positive / negative set variables.  Every syntactic,
constraint-respecting instantiation induces such a function (`syntactic_instantiation_admissible`
with `inst_sem`), so the theorems cover "every concrete pattern obtained by instantiating the
metavariables in a way that respects their declared constraints", and pending `ESubst/SSubst`.
-/
set_option linter.unusedVariables false
open Pat
namespace C06

/-- judged e-fresh ⇒ the denotation does not depend on the value of that element variable -/
theorem eFresh_judgement_sound (𝔐 : Model) (σ : MVKey → Sem 𝔐.M) (hσ : Admissible σ) (e : VId) (p : Pat)
    (h : p.eFresh e = true) (ρ ρ' : Val 𝔐.M) (hag : Val.agreeOffE e ρ ρ') : eval 𝔐 σ p ρ = eval 𝔐 σ p ρ' :=
  eFresh_sound 𝔐 σ hσ e p h ρ ρ' hag

/-- judged s-fresh ⇒ the denotation does not depend on the value of that set variable -/
theorem sFresh_judgement_sound (𝔐 : Model) (σ : MVKey → Sem 𝔐.M) (hσ : AdmissibleS σ) (s : VId) (p : Pat)
    (h : p.sFresh s = true) (ρ ρ' : Val 𝔐.M) (hag : Val.agreeOffS s ρ ρ') : eval 𝔐 σ p ρ = eval 𝔐 σ p ρ' :=
  sFresh_sound 𝔐 σ hσ s p h ρ ρ' hag

/-- judged positive ⇒ monotone in the set variable; judged negative ⇒ antitone -/
theorem positive_negative_judgement_sound (𝔐 : Model) (σ : MVKey → Sem 𝔐.M) (hE : Admissible σ)
    (hS : AdmissibleS σ) (hPN : AdmissiblePN σ) (p : Pat) (X : VId) :
    (p.pos X = true → ∀ ρ ρ', Val.leS X ρ ρ' → ∀ m, eval 𝔐 σ p ρ m → eval 𝔐 σ p ρ' m) ∧
    (p.ng X = true → ∀ ρ ρ', Val.leS X ρ ρ' → ∀ m, eval 𝔐 σ p ρ' m → eval 𝔐 σ p ρ m) :=
  pos_neg_sound 𝔐 σ hE hS hPN p X

/-- every syntactic instantiation that passes the checker's constraint checks, composed with an
admissible semantic instantiation, is again admissible -/
theorem syntactic_instantiation_admissible (𝔐 : Model) (σ : MVKey → Sem 𝔐.M) (hσ : AllAdm σ)
    (θ : VId → Option Pat) : AllAdm (compInst 𝔐 σ θ) :=
  ⟨compInst_admissibleE 𝔐 σ hσ.1 θ, compInst_admissibleS 𝔐 σ hσ.2.1 θ,
   compInst_admissiblePN 𝔐 σ hσ.1 hσ.2.1 hσ.2.2 θ⟩

/-- … and the instantiated pattern denotes what the schematic one denotes under the composition -/
theorem instantiation_semantics (𝔐 : Model) (σ : MVKey → Sem 𝔐.M) (hσ : AllAdm σ)
    (θ : VId → Option Pat) (p r : Pat) (h : inst θ p = some r) (ρ : Val 𝔐.M) :
    eval 𝔐 σ r ρ = eval 𝔐 (compInst 𝔐 σ θ) p ρ :=
  inst_sem 𝔐 σ hσ.1 hσ.2.1 θ p r h ρ

/-- **C06 (syntactic reading).**  If `x` is judged fresh in the schematic `p` and `c` is any instance of
`p` accepted by the checker, then the denotation of `c` is independent of `x` — for concrete `c`
this says exactly that `x` does not occur free in `c` up to semantic equivalence. -/
theorem eFresh_of_instance (𝔐 : Model) (σ : MVKey → Sem 𝔐.M) (hσ : AllAdm σ) (θ : VId → Option Pat)
    (p c : Pat) (x : VId) (hfresh : p.eFresh x = true) (hinst : inst θ p = some c)
    (ρ ρ' : Val 𝔐.M) (hag : Val.agreeOffE x ρ ρ') : eval 𝔐 σ c ρ = eval 𝔐 σ c ρ' := by
  rw [instantiation_semantics 𝔐 σ hσ θ p c hinst ρ, instantiation_semantics 𝔐 σ hσ θ p c hinst ρ']
  exact eFresh_sound 𝔐 _ (syntactic_instantiation_admissible 𝔐 σ hσ θ).1 x p hfresh ρ ρ' hag

theorem sFresh_of_instance (𝔐 : Model) (σ : MVKey → Sem 𝔐.M) (hσ : AllAdm σ) (θ : VId → Option Pat)
    (p c : Pat) (X : VId) (hfresh : p.sFresh X = true) (hinst : inst θ p = some c)
    (ρ ρ' : Val 𝔐.M) (hag : Val.agreeOffS X ρ ρ') : eval 𝔐 σ c ρ = eval 𝔐 σ c ρ' := by
  rw [instantiation_semantics 𝔐 σ hσ θ p c hinst ρ, instantiation_semantics 𝔐 σ hσ θ p c hinst ρ']
  exact sFresh_sound 𝔐 _ (syntactic_instantiation_admissible 𝔐 σ hσ θ).2.1 X p hfresh ρ ρ' hag

theorem positive_of_instance (𝔐 : Model) (σ : MVKey → Sem 𝔐.M) (hσ : AllAdm σ) (θ : VId → Option Pat)
    (p c : Pat) (X : VId) (hpos : p.pos X = true) (hinst : inst θ p = some c)
    (ρ ρ' : Val 𝔐.M) (hle : Val.leS X ρ ρ') (m : 𝔐.M) : eval 𝔐 σ c ρ m → eval 𝔐 σ c ρ' m := by
  rw [instantiation_semantics 𝔐 σ hσ θ p c hinst ρ, instantiation_semantics 𝔐 σ hσ θ p c hinst ρ']
  have h := syntactic_instantiation_admissible 𝔐 σ hσ θ
  exact (pos_neg_sound 𝔐 _ h.1 h.2.1 h.2.2 p X).1 hpos ρ ρ' hle m

theorem negative_of_instance (𝔐 : Model) (σ : MVKey → Sem 𝔐.M) (hσ : AllAdm σ) (θ : VId → Option Pat)
    (p c : Pat) (X : VId) (hneg : p.ng X = true) (hinst : inst θ p = some c)
    (ρ ρ' : Val 𝔐.M) (hle : Val.leS X ρ ρ') (m : 𝔐.M) : eval 𝔐 σ c ρ' m → eval 𝔐 σ c ρ m := by
  rw [instantiation_semantics 𝔐 σ hσ θ p c hinst ρ, instantiation_semantics 𝔐 σ hσ θ p c hinst ρ']
  have h := syntactic_instantiation_admissible 𝔐 σ hσ θ
  exact (pos_neg_sound 𝔐 _ h.1 h.2.1 h.2.2 p X).2 hneg ρ ρ' hle m

/-- **Notation does not change the answer** (Python side): `evar_is_free` on a pattern with notation,
whenever it returns, is the checker's judgement `eFresh` of the full expansion — to which the
soundness theorems above apply. -/
theorem python_evar_is_free_is_judgement_of_expansion (n : Nat) (e : VId) (p : NPat) (b : Bool)
    (hp : p.Shape = true) (h : NPat.evarIsFreeF n e p = some b) : b = p.expand.eFresh e :=
  NPat.evarIsFreeF_expand n e p b hp h

/-! Non-vacuity: a schematic pattern with a constrained metavariable and a pending substitution,
judged fresh, and an instance the checker accepts. -/
example : (esub (mv 0 [1] [] [] [] []) 0 (evar 2)).eFresh 1 = true := by decide
example : inst (fun k => if k = 0 then some (ex 1 (evar 0)) else none) (esub (mv 0 [1] [] [] [] []) 0 (evar 2))
    = some (ex 1 (evar 2)) := by decide

/-! ## the judgements of the Rust source, translated on every run (`Pi2/Gen/RustJudge.lean`), are the model's:
hence the soundness statements above hold of the functions as they are written in `rust/src/lib.rs` -/

theorem rust_judgements_are_the_model :
    Gen.Rust.translated = true ∧
    (∀ p e, Gen.Rust.e_fresh p e = p.eFresh e) ∧ (∀ p s, Gen.Rust.s_fresh p s = p.sFresh s) ∧
    (∀ p s, Gen.Rust.positive p s = p.pos s) ∧ (∀ p s, Gen.Rust.negative p s = p.ng s) :=
  ⟨RustTie.translated, RustTie.e_fresh_eq, RustTie.s_fresh_eq, RustTie.positive_eq, RustTie.negative_eq⟩

/-- the translated Rust `e_fresh`: judged fresh ⇒ the denotation is independent of the variable -/
theorem rust_e_fresh_sound (𝔐 : Model) (σ : MVKey → Sem 𝔐.M) (hσ : Admissible σ) (e : VId) (p : Pat)
    (h : Gen.Rust.e_fresh p e = true) (ρ ρ' : Val 𝔐.M) (hag : Val.agreeOffE e ρ ρ') : eval 𝔐 σ p ρ = eval 𝔐 σ p ρ' :=
  eFresh_sound 𝔐 σ hσ e p (by rw [← RustTie.e_fresh_eq]; exact h) ρ ρ' hag

/-- the translated Rust `positive` / `negative`: monotone / antitone -/
theorem rust_polarity_sound (𝔐 : Model) (σ : MVKey → Sem 𝔐.M) (hE : Admissible σ)
    (hS : AdmissibleS σ) (hPN : AdmissiblePN σ) (p : Pat) (X : VId) :
    (Gen.Rust.positive p X = true → ∀ ρ ρ', Val.leS X ρ ρ' → ∀ m, eval 𝔐 σ p ρ m → eval 𝔐 σ p ρ' m) ∧
    (Gen.Rust.negative p X = true → ∀ ρ ρ', Val.leS X ρ ρ' → ∀ m, eval 𝔐 σ p ρ' m → eval 𝔐 σ p ρ m) := by
  rw [RustTie.positive_eq, RustTie.negative_eq]
  exact pos_neg_sound 𝔐 σ hE hS hPN p X

end C06
