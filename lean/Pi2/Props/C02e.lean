import Pi2.Props.C02d
import Pi2.ModuleMOKMemo
import Pi2.KModMemoEx
/-!
# C02 on machine-OK modules for the MEMOISING serialisation (and any other configuration)

`C02.generated_module_accepted_mok` (`Pi2/Props/C02d.lean`) is stated for the plain configuration `cfg = {}`; its header
lists "(2) the memoising serialisation" as not covered.  Here it is covered, for EVERY suggestion list `S` — there is
no hypothesis on `S` at all: `MemoizingInterpreter.pattern(p)` only `save`s patterns it has just built and only `load`s
an entry that is `==` to the pattern asked for; every pattern a machine-OK module passes to `pattern` is shaped
(`NPat.Shape`), and `==` is truthful on shaped patterns (`NPat.peqF_expand`), so the entry found has the expansion of the
pattern asked for (`KMod.load_pat_sgS`), whatever `S` is (`S` only decides WHETHER a pattern is saved).

The development (`Pi2/ModuleMOKMemo.lean`) is for an arbitrary `cfg : PySt.Cfg`; the theorems below are stated for
`{ memo := some S }` and, where it costs nothing, for any `cfg`.

`generated_module_accepted_mok_memo`: `m.MOK = true` and `execute_full` through the memoising interpreter returns ⇒
every claim is discharged, every call satisfies the machine's side conditions (DERIVED), the history replays to three
instruction lists, and the checker accepts them and publishes the declaration — imports first, claims reversed — up to
the naming `ρ`.  Then bytes, the translated Rust `verify`, soundness; `propositional_module_accepted_rho` re-derived for
the memoising configuration; non-vacuity on `C02.Example.mod` with a suggestion list that makes the run `save` and
`load` (a symbol and a compound pattern).
-/
set_option linter.unusedVariables false
namespace C02
open PySt EndToEnd KMod

/-! ## acceptance, any configuration -/

/-- **C02 on machine-OK modules, any configuration** (plain or memoising, any suggestion list), for every naming `ρ`
that agrees with the final symbol table -/
theorem generated_module_accepted_mok_cfg (cfg : Cfg) (n : Nat) (m : PModule) (s : PySt) (calls : List Call)
    (hmok : m.MOK = true) (hex : PModule.executeFull cfg n m = some (some (s, calls)))
    (ρ : Nat → Nat) (hag : Agree ρ s.symtab) :
    s.claims = [] ∧ AllSideK n (PySt.init m.claimsOf) calls ∧
    ∃ g c p, PySt.trackAll n (PySt.init m.claimsOf) calls ([], [], []) = some (some (s, (g, c, p))) ∧
      verify g c p = some (m.gammaAxioms.map (fun a => Pat.ren ρ a.expand),
        m.claimsOf.reverse.map (fun a => Pat.ren ρ a.expand)) := by
  obtain ⟨hgam, hclm, hpfs, hlen⟩ := PModule.MOK.spec hmok
  exact module_acceptedMS cfg m s calls hgam hclm (fun pf hpf => Pf.MOK.pfOK (hpfs pf hpf)) hlen hex ρ hag

/-- **C02 on machine-OK modules for the memoising serialisation**: NO hypothesis on the suggestion list `S` -/
theorem generated_module_accepted_mok_memo (S : List NPat) (n : Nat) (m : PModule) (s : PySt) (calls : List Call)
    (hmok : m.MOK = true) (hex : PModule.executeFull { memo := some S } n m = some (some (s, calls)))
    (ρ : Nat → Nat) (hag : Agree ρ s.symtab) :
    s.claims = [] ∧ AllSideK n (PySt.init m.claimsOf) calls ∧
    ∃ g c p, PySt.trackAll n (PySt.init m.claimsOf) calls ([], [], []) = some (some (s, (g, c, p))) ∧
      verify g c p = some (m.gammaAxioms.map (fun a => Pat.ren ρ a.expand),
        m.claimsOf.reverse.map (fun a => Pat.ren ρ a.expand)) :=
  generated_module_accepted_mok_cfg { memo := some S } n m s calls hmok hex ρ hag

/-- the naming the serializer uses: position in its symbol table -/
theorem generated_module_accepted_mok_memo_idx (S : List NPat) (n : Nat) (m : PModule) (s : PySt)
    (calls : List Call) (hmok : m.MOK = true)
    (hex : PModule.executeFull { memo := some S } n m = some (some (s, calls))) :
    s.claims = [] ∧
    ∃ g c p, PySt.trackAll n (PySt.init m.claimsOf) calls ([], [], []) = some (some (s, (g, c, p))) ∧
      verify g c p = some (m.gammaAxioms.map (fun a => Pat.ren (fun nm => s.symtab.idxOf nm) a.expand),
        m.claimsOf.reverse.map (fun a => Pat.ren (fun nm => s.symtab.idxOf nm) a.expand)) := by
  obtain ⟨h1, _, h3⟩ := generated_module_accepted_mok_memo S n m s calls hmok hex _ (agree_idxOf _)
  exact ⟨h1, h3⟩

/-- the side conditions are derived (the `save` / `load` calls included) -/
theorem generated_module_side_mok_memo (S : List NPat) (n : Nat) (m : PModule) (s : PySt) (calls : List Call)
    (hmok : m.MOK = true) (hex : PModule.executeFull { memo := some S } n m = some (some (s, calls))) :
    AllSideK n (PySt.init m.claimsOf) calls :=
  (generated_module_accepted_mok_memo S n m s calls hmok hex _ (agree_idxOf _)).2.1

/-- the same under the side conditions as propositions (`KMod.PfOK`) instead of the Boolean `Pf.MOK` -/
theorem generated_module_accepted_sideconds_memo (S : List NPat) (n : Nat) (m : PModule) (s : PySt)
    (calls : List Call)
    (hgam : ∀ a ∈ m.gammaAxioms, a.SM = true) (hclm : ∀ a ∈ m.claimsOf, a.SM = true)
    (hpfs : ∀ pf ∈ m.proofsOf, PfOK pf) (hlen : m.claimsOf.length = m.proofsOf.length)
    (hex : PModule.executeFull { memo := some S } n m = some (some (s, calls)))
    (ρ : Nat → Nat) (hag : Agree ρ s.symtab) :
    s.claims = [] ∧ AllSideK n (PySt.init m.claimsOf) calls ∧
    ∃ g c p, PySt.trackAll n (PySt.init m.claimsOf) calls ([], [], []) = some (some (s, (g, c, p))) ∧
      verify g c p = some (m.gammaAxioms.map (fun a => Pat.ren ρ a.expand),
        m.claimsOf.reverse.map (fun a => Pat.ren ρ a.expand)) :=
  module_acceptedMS _ m s calls hgam hclm hpfs hlen hex ρ hag

/-- **bytes.** the bytes the translated serializer writes along the memoising run are the encodings of the three
instruction lists; `verifyBytes` accepts them and publishes the declaration; `verify` of `rust/src/lib.rs` as
translated accepts them from every initial content of its registers -/
theorem generated_module_bytes_accepted_mok_memo (S : List NPat) (n : Nat) (m : PModule) (s : PySt)
    (calls : List Call) (hmok : m.MOK = true)
    (hex : PModule.executeFull { memo := some S } n m = some (some (s, calls))) :
    ∃ g c p, PySt.trackAll n (PySt.init m.claimsOf) calls ([], [], []) = some (some (s, (g, c, p))) ∧
      writeAll n (PySt.init m.claimsOf) calls ([], [], []) = some (some (s, (encode g, encode c, encode p))) ∧
      verifyBytes (encode g) (encode c) (encode p)
        = some (m.gammaAxioms.map (fun a => Pat.ren (fun nm => s.symtab.idxOf nm) a.expand),
            m.claimsOf.reverse.map (fun a => Pat.ren (fun nm => s.symtab.idxOf nm) a.expand)) ∧
      Gen.Rust.execTranslated = true ∧
      ∀ r0 : RustExec.RSt, (Gen.Rust.verify (encode g) (encode c) (encode p) r0).isSome = true := by
  obtain ⟨_, g, c, p, hT, hv⟩ := generated_module_accepted_mok_memo_idx S n m s calls hmok hex
  refine ⟨g, c, p, hT, writeAll_of_trackAll_init n calls _ s g c p hT, ?_,
    (C05.rust_verify_is_the_model [] [] [] default).1, fun r0 => rust_accepts_encode g c p _ hv r0⟩
  rw [verifyBytes_encode, hv]

/-- **bytes proper**: if the three streams are wire byte strings (`wireCheck`, decidable) they are the images of three
`List UInt8`, accepted by both checkers -/
theorem generated_module_u8_accepted_mok_memo (S : List NPat) (n : Nat) (m : PModule) (s : PySt)
    (calls : List Call) (hmok : m.MOK = true)
    (hex : PModule.executeFull { memo := some S } n m = some (some (s, calls)))
    (hw : wireCheck n m.claimsOf calls = true) :
    ∃ gb cb pb : List UInt8,
      writeAll n (PySt.init m.claimsOf) calls ([], [], [])
        = some (some (s, (gb.map UInt8.toNat, cb.map UInt8.toNat, pb.map UInt8.toNat))) ∧
      verifyBytes (gb.map UInt8.toNat) (cb.map UInt8.toNat) (pb.map UInt8.toNat)
        = some (m.gammaAxioms.map (fun a => Pat.ren (fun nm => s.symtab.idxOf nm) a.expand),
            m.claimsOf.reverse.map (fun a => Pat.ren (fun nm => s.symtab.idxOf nm) a.expand)) ∧
      ∀ r0 : RustExec.RSt,
        (Gen.Rust.verify (gb.map UInt8.toNat) (cb.map UInt8.toNat) (pb.map UInt8.toNat) r0).isSome = true := by
  obtain ⟨g, c, p, hT, hW, hvb, _, hr⟩ := generated_module_bytes_accepted_mok_memo S n m s calls hmok hex
  obtain ⟨w1, w2, w3⟩ := wireCheck_sound hw hT
  obtain ⟨gb, hg⟩ := wire_is_u8 _ w1
  obtain ⟨cb, hc⟩ := wire_is_u8 _ w2
  obtain ⟨pb, hp⟩ := wire_is_u8 _ w3
  refine ⟨gb, cb, pb, ?_, ?_, ?_⟩
  · rw [hg, hc, hp]; exact hW
  · rw [hg, hc, hp]; exact hvb
  · rw [hg, hc, hp]; exact hr

/-- **soundness** (through the checker as written, `C01.rust_verify_text_sound`): every claim of a machine-OK module
whose memoising `execute_full` run returns holds in every model of its declared axioms -/
theorem generated_module_sound_mok_memo (S : List NPat) (n : Nat) (m : PModule) (s : PySt) (calls : List Call)
    (hmok : m.MOK = true) (hex : PModule.executeFull { memo := some S } n m = some (some (s, calls)))
    (𝔐 : Model) (hΓ : ∀ a ∈ m.gammaAxioms, ValidM 𝔐 a.expand) :
    ∀ q ∈ m.claimsOf, ValidM 𝔐 q.expand := by
  obtain ⟨_, _, g, c, p, _, hv⟩ :=
    generated_module_accepted_mok_memo S n m s calls hmok hex (rhoInj s.symtab) (rhoInj_agree _)
  have hr := rust_accepts_encode g c p _ hv default
  obtain ⟨_, axs, cls, hvb, hsound⟩ := C01.rust_verify_text_sound _ _ _ default hr
  rw [verifyBytes_encode, hv] at hvb
  simp only [Option.some.injEq, Prod.mk.injEq] at hvb
  obtain ⟨rfl, rfl⟩ := hvb
  intro q hq
  rw [← validM_rhoInj 𝔐 s.symtab]
  apply hsound ⟨𝔐.M, fun t => 𝔐.sym (rhoInv s.symtab t), 𝔐.app⟩
  · intro a ha
    simp only [List.mem_map] at ha
    obtain ⟨a0, h0, rfl⟩ := ha
    exact (validM_rhoInj 𝔐 s.symtab _).mpr (hΓ a0 h0)
  · simp only [List.mem_map, List.mem_reverse]
    exact ⟨q, hq, rfl⟩

/-- one proof expression, any configuration: the run certifies the documented conclusion -/
theorem run_certifies_sem_cfg (cfg : Cfg) (k : Nat) (ax : List NPat) (pf : Pf) (s s1 : PySt) (acc a1 : List Call)
    (c : NPat) (hpf : PfOK pf) (hM : MemOKS s.memory)
    (h : Pf.runF cfg ax k s pf acc = some (some (s1, a1, c))) :
    c.Shape = true ∧ Pf.Sem pf c.expand ∧ Pf.concM pf = some c.expand ∧ MemOKS s1.memory := by
  obtain ⟨P, hc, hS, _⟩ := runCS cfg (Nat.le_refl k) ax h hpf.1 hpf.2 hM
  exact ⟨hc, hS, concM_of_sem hS hpf.1 hpf.2, P.memory hM⟩

/-- on a module with shaped machine-OK axioms and claims and proofs under the side conditions whose memoising run
returns: no claim is left iff there is one proof per claim -/
theorem module_len_iff_memo (S : List NPat) (n : Nat) (m : PModule) (s : PySt) (calls : List Call)
    (hgam : ∀ a ∈ m.gammaAxioms, a.SM = true) (hclm : ∀ a ∈ m.claimsOf, a.SM = true)
    (hpfs : ∀ pf ∈ m.proofsOf, PfOK pf)
    (hex : PModule.executeFull { memo := some S } n m = some (some (s, calls))) :
    s.claims = [] ↔ m.claimsOf.length = m.proofsOf.length :=
  module_len_iffS _ m s calls hgam hclm hpfs hex

/-- **the converse, memoising**: on a module with shaped machine-OK axioms and claims whose memoising run returns with
no claim left, `PModule.MOK` holds EXACTLY when every proof satisfies the side conditions -/
theorem mok_iff_side_conditions_memo (S : List NPat) (n : Nat) (m : PModule) (s : PySt) (calls : List Call)
    (hgam : ∀ a ∈ m.gammaAxioms, a.SM = true) (hclm : ∀ a ∈ m.claimsOf, a.SM = true)
    (hex : PModule.executeFull { memo := some S } n m = some (some (s, calls))) (hfin : s.claims = []) :
    m.MOK = true ↔ ∀ pf ∈ m.proofsOf, PfOK pf := by
  constructor
  · intro h pf hpf
    exact Pf.MOK.pfOK ((PModule.MOK.spec h).2.2.1 pf hpf)
  · intro h
    exact module_mok_of_runS _ m s calls hgam hclm h hfin hex

/-! ## the propositional fragment, memoising -/

/-- a module of the propositional fragment whose memoising `execute_full` run returns with no claim left is
machine-OK -/
theorem propositional_module_mok_memo (S : List NPat) (n : Nat) (m : PModule) (s : PySt) (calls : List Call)
    (hgam : ∀ a ∈ m.gammaAxioms, a.PF = true) (hclm : ∀ a ∈ m.claimsOf, a.PF = true)
    (hpfs : ∀ pf ∈ m.proofsOf, pf.PF = true)
    (hex : PModule.executeFull { memo := some S } n m = some (some (s, calls))) (hfin : s.claims = []) :
    m.MOK = true :=
  module_mok_of_runS _ m s calls (fun a ha => propositional_pattern_mok a (hgam a ha))
    (fun a ha => propositional_pattern_mok a (hclm a ha))
    (fun pf hpf => propositional_proof_sideconds pf (hpfs pf hpf)) hfin hex

/-- `C02.propositional_module_accepted_rho` for the memoising configuration (any suggestion list), WITHOUT the
canonical-names hypothesis `CanonCalls` -/
theorem propositional_module_accepted_rho_memo (S : List NPat) (n : Nat) (m : PModule) (s : PySt)
    (calls : List Call)
    (hgam : ∀ a ∈ m.gammaAxioms, a.PF = true) (hclm : ∀ a ∈ m.claimsOf, a.PF = true)
    (hpfs : ∀ pf ∈ m.proofsOf, pf.PF = true)
    (hex : PModule.executeFull { memo := some S } n m = some (some (s, calls))) (hfin : s.claims = [])
    (ρ : Nat → Nat) (hag : Agree ρ s.symtab) :
    AllSideK n (PySt.init m.claimsOf) calls ∧
    ∃ g c p, PySt.trackAll n (PySt.init m.claimsOf) calls ([], [], []) = some (some (s, (g, c, p))) ∧
      verify g c p = some (m.gammaAxioms.map (fun a => Pat.ren ρ a.expand),
        m.claimsOf.reverse.map (fun a => Pat.ren ρ a.expand)) := by
  have hg := fun a ha => propositional_pattern_mok a (hgam a ha)
  have hc := fun a ha => propositional_pattern_mok a (hclm a ha)
  have hp := fun pf hpf => propositional_proof_sideconds pf (hpfs pf hpf)
  have hlen := (module_len_iffS _ m s calls hg hc hp hex).mp hfin
  exact (module_acceptedMS _ m s calls hg hc hp hlen hex ρ hag).2

/-- … and its soundness corollary -/
theorem propositional_module_sound_rho_memo (S : List NPat) (n : Nat) (m : PModule) (s : PySt)
    (calls : List Call)
    (hgam : ∀ a ∈ m.gammaAxioms, a.PF = true) (hclm : ∀ a ∈ m.claimsOf, a.PF = true)
    (hpfs : ∀ pf ∈ m.proofsOf, pf.PF = true)
    (hex : PModule.executeFull { memo := some S } n m = some (some (s, calls))) (hfin : s.claims = [])
    (𝔐 : Model) (hΓ : ∀ a ∈ m.gammaAxioms, ValidM 𝔐 a.expand) : ∀ q ∈ m.claimsOf, ValidM 𝔐 q.expand := by
  obtain ⟨_, g, c, p, _, hv⟩ :=
    propositional_module_accepted_rho_memo S n m s calls hgam hclm hpfs hex hfin (rhoInj s.symtab) (rhoInj_agree _)
  have hr := rust_accepts_encode g c p _ hv default
  obtain ⟨_, axs, cls, hvb, hsound⟩ := C01.rust_verify_text_sound _ _ _ default hr
  rw [verifyBytes_encode, hv] at hvb
  simp only [Option.some.injEq, Prod.mk.injEq] at hvb
  obtain ⟨rfl, rfl⟩ := hvb
  intro q hq
  rw [← validM_rhoInj 𝔐 s.symtab]
  apply hsound ⟨𝔐.M, fun t => 𝔐.sym (rhoInv s.symtab t), 𝔐.app⟩
  · intro a ha
    simp only [List.mem_map] at ha
    obtain ⟨a0, h0, rfl⟩ := ha
    exact (validM_rhoInj 𝔐 s.symtab _).mpr (hΓ a0 h0)
  · simp only [List.mem_map, List.mem_reverse]
    exact ⟨q, hq, rfl⟩

/-! ## non-vacuity: `C02.Example.mod` through the memoising interpreter -/
namespace ExampleMemo
open Example

/-- the suggestion list: the symbol `σ7` (in `axB`, `cl2`, `cl4`, and a plug of `pf2`) and the compound `σ5 x0` (in
`cl1` and in plugs of `pf1`, `pf3`) -/
def S : List NPat := [.sym 7, .app (.sym 5) (.evar 0)]

/-- membership in `S` up to `NPat.seq`, in a form the kernel evaluates -/
def sugg : NPat → Bool
  | .sym a => a == 7
  | .app (.sym a) (.evar b) => a == 5 && b == 0
  | _ => false

theorem seq_S (p : NPat) : S.any (NPat.seq p) = sugg p := by
  cases p with
  | app l r => cases l <;> cases r <;> simp [S, NPat.seq, sugg]
  | _ => simp [S, NPat.seq, sugg]

def isSave (c : Call) : Bool := match c with | .save => true | _ => false
def isLoadPat (c : Call) : Bool := match c with | .load (.pat _) => true | _ => false

def check : Bool :=
  match KMod.executeFullP sugg 60 mod with
  | some (some r) => EndToEnd.wireCheck 60 mod.claimsOf r.2 && (r.1.symtab == [7, 8, 5]) &&
      decide (2 ≤ (r.2.filter isSave).length) && decide (2 ≤ (r.2.filter isLoadPat).length)
  | _ => false

set_option maxRecDepth 100000 in
theorem check_true : check = true := by decide +kernel

/-- the memoising run of the machine-OK module returns, the streams are byte strings, the symbols are not named by
position, and the run really memoises: at least two `save`s and two `load`s of saved patterns -/
theorem hypotheses_hold : mod.MOK = true ∧
    ∃ s calls, PModule.executeFull { memo := some S } 60 mod = some (some (s, calls)) ∧
    EndToEnd.wireCheck 60 mod.claimsOf calls = true ∧ s.symtab = [7, 8, 5] ∧
    2 ≤ (calls.filter isSave).length ∧ 2 ≤ (calls.filter isLoadPat).length := by
  refine ⟨Example.hypotheses_hold.1, ?_⟩
  have h := check_true
  unfold check at h
  split at h
  · next r hr =>
    rw [← KMod.executeFullP_eq S sugg seq_S] at hr
    simp only [Bool.and_eq_true, beq_iff_eq, decide_eq_true_eq] at h
    exact ⟨r.1, r.2, hr, h.1.1.1, h.1.1.2, h.1.2, h.2⟩
  · cases h

/-- hence (by the theorem) the checker accepts the memoised streams and publishes the declaration up to the naming -/
theorem accepted : ∃ (s : PySt) (g c p : List Instr),
    verify g c p = some (mod.gammaAxioms.map (fun a => Pat.ren (fun nm => s.symtab.idxOf nm) a.expand),
      mod.claimsOf.reverse.map (fun a => Pat.ren (fun nm => s.symtab.idxOf nm) a.expand)) ∧
    s.symtab = [7, 8, 5] ∧
    ∀ r0 : RustExec.RSt, (Gen.Rust.verify (encode g) (encode c) (encode p) r0).isSome = true := by
  obtain ⟨hm, s, calls, hex, _, hsym, _⟩ := hypotheses_hold
  obtain ⟨g, c, p, _, _, hvb, _, hr⟩ := generated_module_bytes_accepted_mok_memo S 60 mod s calls hm hex
  rw [EndToEnd.verifyBytes_encode] at hvb
  exact ⟨s, g, c, p, hvb, hsym, hr⟩

/-- … as byte strings proper -/
theorem accepted_u8 : ∃ gb cb pb : List UInt8, ∀ r0 : RustExec.RSt,
    (Gen.Rust.verify (gb.map UInt8.toNat) (cb.map UInt8.toNat) (pb.map UInt8.toNat) r0).isSome = true := by
  obtain ⟨hm, s, calls, hex, hw, _⟩ := hypotheses_hold
  obtain ⟨gb, cb, pb, _, _, hr⟩ := generated_module_u8_accepted_mok_memo S 60 mod s calls hm hex hw
  exact ⟨gb, cb, pb, hr⟩

end ExampleMemo

end C02

#print axioms C02.generated_module_accepted_mok_cfg
#print axioms C02.generated_module_accepted_mok_memo
#print axioms C02.generated_module_accepted_mok_memo_idx
#print axioms C02.generated_module_side_mok_memo
#print axioms C02.generated_module_accepted_sideconds_memo
#print axioms C02.generated_module_bytes_accepted_mok_memo
#print axioms C02.generated_module_u8_accepted_mok_memo
#print axioms C02.generated_module_sound_mok_memo
#print axioms C02.run_certifies_sem_cfg
#print axioms C02.module_len_iff_memo
#print axioms C02.mok_iff_side_conditions_memo
#print axioms C02.propositional_module_mok_memo
#print axioms C02.propositional_module_accepted_rho_memo
#print axioms C02.propositional_module_sound_rho_memo
#print axioms C02.ExampleMemo.seq_S
#print axioms C02.ExampleMemo.hypotheses_hold
#print axioms C02.ExampleMemo.accepted
#print axioms C02.ExampleMemo.accepted_u8
