import Pi2.ProofThm
/-!
# C08 — a proof means the same under every interpreter

`Pf`: proof-expression trees; `concF`: the conclusion a thunk advertises; `runBasicF`: the run on the
conclusion-only interpreter; `runF cfg`: the run on the stateful family (tracker, serializer, pretty
printer, counting interpreter: they share the tracker and differ only in what they write), plain
(`cfg.memo = none`) or through the memoising transformer (`cfg.memo = some S`, any suggestion set).
Statements are up to notation (equal full expansions), for shaped proof expressions.
-/
set_option linter.unusedVariables false
namespace C08
open PySt

/-- a stateful run that returns pushes exactly one proved term: the advertised conclusion -/
theorem stateful_run_pushes_advertised_conclusion (cfg : Cfg) (ax : List NPat) (n : Nat) (s s' : PySt) (pf : Pf)
    (acc a' : List Call) (c : NPat) (hax : AxShaped ax) (hpf : pf.Shaped) (hs : ShapeSt s)
    (h : Pf.runF cfg ax n s pf acc = some (some (s', a', c))) :
    (∃ adv, Pf.concF ax (n - 1) pf = some (some adv) ∧ NPat.peqF (n - 1) c adv = some true) ∧
    s'.stack = (.proved c, false) :: s.stack ∧ s'.phase = s.phase ∧ s'.claims = s.claims ∧
    (∃ ext, s'.memory = s.memory ++ ext) := by
  obtain ⟨adv, h1, h2, _⟩ := Pf.runF_conclusion cfg ax n s pf acc s' a' c hax hpf hs h
  obtain ⟨k1, k2, k3, _, k5, _, _⟩ := Pf.runF_stack cfg ax n s pf acc s' a' c hax hpf hs h
  exact ⟨⟨adv, h1, h2⟩, k1, k2, k3, k5⟩

/-- the basic run returns the advertised conclusion -/
theorem basic_run_returns_advertised_conclusion (ax : List NPat) (k : Nat) (pf : Pf) (c : NPat)
    (hax : AxShaped ax) (hpf : pf.Shaped) (h : Pf.runBasicF ax k pf = some (some c)) :
    ∃ adv, Pf.concF ax (k - 1) pf = some (some adv) ∧ c.expand = adv.expand := by
  obtain ⟨adv, h1, _, h3⟩ := Pf.runBasicF_conclusion ax k pf c hax hpf h
  exact ⟨adv, h1, h3⟩

/-- **succeeds in all or fails in all (1)**: a proof that runs on a stateful interpreter — plain or
memoising — does not fail on the basic one, and the conclusions agree -/
theorem stateful_success_implies_basic_success (cfg : Cfg) (ax : List NPat) (n k : Nat) (s s' : PySt) (pf : Pf)
    (acc a' : List Call) (c : NPat) (r : Option NPat) (hax : AxShaped ax) (hpf : pf.Shaped) (hs : ShapeSt s)
    (h : Pf.runF cfg ax n s pf acc = some (some (s', a', c))) (hb : Pf.runBasicF ax k pf = some r) :
    ∃ c', r = some c' ∧ c'.expand = c.expand :=
  Pf.runF_agrees_basic cfg ax n k s pf acc s' a' c r hax hpf hs h hb

/-- **succeeds in all or fails in all (2)**: a proof that runs on the basic interpreter does not fail
on a stateful one (the stack-discipline assertions of the tracker never fire for calls generated from
a proof expression), provided the axioms it loads are in memory (they are after the gamma phase) -/
theorem basic_success_implies_stateful_success (cfg : Cfg) (ax : List NPat) (n k : Nat) (s : PySt) (pf : Pf)
    (acc : List Call) (c' : NPat) (r : Option (PySt × List Call × NPat))
    (hax : AxShaped ax) (hpf : pf.Shaped) (hs : ShapeSt s)
    (hb : Pf.runBasicF ax k pf = some (some c'))
    (hmem : ∀ a ∈ pf.loadedAxioms, ∃ m ∈ s.memory, convT m = .proved a.expand)
    (h : Pf.runF cfg ax n s pf acc = some r) : ∃ s' a' c, r = some (s', a', c) ∧ c.expand = c'.expand :=
  Pf.basic_agrees_runF cfg ax n k s pf acc c' r hax hpf hs hb hmem h

/-- memoisation, with any suggestion set, does not change the conclusion -/
theorem memoisation_does_not_change_conclusion (cfg₁ cfg₂ : Cfg) (ax : List NPat) (n₁ n₂ : Nat) (s₁ s₂ s₁' s₂' : PySt)
    (pf : Pf) (acc₁ acc₂ a₁' a₂' : List Call) (c₁ c₂ : NPat) (hax : AxShaped ax) (hpf : pf.Shaped)
    (h1 : ShapeSt s₁) (h2 : ShapeSt s₂)
    (hr1 : Pf.runF cfg₁ ax n₁ s₁ pf acc₁ = some (some (s₁', a₁', c₁)))
    (hr2 : Pf.runF cfg₂ ax n₂ s₂ pf acc₂ = some (some (s₂', a₂', c₂))) : c₁.expand = c₂.expand :=
  Pf.runF_cfg_independent cfg₁ cfg₂ ax n₁ n₂ s₁ s₂ pf acc₁ acc₂ s₁' s₂' a₁' a₂' c₁ c₂ hax hpf h1 h2 hr1 hr2

/-! Non-vacuity: imp_refl(φ0) runs on the tracker and on the basic interpreter -/
def impRefl : Pf :=
  .mp (.mp (.dynInst .prop2 [(1, .imp (phiN 0) (phiN 0)), (2, phiN 0)]) (.dynInst .prop1 [(1, .imp (phiN 0) (phiN 0))]))
      (.dynInst .prop1 [(1, phiN 0)])
example : (Pf.runBasicF [] 40 impRefl).map (·.map NPat.expand) = some (some (.imp (phi 0) (phi 0))) := by decide
example : ((Pf.runF {} [] 40 (PySt.init []) impRefl []).map (·.map (fun x => x.2.2.expand))) = some (some (.imp (phi 0) (phi 0))) := by
  decide

end C08
