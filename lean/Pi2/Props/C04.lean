import Pi2.TrackerThm
import Pi2.SerTie
/-!
# C04 — the generator-side verifier state is a faithful simulation of the real machine

`PySt.track1` / `PySt.emit1` model `StatefulInterpreter` / `SerializingInterpreter` call by call;
`step`/`run` is the machine.  `R s m`: the machine's stack is the *live* part of the tracker's stack
(entries not left behind by a `publish_*`, the known finding KF-C04-publish) after notation
expansion, memories agree entry by entry, and in the proof phase the claim stacks agree.

The full-strength statement "after every call the emitted bytes run without error" is **false**: the
tracker lacks the machine's well-formedness, constraint and capture checks (`SideCond`), and consumes
publish residues.  What is proved: whenever the machine accepts it agrees with the tracker
(`tracker_simulates_machine`), and it rejects *only* for the reasons listed in `SideCond`
(`machine_accepts_under_side_conditions`) — for shaped terms, canonical symbol names (a symbol is
named by its first-occurrence index; w.l.o.g. up to renaming) and calls that do not touch a residue.
-/
set_option linter.unusedVariables false
namespace C04

theorem tracker_simulates_machine (n : Nat) (s s' : PySt) (m m' : St) (c : Call) (is : List Instr) (out : List Pat)
    (hR : R s m) (hS : ShapeSt s) (hT : CanonTab s.symtab)
    (hsym : ∀ nm, c = .symbol nm → nm ≤ s.symtab.length)
    (hkeys : ∀ keys, (c = .instantiate keys ∨ c = .instantiatePattern keys) → keys.Nodup)
    (hload : ∀ t, c = .load t → t.body.Shape = true)
    (hmv : ∀ id ef sf ps ns hs, c = .metavar id ef sf ps ns hs → ef = [] ∧ sf = [])
    (hc1 : c ≠ .intoClaim) (hc2 : c ≠ .intoProof) (hres : touchesResidue s c = false)
    (ht : PySt.track1 n s c = some (some s')) (he : PySt.emit1 n s c = some (some is))
    (hrun : run s.phase m is = some (m', out)) : R s' m' ∧ ShapeSt s' ∧ CanonTab s'.symtab :=
  sim_step n s s' m m' c is out hR hS hT hsym hkeys hload hmv hc1 hc2 hres ht he hrun

theorem machine_accepts_under_side_conditions (n : Nat) (s s' : PySt) (m : St) (c : Call) (is : List Instr)
    (hR : R s m) (hS : ShapeSt s) (hT : CanonTab s.symtab)
    (hsym : ∀ nm, c = .symbol nm → nm ≤ s.symtab.length)
    (hkeys : ∀ keys, (c = .instantiate keys ∨ c = .instantiatePattern keys) → keys.Nodup)
    (hload : ∀ t, c = .load t → t.body.Shape = true)
    (hmv : ∀ id ef sf ps ns hs, c = .metavar id ef sf ps ns hs → ef = [] ∧ sf = [])
    (hc1 : c ≠ .intoClaim) (hc2 : c ≠ .intoProof) (hres : touchesResidue s c = false)
    (ht : PySt.track1 n s c = some (some s')) (he : PySt.emit1 n s c = some (some is))
    (hside : SideCond s c) : ∃ m' out, run s.phase m is = some (m', out) :=
  sim_accept n s s' m c is hR hS hT hsym hkeys hload hmv hc1 hc2 hres ht he hside

/-- every Load the generator emits addresses a memory slot that holds the term it intended -/
theorem load_addresses_intended_term (n : Nat) (s : PySt) (m : St) (t : TTerm) (i : Nat)
    (hR : R s m) (hS : ShapeSt s) (ht : t.body.Shape = true)
    (h : PySt.indexF n t s.memory 0 = some (some i)) : m.memory[i]? = some (convT t) :=
  sim_load_index n s m t i hR hS ht h

/-- phase switches (the machine clears its stack between phases, `verify`) -/
theorem phase_switch_claim (n : Nat) (s s' : PySt) (m : St) (hR : R s m)
    (h : PySt.track1 n s .intoClaim = some (some s')) : R s' { m with stack := [] } := sim_intoClaim n s s' m hR h

theorem phase_switch_proof (n : Nat) (s s' : PySt) (m : St) (hR : R s m)
    (hcl : m.claims = s.claims.map NPat.expand)
    (h : PySt.track1 n s .intoProof = some (some s')) : R s' { m with stack := [] } := sim_intoProof n s s' m hR hcl h

/-- the known finding, formally: a publish leaves the published term on the tracker's stack, flagged -/
theorem publish_leaves_residue (n : Nat) (s s' : PySt) (c : Call)
    (hc : c = .publishAxiom ∨ c = .publishClaim ∨ c = .publishProof)
    (ht : PySt.track1 n s c = some (some s')) :
    ∃ t b st, s.stack = (t, b) :: st ∧ s'.stack = (t, true) :: st ∧ live s'.stack = live st :=
  _root_.publish_leaves_residue n s s' c hc ht

/-! Non-vacuity: the empty tracker and the empty machine are related, and a first call keeps them so -/
example : R (PySt.init []) ⟨[], [], []⟩ := ⟨rfl, rfl, fun h => by cases h⟩
example : PySt.track1 5 (PySt.init []) .prop1 = some (some ((PySt.init []).push (.proved PySt.prop1N))) := rfl

/-- what `SerializingInterpreter` writes, as written in `serializing_interpreter.py` (translated on every run), is the
byte encoding of what the model's `emit1` emits, call by call -/
theorem serializer_bytes_tied (n : Nat) (s : PySt) (c : Call) (is : List Instr)
    (h : PySt.emit1 n s c = some (some is)) :
    Gen.Ser.translated = true ∧ ∃ memIdx, encode is = SerTie.bytesOfCall s memIdx c :=
  ⟨SerTie.translated, SerTie.emit_is_serializer n s c is h⟩

end C04
