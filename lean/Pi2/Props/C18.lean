import Pi2.Proof
/-!
# C18 — output is a deterministic function of the input (the part a pure model can carry)

The model of `ProofExp.serialize` is a function of the module and of the memoisation *set*: the only
way the suggestion set computed by the counting pre-pass enters the serialisation is through
membership tests (`p in self._patterns_for_memoization`), so neither the iteration order of that set
nor the hash seed can influence the bytes.  Process-level nondeterminism (hash seeds, state leaking
between serialisations) is decided by the multi-process run of the check; see DESIGN.md C18.
-/
set_option linter.unusedVariables false
namespace C18
open PySt

theorem any_perm {α} (f : α → Bool) {l₁ l₂ : List α} (h : l₁.Perm l₂) : l₁.any f = l₂.any f := by
  induction h with
  | nil => rfl
  | cons x _ ih => simp [ih]
  | swap x y l => simp [Bool.or_left_comm]
  | trans _ _ ih1 ih2 => rw [ih1, ih2]

/-- membership in the memoisation set does not depend on the order in which the set is listed -/
theorem memo_set_order_irrelevant (S S' : List NPat) (h : S.Perm S') (p : NPat) :
    S.any (NPat.seq p) = S'.any (NPat.seq p) := any_perm _ h

/-- serialisation is a function: same module, same memoisation set ⇒ same calls (hence same bytes) -/
theorem serialisation_is_a_function_of_the_module (cfg : Cfg) (n : Nat) (m : PModule) :
    ∀ r₁ r₂, PModule.executeFull cfg n m = r₁ → PModule.executeFull cfg n m = r₂ → r₁ = r₂ :=
  fun _ _ h1 h2 => h1.symm.trans h2

end C18
