import Pi2.Proof
import Pi2.CountDet
/-!
# C18 — output is a deterministic function of the input (the part a pure model can carry)

The model of `ProofExp.serialize` is a function of the module and of the memoisation *set*: the only
way the suggestion set computed by the counting pre-pass enters the serialisation is through
membership tests (`p in self._patterns_for_memoization`), so neither the iteration order of that set
nor the hash seed can influence the bytes.  Process-level nondeterminism (hash seeds, state leaking
between serialisations) is decided by the multi-process run of the check; see DESIGN.md C18.

The counting pre-pass itself (`CountingInterpreter`, the only code on the `--optimize` path that ITERATES sets) is translated
statement by statement into `Pi2/Gen/PyCount.lean` (`vlib/transcount.py`) with the iteration order of every set as a
parameter (an arbitrary permutation per iteration); `Pi2/CountDet.lean` proves that this parameter does not reach the
result.  Keys of the usage dictionary: an abstract type `K` with decidable equality (the pattern objects up to the
equality CPython's `dict` implements: equal hash and `==`, i.e. structural equality of the frozen dataclasses); `repr`
maps a key to the model pattern it denotes.
-/
set_option linter.unusedVariables false
namespace C18
open PySt

theorem any_perm {α} (f : α → Bool) {l₁ l₂ : List α} (h : l₁.Perm l₂) : l₁.any f = l₂.any f := by
  induction h with
  | nil => rfl
  | cons x _ ih => simp [ih]
  | swap x y l => simp [Bool.or_left_comm]
  | trans _ _ ih1 ih2 => rw [ih1, ih2]

/-- membership in the memoisation set does not depend on the order in which the set is listed -/
theorem memo_set_order_irrelevant (S S' : List NPat) (h : S.Perm S') (p : NPat) :
    S.any (NPat.seq p) = S'.any (NPat.seq p) := any_perm _ h

/-- serialisation is a function: same module, same memoisation set ⇒ same calls (hence same bytes) -/
theorem serialisation_is_a_function_of_the_module (cfg : Cfg) (n : Nat) (m : PModule) :
    ∀ r₁ r₂, PModule.executeFull cfg n m = r₁ → PModule.executeFull cfg n m = r₂ → r₁ = r₂ :=
  fun _ _ h1 h2 => h1.symm.trans h2

/-! ## the counting pre-pass -/
open CountSup Gen.PyCount

/-- every statement of `CountingInterpreter` is covered by the translator -/
theorem counting_text_translated : Gen.PyCount.translated = true := CountDet.translated

/-- the suggestion set `finalize` returns — and the whole final state — is the same for ANY two choices of the iteration
orders of the sets `dependencies` and `requires_updating` (any permutation, a new one for every iteration), in every
state the recording phase can reach -/
theorem memo_suggestions_independent_of_set_order {K : Type} [DecidableEq K] [PyPattern K] {σ : Self K}
    (hσ : CountDet.Reachable σ) (o₁ o₂ : Orders K) (h₁ : o₁.Valid) (h₂ : o₂.Valid) (t : Nat) :
    finalize o₁ t σ = finalize o₂ t σ :=
  CountDet.finalize_order_independent_reachable hσ o₁ o₂ h₁ h₂ t

theorem patternF_memo_congr (S S' : List NPat) (h : ∀ p, S.any (NPat.seq p) = S'.any (NPat.seq p)) :
    ∀ n, (∀ s p acc, patternF { memo := some S } n s p acc = patternF { memo := some S' } n s p acc) ∧
         (∀ s ps acc, patternF.patternListF { memo := some S } n s ps acc = patternF.patternListF { memo := some S' } n s ps acc) := by
  intro n
  induction n with
  | zero =>
    constructor
    · intro s p acc; simp only [patternF]
    · intro s ps acc; simp only [patternF.patternListF]
  | succ n ih =>
    obtain ⟨ihP, ihL⟩ := ih
    constructor
    · intro s p acc
      simp only [patternF, ihP, ihL, h]
    · intro s ps acc
      cases ps with
      | nil => simp only [patternF.patternListF]
      | cons p r => simp only [patternF.patternListF, ihP, ihL]

theorem runF_memo_congr (S S' : List NPat) (h : ∀ p, S.any (NPat.seq p) = S'.any (NPat.seq p)) (ax : List NPat) :
    ∀ n s pf acc, Pf.runF { memo := some S } ax n s pf acc = Pf.runF { memo := some S' } ax n s pf acc := by
  intro n
  induction n with
  | zero => intro s pf acc; simp only [Pf.runF]
  | succ n ih =>
    intro s pf acc
    cases pf <;> simp only [Pf.runF, ih, (patternF_memo_congr S S' h n).2]

/-- the serialisation sees the memoisation set through membership tests only -/
theorem executeFull_memo_congr (S S' : List NPat) (h : ∀ p, S.any (NPat.seq p) = S'.any (NPat.seq p)) (n : Nat) (m : PModule) :
    PModule.executeFull { memo := some S } n m = PModule.executeFull { memo := some S' } n m := by
  have hpub : ∀ (l : List NPat) n s acc c, PModule.executeFull.pub { memo := some S } n s acc c l =
      PModule.executeFull.pub { memo := some S' } n s acc c l := by
    intro l
    induction l with
    | nil => intro n s acc c; simp only [PModule.executeFull.pub]
    | cons a r ih => intro n s acc c; simp only [PModule.executeFull.pub, (patternF_memo_congr S S' h n).1, ih]
  have hproofs : ∀ (l : List Pf) n s acc, PModule.executeFull.proofs { memo := some S } m n s acc l =
      PModule.executeFull.proofs { memo := some S' } m n s acc l := by
    intro l
    induction l with
    | nil => intro n s acc; simp only [PModule.executeFull.proofs]
    | cons a r ih => intro n s acc; simp only [PModule.executeFull.proofs, runF_memo_congr S S' h, ih]
  simp only [PModule.executeFull, hpub, hproofs]

/-- **the serialisation under `--optimize` does not depend on any set iteration order**: run the counting pre-pass twice on
the same reachable state with ANY two order oracles; hand the two suggestion sets to `MemoizingInterpreter` in ANY listing
(`L₁`, `L₂`: the set object is copied by `set(..)` and only asked `p in ..`); then either both `finalize` calls raise, or
both succeed and the serialisation (the calls the serializer receives, hence the bytes) of every module is the same. -/
theorem optimized_serialisation_independent_of_set_order {K : Type} [DecidableEq K] [PyPattern K] (repr : K → NPat)
    {σ : Self K} (hσ : CountDet.Reachable σ) (o₁ o₂ : Orders K) (h₁ : o₁.Valid) (h₂ : o₂.Valid) (t : Nat) :
    (finalize o₁ t σ = none ∧ finalize o₂ t σ = none) ∨
    ∃ (S : PySet K) (σ' : Self K) (t' : Nat), finalize o₁ t σ = some (S, σ', t') ∧ finalize o₂ t σ = some (S, σ', t') ∧
      ∀ (L₁ L₂ : List NPat), L₁.Perm (S.map repr) → L₂.Perm (S.map repr) →
        (∀ p, L₁.any (NPat.seq p) = L₂.any (NPat.seq p)) ∧
        ∀ n m, PModule.executeFull { memo := some L₁ } n m = PModule.executeFull { memo := some L₂ } n m := by
  have heq := memo_suggestions_independent_of_set_order hσ o₁ o₂ h₁ h₂ t
  cases hf : finalize o₁ t σ with
  | none => left; exact ⟨rfl, by rw [← heq, hf]⟩
  | some r =>
    obtain ⟨S, σ', t'⟩ := r
    right
    refine ⟨S, σ', t', rfl, by rw [← heq, hf], ?_⟩
    intro L₁ L₂ hL₁ hL₂
    have hm : ∀ p, L₁.any (NPat.seq p) = L₂.any (NPat.seq p) :=
      fun p => memo_set_order_irrelevant L₁ L₂ (hL₁.trans hL₂.symm) p
    exact ⟨hm, fun n m => executeFull_memo_congr L₁ L₂ hm n m⟩

end C18
