import Pi2.Props.C08b
import Pi2.Props.C03b
import Pi2.Props.C03d
/-! # C03 — gate module: the phase / journal theorems (namespace `C03` in `Props/C02.lean` and `Props/C08b.lean`) together with the slot-budget
theorems of `Props/C03b.lean` (nothing is stated here). -/
