import Pi2.EndToEnd
import Pi2.Props.C02b
import Pi2.Props.C05
import Pi2.Props.C08b
/-!
# C02 (end to end) — generated text → bytes → checker text

The chain, every link a theorem that exists already, composed here for the propositional fragment
(`NPat.PF`, `Pf.PF`: where `propositional.py`, `tautology.py` and the Metamath translations live):

1. `ProofExp.execute_full` **as written** (`Gen/PyProof.lean`) running on `StatefulInterpreter` **as written**
   (`Gen/PyInterp.lean`), plain or under `MemoizingInterpreter` as written, returns a state and a history of calls
   ⇒ the model `PModule.executeFull` returns them (`C03.phases_text_on_stateful_text_is_the_model`, text → model,
   unconditional for dicts with distinct keys);
2. ⇒ the history replays on the tracker/serializer model (`trackAll`) to three instruction lists `g`, `c`, `p` which the
   reference machine accepts, publishing the declaration (`C02.propositional_module_accepted`);
3. the bytes the serializer methods **as written** (`Gen/Serializer.lean`, `Gen.Ser.w_*`) write along that history are
   `encode g`, `encode c`, `encode p` (`EndToEnd.writeAll_of_trackAll`, from `SerTie.emit_is_serializer`);
4. `decode (encode is) = some is`, so the model checker on bytes accepts them (`verifyBytes`);
5. ⇒ `verify` of `rust/src/lib.rs` **as written** (`Gen/RustExec.lean`) accepts them (`RustExecTie.verify_eq`,
   i.e. `C05.rust_verify_is_the_model`), from every initial content of its registers;
6. ⇒ (`C01.rust_verify_text_sound`) every claim is valid in every model of the axioms.

## The wire-format hypothesis

The model's bytes are natural numbers; `decode`/`encode`, `verifyBytes` and the translated Rust `verify` are total on
`List Nat`, so acceptance (`*_bytes_accepted`, `*_text_accepted`) needs **no** hypothesis on the size of the ids.
`Wire` (every number written is `< 256`: ids of metavariables/variables, key lists and their lengths, memory indices
of `load`, symbol numbers) is what makes the three streams *byte strings*, i.e. images of `List UInt8`; it is the
hypothesis of the `*_u8_accepted` variants and is kept explicit and decidable.  At the excluded point — e.g. an
axiom `φ256` — the serializer writes `[137, 256, 30]`; Python's `bytes([...])` raises `ValueError`, so the toolkit
generates no module, whereas the `Nat` model goes on and accepts (`wire_excluded_point` below).
-/
set_option linter.unusedVariables false
namespace C02
open PySt PyI Gen.PyProof ProofTie ComposeTie EndToEnd

/-- the conclusion of the end-to-end theorems: the history `calls` replays from the initial state of module `m` to
the state `s` and three instruction lists; the translated serializer methods write their encodings; the model checker
on bytes accepts these and publishes the declaration; the translated Rust `verify` accepts them -/
def BytesAccepted (n : Nat) (m : PModule) (s : PySt) (calls : List Call) (g c p : List Instr) : Prop :=
  PySt.trackAll n (PySt.init m.claimsOf) calls ([], [], []) = some (some (s, (g, c, p))) ∧
  writeAll n (PySt.init m.claimsOf) calls ([], [], []) = some (some (s, (encode g, encode c, encode p))) ∧
  verifyBytes (encode g) (encode c) (encode p)
    = some (m.gammaAxioms.map NPat.expand, m.claimsOf.reverse.map NPat.expand) ∧
  Gen.Rust.execTranslated = true ∧
  ∀ r0 : RustExec.RSt, (Gen.Rust.verify (encode g) (encode c) (encode p) r0).isSome = true

/-- **1. model run → bytes → both checkers.**  Under the hypotheses of `propositional_module_accepted` (and nothing
else): the three byte streams the translated serializer writes along the run are `encode g`, `encode c`, `encode p`;
the model `verifyBytes` accepts them and publishes the declaration; `verify` of `lib.rs` as translated accepts them. -/
theorem propositional_module_bytes_accepted (cfg : PySt.Cfg) (n : Nat) (m : PModule) (s : PySt) (calls : List Call)
    (hgam : ∀ a ∈ m.gammaAxioms, a.PF = true) (hclm : ∀ a ∈ m.claimsOf, a.PF = true)
    (hpfs : ∀ pf ∈ m.proofsOf, pf.PF = true)
    (hex : PModule.executeFull cfg n m = some (some (s, calls)))
    (hcanon : MM.CanonCalls [] calls) (hfin : s.claims = []) :
    ∃ g c p, BytesAccepted n m s calls g c p := by
  obtain ⟨g, c, p, hT, hv⟩ := propositional_module_accepted cfg n m s calls hgam hclm hpfs hex hcanon hfin
  refine ⟨g, c, p, hT, writeAll_of_trackAll_init n calls _ s g c p hT, ?_, (C05.rust_verify_is_the_model [] [] [] default).1,
    fun r0 => rust_accepts_encode g c p _ hv r0⟩
  rw [verifyBytes_encode, hv]

/-- the same for any replay of the history (`trackAll` with any fuel that suffices): the streams are unique -/
theorem propositional_module_bytes_accepted' (cfg : PySt.Cfg) (n : Nat) (m : PModule) (s : PySt) (calls : List Call)
    (hgam : ∀ a ∈ m.gammaAxioms, a.PF = true) (hclm : ∀ a ∈ m.claimsOf, a.PF = true)
    (hpfs : ∀ pf ∈ m.proofsOf, pf.PF = true)
    (hex : PModule.executeFull cfg n m = some (some (s, calls)))
    (hcanon : MM.CanonCalls [] calls) (hfin : s.claims = [])
    (n' : Nat) (s' : PySt) (g c p : List Instr)
    (hT : PySt.trackAll n' (PySt.init m.claimsOf) calls ([], [], []) = some (some (s', (g, c, p)))) :
    BytesAccepted n' m s' calls g c p := by
  obtain ⟨g0, c0, p0, hT0, _, hvb, htr, hr⟩ :=
    propositional_module_bytes_accepted cfg n m s calls hgam hclm hpfs hex hcanon hfin
  have := trackAll_fuel_irrelevant hT0 hT
  simp only [Option.some.injEq, Prod.mk.injEq] at this
  obtain ⟨rfl, rfl, rfl, rfl⟩ := this
  exact ⟨hT, writeAll_of_trackAll_init n' calls _ _ _ _ _ hT, hvb, htr, hr⟩

/-- **1 (bytes proper).**  If moreover the three streams are wire byte strings (`Wire`: every number written fits in
a byte — decidable), they are the images of three `List UInt8`, accepted by both checkers. -/
theorem propositional_module_u8_accepted (cfg : PySt.Cfg) (n : Nat) (m : PModule) (s : PySt) (calls : List Call)
    (hgam : ∀ a ∈ m.gammaAxioms, a.PF = true) (hclm : ∀ a ∈ m.claimsOf, a.PF = true)
    (hpfs : ∀ pf ∈ m.proofsOf, pf.PF = true)
    (hex : PModule.executeFull cfg n m = some (some (s, calls)))
    (hcanon : MM.CanonCalls [] calls) (hfin : s.claims = [])
    (n' : Nat) (s' : PySt) (g c p : List Instr)
    (hT : PySt.trackAll n' (PySt.init m.claimsOf) calls ([], [], []) = some (some (s', (g, c, p))))
    (hw : Wire (encode g) ∧ Wire (encode c) ∧ Wire (encode p)) :
    ∃ gb cb pb : List UInt8,
      gb.map UInt8.toNat = encode g ∧ cb.map UInt8.toNat = encode c ∧ pb.map UInt8.toNat = encode p ∧
      writeAll n' (PySt.init m.claimsOf) calls ([], [], [])
        = some (some (s', (gb.map UInt8.toNat, cb.map UInt8.toNat, pb.map UInt8.toNat))) ∧
      verifyBytes (gb.map UInt8.toNat) (cb.map UInt8.toNat) (pb.map UInt8.toNat)
        = some (m.gammaAxioms.map NPat.expand, m.claimsOf.reverse.map NPat.expand) ∧
      ∀ r0 : RustExec.RSt,
        (Gen.Rust.verify (gb.map UInt8.toNat) (cb.map UInt8.toNat) (pb.map UInt8.toNat) r0).isSome = true := by
  obtain ⟨_, hW, hvb, _, hr⟩ :=
    propositional_module_bytes_accepted' cfg n m s calls hgam hclm hpfs hex hcanon hfin n' s' g c p hT
  obtain ⟨gb, hg⟩ := wire_is_u8 _ hw.1
  obtain ⟨cb, hc⟩ := wire_is_u8 _ hw.2.1
  obtain ⟨pb, hp⟩ := wire_is_u8 _ hw.2.2
  refine ⟨gb, cb, pb, hg, hc, hp, ?_, ?_, ?_⟩
  · rw [hg, hc, hp]; exact hW
  · rw [hg, hc, hp]; exact hvb
  · rw [hg, hc, hp]; exact hr

/-- the excluded point of `Wire`: the axiom `φ256`.  The serializer model writes `[137, 256, 30]` to the gamma
file — not a byte string (Python: `bytes([137, 256, 30])` raises `ValueError`, no module is generated) — while the
`Nat` model of the checker reads it and accepts. -/
theorem wire_excluded_point :
    (PySt.trackAll 5 (PySt.init []) [.metavar 256 [] [] [] [] [], .publishAxiom, .intoClaim, .intoProof]
      ([], [], [])).map (Option.map (·.2)) = some (some ([.cleanmv 256, .publish], [], [])) ∧
    encode [.cleanmv 256, .publish] = [137, 256, 30] ∧ ¬ Wire [137, 256, 30] ∧
    (∀ us : List UInt8, us.map UInt8.toNat ≠ [137, 256, 30]) ∧
    verifyBytes [137, 256, 30] [] [] = some ([phi 256], []) := by
  refine ⟨by decide, by decide, by decide, ?_, by decide⟩
  intro us h
  have := u8_is_wire us
  rw [h] at this
  exact absurd this (by decide)

/-! ## 2. from the text side -/

theorem keysNodup_of_PF (m : PModule) (hpfs : ∀ pf ∈ m.proofsOf, pf.PF = true) :
    ∀ pf ∈ m.proofsOf, KeysNodup pf := fun pf h => Pf.PF.keysNodup pf (hpfs pf h)

/-- **2. generated text → bytes → checker text** (plain serialisation).  If `ProofExp.execute_full` as written, on the
`ProofExp` of a module of the propositional fragment (its thunks built by the rule constructors as written,
`buildAll`), running on `StatefulInterpreter` as written, returns the state `s` and the history `calls` — every claim
discharged, symbols named canonically — then for some fuel the history replays to three instruction lists whose
encodings are what the serializer as written writes, and `verify` of `lib.rs` as written accepts these bytes (as does
the model `verifyBytes`, publishing the declaration). -/
theorem propositional_module_text_accepted (N : Nat) (m : PModule)
    (thunks : List (ProofThunk ProofTie.St)) (f : PModule → List (ProofThunk ProofTie.St)) (s : PySt) (calls : List Call)
    (hgam : ∀ a ∈ m.gammaAxioms, a.PF = true) (hclm : ∀ a ∈ m.claimsOf, a.PF = true)
    (hpfs : ∀ pf ∈ m.proofsOf, pf.PF = true)
    (hb : buildAll N m.axiomsOf m.proofsOf = some (some thunks))
    (htext : ProofExp.execute_full N (expOf thunks f m) (statefulK N N) (PySt.init m.claimsOf, [])
      = some (some (s, calls)))
    (hcanon : MM.CanonCalls [] calls) (hfin : s.claims = []) :
    ∃ n g c p, BytesAccepted n m s calls g c p := by
  obtain ⟨n, hex⟩ :=
    (C03.phases_text_on_stateful_text_is_the_model N m (keysNodup_of_PF m hpfs)).2 thunks f (s, calls) hb htext
  obtain ⟨g, c, p, h⟩ := propositional_module_bytes_accepted {} n m s calls hgam hclm hpfs hex hcanon hfin
  exact ⟨n, g, c, p, h⟩

/-- **2 (memoising).**  The same through `MemoizingInterpreter(StatefulInterpreter, S)` as written — the object
`serialize(optimize=True)` builds —, for every suggestion set `S`; `τ.sub` is the state of the wrapped interpreter
and the history it received. -/
theorem propositional_module_memo_text_accepted (N : Nat) (S : List NPat) (m : PModule)
    (thunks : List (ProofThunk (TrSt ProofTie.St))) (f : PModule → List (ProofThunk (TrSt ProofTie.St)))
    (τ : TrSt ProofTie.St)
    (hgam : ∀ a ∈ m.gammaAxioms, a.PF = true) (hclm : ∀ a ∈ m.claimsOf, a.PF = true)
    (hpfs : ∀ pf ∈ m.proofsOf, pf.PF = true)
    (hb : buildAll N m.axiomsOf m.proofsOf = some (some thunks))
    (htext : ProofExp.execute_full N (expOf thunks f m) (statefulMemoK N N S) (embM (PySt.init m.claimsOf, []))
      = some (some τ))
    (hcanon : MM.CanonCalls [] τ.sub.2) (hfin : τ.sub.1.claims = []) :
    ∃ n g c p, BytesAccepted n m τ.sub.1 τ.sub.2 g c p := by
  obtain ⟨n, s, calls, hex, rfl⟩ :=
    (C03.memo_phases_text_on_stateful_text_is_the_model N S m (keysNodup_of_PF m hpfs)).1.2 thunks f τ hb htext
  obtain ⟨g, c, p, h⟩ :=
    propositional_module_bytes_accepted { memo := some S } n m s calls hgam hclm hpfs hex hcanon hfin
  exact ⟨n, g, c, p, h⟩

/-- **2 (bytes proper).**  Any replay of the history the text returned gives the same three streams; if they are
wire byte strings they are three `List UInt8` which the serializer as written writes and `verify` of `lib.rs` as
written accepts. -/
theorem propositional_module_text_u8_accepted (N : Nat) (m : PModule)
    (thunks : List (ProofThunk ProofTie.St)) (f : PModule → List (ProofThunk ProofTie.St)) (s : PySt) (calls : List Call)
    (hgam : ∀ a ∈ m.gammaAxioms, a.PF = true) (hclm : ∀ a ∈ m.claimsOf, a.PF = true)
    (hpfs : ∀ pf ∈ m.proofsOf, pf.PF = true)
    (hb : buildAll N m.axiomsOf m.proofsOf = some (some thunks))
    (htext : ProofExp.execute_full N (expOf thunks f m) (statefulK N N) (PySt.init m.claimsOf, [])
      = some (some (s, calls)))
    (hcanon : MM.CanonCalls [] calls) (hfin : s.claims = [])
    (n' : Nat) (s' : PySt) (g c p : List Instr)
    (hT : PySt.trackAll n' (PySt.init m.claimsOf) calls ([], [], []) = some (some (s', (g, c, p))))
    (hw : Wire (encode g) ∧ Wire (encode c) ∧ Wire (encode p)) :
    ∃ gb cb pb : List UInt8,
      gb.map UInt8.toNat = encode g ∧ cb.map UInt8.toNat = encode c ∧ pb.map UInt8.toNat = encode p ∧
      writeAll n' (PySt.init m.claimsOf) calls ([], [], [])
        = some (some (s', (gb.map UInt8.toNat, cb.map UInt8.toNat, pb.map UInt8.toNat))) ∧
      verifyBytes (gb.map UInt8.toNat) (cb.map UInt8.toNat) (pb.map UInt8.toNat)
        = some (m.gammaAxioms.map NPat.expand, m.claimsOf.reverse.map NPat.expand) ∧
      ∀ r0 : RustExec.RSt,
        (Gen.Rust.verify (gb.map UInt8.toNat) (cb.map UInt8.toNat) (pb.map UInt8.toNat) r0).isSome = true := by
  obtain ⟨n, hex⟩ :=
    (C03.phases_text_on_stateful_text_is_the_model N m (keysNodup_of_PF m hpfs)).2 thunks f (s, calls) hb htext
  exact propositional_module_u8_accepted {} n m s calls hgam hclm hpfs hex hcanon hfin n' s' g c p hT hw

/-- the memoising variant of `propositional_module_text_u8_accepted` -/
theorem propositional_module_memo_text_u8_accepted (N : Nat) (S : List NPat) (m : PModule)
    (thunks : List (ProofThunk (TrSt ProofTie.St))) (f : PModule → List (ProofThunk (TrSt ProofTie.St)))
    (τ : TrSt ProofTie.St)
    (hgam : ∀ a ∈ m.gammaAxioms, a.PF = true) (hclm : ∀ a ∈ m.claimsOf, a.PF = true)
    (hpfs : ∀ pf ∈ m.proofsOf, pf.PF = true)
    (hb : buildAll N m.axiomsOf m.proofsOf = some (some thunks))
    (htext : ProofExp.execute_full N (expOf thunks f m) (statefulMemoK N N S) (embM (PySt.init m.claimsOf, []))
      = some (some τ))
    (hcanon : MM.CanonCalls [] τ.sub.2) (hfin : τ.sub.1.claims = [])
    (n' : Nat) (s' : PySt) (g c p : List Instr)
    (hT : PySt.trackAll n' (PySt.init m.claimsOf) τ.sub.2 ([], [], []) = some (some (s', (g, c, p))))
    (hw : Wire (encode g) ∧ Wire (encode c) ∧ Wire (encode p)) :
    ∃ gb cb pb : List UInt8,
      gb.map UInt8.toNat = encode g ∧ cb.map UInt8.toNat = encode c ∧ pb.map UInt8.toNat = encode p ∧
      writeAll n' (PySt.init m.claimsOf) τ.sub.2 ([], [], [])
        = some (some (s', (gb.map UInt8.toNat, cb.map UInt8.toNat, pb.map UInt8.toNat))) ∧
      verifyBytes (gb.map UInt8.toNat) (cb.map UInt8.toNat) (pb.map UInt8.toNat)
        = some (m.gammaAxioms.map NPat.expand, m.claimsOf.reverse.map NPat.expand) ∧
      ∀ r0 : RustExec.RSt,
        (Gen.Rust.verify (gb.map UInt8.toNat) (cb.map UInt8.toNat) (pb.map UInt8.toNat) r0).isSome = true := by
  obtain ⟨n, s, calls, hex, rfl⟩ :=
    (C03.memo_phases_text_on_stateful_text_is_the_model N S m (keysNodup_of_PF m hpfs)).1.2 thunks f τ hb htext
  exact propositional_module_u8_accepted { memo := some S } n m s calls hgam hclm hpfs hex hcanon hfin n' s' g c p hT hw

/-! ## 3. soundness, through the checker as written -/

/-- what acceptance by the Rust text gives, with `C01.rust_verify_text_sound`: the claims of the declaration are valid
in every model of its axioms -/
theorem sound_of_bytesAccepted {n : Nat} {m : PModule} {s : PySt} {calls : List Call} {g c p : List Instr}
    (h : BytesAccepted n m s calls g c p) (𝔐 : Model) (hΓ : ∀ a ∈ m.gammaAxioms, ValidM 𝔐 a.expand) :
    ∀ q ∈ m.claimsOf, ValidM 𝔐 q.expand := by
  obtain ⟨_, _, hvb, _, hr⟩ := h
  obtain ⟨_, axs, cls, hv, hsound⟩ := C01.rust_verify_text_sound (encode g) (encode c) (encode p) default (hr default)
  rw [hvb] at hv
  simp only [Option.some.injEq, Prod.mk.injEq] at hv
  obtain ⟨rfl, rfl⟩ := hv
  intro q hq
  apply hsound 𝔐
  · intro a ha
    simp only [List.mem_map] at ha
    obtain ⟨a0, h0, rfl⟩ := ha
    exact hΓ a0 h0
  · simp only [List.mem_map, List.mem_reverse]
    exact ⟨q, hq, rfl⟩

/-- **3. generated text ⇒ validity**, through the bytes and `verify` of `lib.rs` as written: every claim of a module
of the propositional fragment on which `execute_full` as written returns (every claim discharged) is valid in every
model of the module's axioms (imported modules' axioms included). -/
theorem propositional_module_text_sound (N : Nat) (m : PModule)
    (thunks : List (ProofThunk ProofTie.St)) (f : PModule → List (ProofThunk ProofTie.St)) (s : PySt) (calls : List Call)
    (hgam : ∀ a ∈ m.gammaAxioms, a.PF = true) (hclm : ∀ a ∈ m.claimsOf, a.PF = true)
    (hpfs : ∀ pf ∈ m.proofsOf, pf.PF = true)
    (hb : buildAll N m.axiomsOf m.proofsOf = some (some thunks))
    (htext : ProofExp.execute_full N (expOf thunks f m) (statefulK N N) (PySt.init m.claimsOf, [])
      = some (some (s, calls)))
    (hcanon : MM.CanonCalls [] calls) (hfin : s.claims = [])
    (𝔐 : Model) (hΓ : ∀ a ∈ m.gammaAxioms, ValidM 𝔐 a.expand) :
    ∀ q ∈ m.claimsOf, ValidM 𝔐 q.expand := by
  obtain ⟨n, g, c, p, h⟩ :=
    propositional_module_text_accepted N m thunks f s calls hgam hclm hpfs hb htext hcanon hfin
  exact sound_of_bytesAccepted h 𝔐 hΓ

/-- the memoising variant -/
theorem propositional_module_memo_text_sound (N : Nat) (S : List NPat) (m : PModule)
    (thunks : List (ProofThunk (TrSt ProofTie.St))) (f : PModule → List (ProofThunk (TrSt ProofTie.St)))
    (τ : TrSt ProofTie.St)
    (hgam : ∀ a ∈ m.gammaAxioms, a.PF = true) (hclm : ∀ a ∈ m.claimsOf, a.PF = true)
    (hpfs : ∀ pf ∈ m.proofsOf, pf.PF = true)
    (hb : buildAll N m.axiomsOf m.proofsOf = some (some thunks))
    (htext : ProofExp.execute_full N (expOf thunks f m) (statefulMemoK N N S) (embM (PySt.init m.claimsOf, []))
      = some (some τ))
    (hcanon : MM.CanonCalls [] τ.sub.2) (hfin : τ.sub.1.claims = [])
    (𝔐 : Model) (hΓ : ∀ a ∈ m.gammaAxioms, ValidM 𝔐 a.expand) :
    ∀ q ∈ m.claimsOf, ValidM 𝔐 q.expand := by
  obtain ⟨n, g, c, p, h⟩ :=
    propositional_module_memo_text_accepted N S m thunks f τ hgam hclm hpfs hb htext hcanon hfin
  exact sound_of_bytesAccepted h 𝔐 hΓ

/-! ## 4. non-vacuity: `PFExample.mod` (axiom `s0 → s1 → ⊥`; claims `φ0 → φ0` by `imp_refl` of `propositional.py`, and
the axiom by `load_axiom`) satisfies every hypothesis, on the text side -/

namespace EndToEndExample
open PFExample

/-- the translated `execute_full` on the translated `StatefulInterpreter` returns for `mod` (fuel 40), with every
claim discharged, canonical symbol names and wire byte streams -/
theorem mod_text : textCheck 40 mod = true := by decide

/-- … and through the translated `MemoizingInterpreter` (empty suggestion set: `NPat.seq` is defined by well-founded
recursion, so the kernel cannot evaluate a run that consults a non-empty one) -/
theorem mod_text_memo : textCheckM 40 [] mod = true := by decide +kernel

/-- all hypotheses of `propositional_module_text_accepted` and of `propositional_module_text_u8_accepted` hold for
`mod`: three `List UInt8`, written by the serializer as written, accepted by `verify` of `lib.rs` as written -/
theorem mod_accepted :
    ∃ (n : Nat) (s : PySt) (calls : List Call) (gb cb pb : List UInt8),
      writeAll n (PySt.init mod.claimsOf) calls ([], [], [])
        = some (some (s, (gb.map UInt8.toNat, cb.map UInt8.toNat, pb.map UInt8.toNat))) ∧
      verifyBytes (gb.map UInt8.toNat) (cb.map UInt8.toNat) (pb.map UInt8.toNat)
        = some (mod.gammaAxioms.map NPat.expand, mod.claimsOf.reverse.map NPat.expand) ∧
      ∀ r0 : RustExec.RSt,
        (Gen.Rust.verify (gb.map UInt8.toNat) (cb.map UInt8.toNat) (pb.map UInt8.toNat) r0).isSome = true := by
  obtain ⟨thunks, s, calls, hb, hx, hcanon, hfin, hwc⟩ := textCheck_sound mod_text
  obtain ⟨n, g, c, p, hacc⟩ :=
    propositional_module_text_accepted 40 mod thunks _ s calls mod_gamma mod_claims mod_proofs hb hx hcanon hfin
  obtain ⟨gb, cb, pb, _, _, _, hW, hv, hr⟩ :=
    propositional_module_text_u8_accepted 40 mod thunks _ s calls mod_gamma mod_claims mod_proofs hb hx hcanon hfin
      n s g c p hacc.1 (wireCheck_sound hwc hacc.1)
  exact ⟨n, s, calls, gb, cb, pb, hW, hv, hr⟩

/-- the same through the memoising interpreter -/
theorem mod_accepted_memo :
    ∃ (n : Nat) (s : PySt) (calls : List Call) (gb cb pb : List UInt8),
      writeAll n (PySt.init mod.claimsOf) calls ([], [], [])
        = some (some (s, (gb.map UInt8.toNat, cb.map UInt8.toNat, pb.map UInt8.toNat))) ∧
      verifyBytes (gb.map UInt8.toNat) (cb.map UInt8.toNat) (pb.map UInt8.toNat)
        = some (mod.gammaAxioms.map NPat.expand, mod.claimsOf.reverse.map NPat.expand) ∧
      ∀ r0 : RustExec.RSt,
        (Gen.Rust.verify (gb.map UInt8.toNat) (cb.map UInt8.toNat) (pb.map UInt8.toNat) r0).isSome = true := by
  obtain ⟨thunks, τ, hb, hx, hcanon, hfin, hwc⟩ := textCheckM_sound mod_text_memo
  obtain ⟨n, g, c, p, hacc⟩ :=
    propositional_module_memo_text_accepted 40 [] mod thunks _ τ mod_gamma mod_claims mod_proofs hb hx hcanon hfin
  obtain ⟨gb, cb, pb, _, _, _, hW, hv, hr⟩ :=
    propositional_module_memo_text_u8_accepted 40 [] mod thunks _ τ mod_gamma mod_claims mod_proofs hb hx hcanon hfin
      n τ.sub.1 g c p hacc.1 (wireCheck_sound hwc hacc.1)
  exact ⟨n, τ.sub.1, τ.sub.2, gb, cb, pb, hW, hv, hr⟩

/-- and, through the text, the bytes and the Rust text: `φ0 → φ0` is valid in every model of the axiom -/
theorem mod_sound (𝔐 : Model) (hΓ : ValidM 𝔐 ax.expand) : ValidM 𝔐 (NPat.imp (phiN 0) (phiN 0)).expand := by
  obtain ⟨thunks, s, calls, hb, hx, hcanon, hfin, _⟩ := textCheck_sound mod_text
  exact propositional_module_text_sound 40 mod thunks _ s calls mod_gamma mod_claims mod_proofs hb hx hcanon hfin 𝔐
    (by intro a ha; simp [mod, PModule.gammaAxioms, PModule.gammaAxioms.gammaList] at ha; subst ha; exact hΓ)
    _ (by simp [mod, PModule.claimsOf])

/-- the concrete bytes of the plain serialisation of `mod` (model run at fuel 40): what the files contain -/
theorem mod_bytes :
    (PModule.executeFull {} 40 mod).bind (fun o => o.bind fun sc =>
      (writeAll 40 (PySt.init mod.claimsOf) sc.2 ([], [], [])).bind fun o => o.map (·.2)) =
    some ([4, 0, 4, 1, 3, 0, 7, 0, 26, 0, 5, 5, 30],
          [4, 0, 4, 1, 3, 0, 7, 0, 26, 0, 5, 5, 30, 137, 0, 137, 0, 5, 30],
          [137, 0, 137, 0, 5, 137, 0, 13, 26, 2, 2, 1, 137, 0, 137, 0, 5, 12, 26, 1, 1, 21, 137, 0, 12, 26, 1, 1, 21,
           30, 29, 0, 30]) := by
  decide +kernel

end EndToEndExample

end C02

#print axioms C02.propositional_module_bytes_accepted
#print axioms C02.propositional_module_bytes_accepted'
#print axioms C02.propositional_module_u8_accepted
#print axioms C02.wire_excluded_point
#print axioms C02.propositional_module_text_accepted
#print axioms C02.propositional_module_memo_text_accepted
#print axioms C02.propositional_module_text_u8_accepted
#print axioms C02.propositional_module_memo_text_u8_accepted
#print axioms C02.propositional_module_text_sound
#print axioms C02.propositional_module_memo_text_sound
#print axioms C02.EndToEndExample.mod_text
#print axioms C02.EndToEndExample.mod_text_memo
#print axioms C02.EndToEndExample.mod_accepted
#print axioms C02.EndToEndExample.mod_accepted_memo
#print axioms C02.EndToEndExample.mod_sound
#print axioms C02.EndToEndExample.mod_bytes
