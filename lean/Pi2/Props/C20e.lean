import Pi2.KDefTieM6
import Pi2.KDefTieM7
import Pi2.Props.C20d
/-!
# C20 — towards the GENERAL several-module tie: the store of k modules, `KModule.modules`, the searches, one module's sentences

What is PROVED here (all for EVERY store of k modules that satisfies the invariant `KDefTieM2.InvM` — the current module last, every
module imports only earlier modules, distinct module names —, every valid set order, fuel `≥ k + 1`):
* `kmodule_modules_is_closure`: `KModule.modules` (fuel `> i`) returns the stored closure `cl_i` = `fromkeys` of the imports and their closures;
  `closure_is_transitive`;
* `own_then_closure_search_{sort,symbol,axiom}`: `KModule.get_sort / get_symbol / get_axiom` (fuel `≥ i + 2`) return an entry of the own table
  of a module of `i :: cl_i`, and raise only if none of these modules has an entry (no name-uniqueness assumption needed in this form);
* `all_modules_under_any_set_order`, `get_module_under_any_set_order`, `ls_get_sort_under_any_set_order`, `ls_get_symbol_under_any_set_order`;
* `sentence_on_k_module_store`: the body of the generated loop over the sentences is the refined step `stepM`;
* `module_sentences_text_is_spec`: the generated loop over the sentences of the module under construction raises exactly when the specification
  `addSentencesM` refuses, and otherwise ends in a store whose projection is the specification's state (`Import` of an earlier module, sorts
  visible through transitive imports, one counter, scopes cached);
* `invariant_across_modules`: the invariant holds at the first module and is kept from one module to the next (fresh name);
* `Example2`: non-vacuity on a two-module store (module 1 imports module 0 and declares a symbol over the sort of module 0).
NOT proved (see the report): the loop over the MODULES (`LanguageSemantics.module`, `__enter__/__exit__`) and the queries on the finished
store against `sigOfDefinitionM` — `kore_definition_text_is_the_model_multi` itself.
-/
namespace C20
section MultiGeneral
open PyI PyM PyK Kore Gen.PyKDef KDefSpec KDefTie KDefTieM KDefTieM2

theorem kmodule_modules_is_closure (pL cs) {mods : List RMod} (hC : Closed mods) (n i : Nat) (m : RMod) (hi : i < n)
    (hm : mods[i]? = some m) : KModule.modules n (heapL pL mods cs) i = ret m.cl := modules_eqM pL cs hC n i m hi hm

theorem closure_is_transitive {mods : List RMod} (hC : Closed mods) (i : Nat) (m : RMod) (v : Nat) (mv : RMod) (w : Nat)
    (hm : mods[i]? = some m) (hv : v ∈ m.cl) (hmv : mods[v]? = some mv) (hw : w ∈ mv.cl) : w ∈ m.cl ∧ v < i :=
  ⟨cl_trans hC i m v mv w hm hv hmv hw, cl_lt hC i m v hm hv⟩

theorem own_then_closure_search_sort (pL cs) {mods : List RMod} (hC : Closed mods) (name n i : Nat) (m : RMod) (hn : i + 2 ≤ n)
    (hm : mods[i]? = some m) :
    ∃ r, KModule.get_sort n (heapL pL mods cs) i name = some r ∧ Found (ownSort name) mods (i :: m.cl) r :=
  get_sort_char pL cs hC name n i m hn hm

theorem own_then_closure_search_symbol (pL cs) {mods : List RMod} (hC : Closed mods) (name n i : Nat) (m : RMod) (hn : i + 2 ≤ n)
    (hm : mods[i]? = some m) :
    ∃ r, KModule.get_symbol n (heapL pL mods cs) i name = some r ∧ Found (ownSymbol name) mods (i :: m.cl) r :=
  get_symbol_char pL cs hC name n i m hn hm

theorem own_then_closure_search_axiom (pL cs) {mods : List RMod} (hC : Closed mods) (o n i : Nat) (m : RMod) (hn : i + 2 ≤ n)
    (hm : mods[i]? = some m) :
    ∃ r, KModule.get_axiom n (heapL pL mods cs) i o = some r ∧ Found (ownAxiom o) mods (i :: m.cl) r :=
  get_axiom_char pL cs hC o n i m hn hm

theorem all_modules_under_any_set_order (so : SetOrder) (hso : so.Valid) (pL cs) {mods : List RMod} (hC : Closed mods) (n : Nat)
    (hn : mods.length ≤ n) :
    ∃ L, LanguageSemantics.modules so n (heapL pL mods cs) = ret L ∧ ∀ v, v ∈ L ↔ v < mods.length :=
  ls_modules_char so hso pL cs hC n hn

theorem get_module_under_any_set_order (so : SetOrder) (hso : so.Valid) {st : RStM} (hinv : InvM st) {n : Nat}
    (hn : st.mods.length + 1 ≤ n) (mn : Nat) (hne : mn ≠ st.cur.name) :
    LanguageSemantics.get_module so n (heapM st) mn = some ((findMod st.done mn).map (·.1)) :=
  get_module_eq so hso hinv hn mn hne

theorem ls_get_sort_under_any_set_order (so : SetOrder) (hso : so.Valid) (pL cs) {mods : List RMod} (hC : Closed mods) (n : Nat)
    (hn : mods.length + 1 ≤ n) (name : Nat) :
    ∃ r, LanguageSemantics.get_sort so n (heapL pL mods cs) name = some r ∧
      (∀ s, r = some s → ∃ (j : Nat) (mj : RMod), mods[j]? = some mj ∧ ownSort name mj = some s) ∧
      (r = none → ∀ (j : Nat) (mj : RMod), mods[j]? = some mj → ownSort name mj = none) :=
  ls_get_sort_char so hso pL cs hC n hn name

theorem ls_get_symbol_under_any_set_order (so : SetOrder) (hso : so.Valid) (pL cs) {mods : List RMod} (hC : Closed mods) (n : Nat)
    (hn : mods.length + 1 ≤ n) (name : Nat) :
    ∃ r, LanguageSemantics.get_symbol so n (heapL pL mods cs) name = some r ∧
      (∀ s, r = some s → ∃ (j : Nat) (mj : RMod), mods[j]? = some mj ∧ ownSymbol name mj = some s) ∧
      (r = none → ∀ (j : Nat) (mj : RMod), mods[j]? = some mj → ownSymbol name mj = none) :=
  ls_get_symbol_char so hso pL cs hC n hn name

theorem sentence_on_k_module_store (so : SetOrder) (hso : so.Valid) {st : RStM} (hinv : InvM st) {n : Nat} (hn : st.mods.length + 1 ≤ n)
    (s : KSentence) (hns : NotSelfImport st.cur.name s) (cont : PyLS → Py PyLS) :
    sentenceBody so n st.done.length s (heapM st) cont
      = match stepM n st s with
        | none => some none
        | some st' => cont (heapM st') := sentence_stepM so hso hinv hn s hns cont

theorem module_sentences_text_is_spec (so : SetOrder) (hso : so.Valid) (n : Nat) (k : PyLS → Py PyLS) (ss : List KSentence) (st : RStM)
    (hinv : InvM st) (hn : st.mods.length + 1 ≤ n) (hns : ∀ s ∈ ss, NotSelfImport st.cur.name s) :
    match addSentencesM (projM st) ss with
    | none => forEach ss (heapM st) (sentenceBody so n st.done.length) k = some none
    | some d' => ∃ st', InvM st' ∧ projM st' = d' ∧ st'.done = st.done ∧ st'.cur.name = st.cur.name ∧
        forEach ss (heapM st) (sentenceBody so n st.done.length) k = k (heapM st') :=
  sentences_text_is_spec so hso n k ss st hinv hn hns

/-- the invariant holds for the first module and is kept when the module under construction is finished and a module with a FRESH name is begun
(what `LanguageSemantics.module` checks) -/
theorem invariant_across_modules :
    (∀ name, InvM { done := [], cur := newMod name, nAxioms := 0 }) ∧
    (∀ (st : RStM), InvM st → ∀ name, (∀ m ∈ st.mods, m.name ≠ name) → InvM (nextModule st name)) :=
  ⟨inv_first, fun st hinv name hf => inv_next hinv name hf⟩

end MultiGeneral

/-! ## non-vacuity: a store of two modules -/
namespace Example2
open PyI PyM PyK Kore Gen.PyKDef KDefSpec KDefTie KDefTieM KDefTieM2

def m0 : RMod := { name := 0, parsing := some false, imports := [], inames := [], cl := [], reach := [], sorts := [(1, false)],
                   symbols := [], rules := [] }
def m1 : RMod := { name := 1, parsing := some true, imports := [], inames := [], cl := [], reach := [], sorts := [], symbols := [], rules := [] }
def st : RStM := { done := [m0], cur := m1, nAxioms := 0 }
/-- module 1 of `ExampleMulti.diamond` and a rule over the symbols of both modules -/
def ss : List KSentence := [.«import» 0, .symbolDecl 11 [] [] ExampleMulti.S [], .«axiom» (.top ExampleMulti.S)]

theorem modOK_nil (before : List RMod) (m : RMod) (h1 : m.imports = []) (h2 : m.inames = []) (h3 : m.cl = []) (h4 : m.reach = []) :
    ModOK before m := by
  refine ⟨by simp [h1], by simp [h1, h2], by rw [h1, h3]; rfl, by simp [h3, h4]⟩

theorem inv : InvM st where
  distinct := by
    intro a b x y ha hb hn
    rcases a with _ | _ | a <;> rcases b with _ | _ | b <;> simp_all [RStM.mods, st, m0, m1]
    all_goals (subst ha; subst hb; simp at hn)
  doneOK := by
    intro i m hm
    rcases i with _ | i
    · simp [st] at hm; subst hm; exact modOK_nil _ _ rfl rfl rfl rfl
    · simp [st] at hm
  curOK := modOK_nil _ _ rfl rfl rfl rfl
  parsing := rfl
  wf := by intro ru hru; simp [RStM.mods, st, m0, m1] at hru

theorem accepted : (addSentencesM (projM st) ss).isSome = true := by decide +kernel

theorem self_import_free : ∀ s ∈ ss, NotSelfImport st.cur.name s := by
  intro s hs
  simp only [ss, List.mem_cons, List.not_mem_nil, or_false] at hs
  rcases hs with rfl | rfl | rfl
  · show (0 : Nat) ≠ 1; decide
  · trivial
  · trivial

/-- for EVERY valid set order the generated loop over these sentences, on the two-module store, ends in a store that stands for the
specification's state -/
theorem tie (so : SetOrder) (hso : so.Valid) (k : PyLS → Py PyLS) :
    ∃ d' st', addSentencesM (projM st) ss = some d' ∧ InvM st' ∧ projM st' = d' ∧
      forEach ss (heapM st) (sentenceBody so 5 1) k = k (heapM st') := by
  have h := module_sentences_text_is_spec so hso 5 k ss st inv (by decide) self_import_free
  cases hd : addSentencesM (projM st) ss with
  | none => have := accepted; rw [hd] at this; cases this
  | some d' =>
    rw [hd] at h
    obtain ⟨st', h1, h2, _, _, h5⟩ := h
    exact ⟨d', st', rfl, h1, h2, h5⟩

end Example2
end C20

#print axioms C20.kmodule_modules_is_closure
#print axioms C20.closure_is_transitive
#print axioms C20.own_then_closure_search_sort
#print axioms C20.own_then_closure_search_symbol
#print axioms C20.own_then_closure_search_axiom
#print axioms C20.all_modules_under_any_set_order
#print axioms C20.get_module_under_any_set_order
#print axioms C20.ls_get_sort_under_any_set_order
#print axioms C20.ls_get_symbol_under_any_set_order
#print axioms C20.sentence_on_k_module_store
#print axioms C20.module_sentences_text_is_spec
#print axioms C20.invariant_across_modules
#print axioms C20.Example2.tie
