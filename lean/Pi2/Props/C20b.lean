import Pi2.KoreModule
import Pi2.Props.C20
import Pi2.Props.C01
import Pi2.Props.C05
/-!
# C20 (last clause) — the proof module generated from a K execution trace is accepted by the checker

`ExecSt.module st` (`Pi2/KoreModule.lean`): the axioms, claims and proof expressions `ExecutionProofExp` has
accumulated, with the modules it imports (`Substitution()`, `KoreLemmas()`; of an imported module `execute_full`
publishes the axioms only: `func_subst_axiom` and `ceil(x0)`).

The fragment (`KMod.KSteps`, decidable, on converted inputs): every rule and every value of a substitution is in the
propositional fragment `NPat.PF` (notation nodes over symbols, unconstrained metavariables, `→`, application, `⊥`),
the keys of a substitution are distinct, and `x0` is fresh in every value.  `_convert_pattern` produces exactly such
patterns (`conv_in_fragment`), closed ones for ground terms (`conv_ground_closed`), and `convert_substitutions`
distinct keys (`converted_step_in_fragment`).

For a state reached by `from_proof_hints` on such steps, whenever `execute_full` (plain serialisation) returns:

* `k_module_side`: every call satisfies the checker's side conditions (`KMod.SideK`: the checks of the machine that
  the tracker lacks — positivity, well-formed metavariables, the constraint checks of `instantiate` on the plugs — hold;
  no publish residue is touched; keys are distinct).  The only constrained metavariable is `phi0` with `x0` fresh in the
  definition of `functional` (and in `func_subst_axiom`, where it is never instantiated); it receives a closed plug;
* `k_module_accepted`: the history replays to three instruction lists that the reference machine accepts, every claim
  is discharged, and the journal is the declaration — imported axioms, own axioms, claims reversed — with every
  symbol named by its position in the serializer's symbol table (`ρ`: that is what the serializer writes; the model's
  symbol names `ksym_<n> ↦ 2001+2n` … are not positions, so the hypothesis `CanonCalls` of C02 would be vacuous here);
* `k_module_bytes_accepted`: the bytes the translated serializer writes are accepted by `verifyBytes` and by `verify` of
  `rust/src/lib.rs` as translated;
* `k_module_sound`: every claim holds in every model of the axioms (through `C01.rust_verify_text_sound`; the naming
  is undone by an injective choice of `ρ`).

Not covered: the memoising serialisation (`MemoizingInterpreter`), whose `load` of sub-patterns would need `==` on the
constrained metavariable to be truthful.
-/
set_option linter.unusedVariables false
namespace C20
open Kore KMod PySt EndToEnd

/-- `_convert_pattern` lands in the propositional fragment (notation nodes over unconstrained metavariables, symbols,
sort symbols) -/
theorem conv_in_fragment (sg : Sig) (sc sc' : Scope) (t : KTerm) (p : NPat) (h : conv sg sc t = some (sc', p)) :
    p.PF = true := KMod.conv_PF sg sc sc' t p h

/-- the conversion of a ground Kore term is closed: its expansion has no metavariable and no free variable (`PFG`),
so every element variable is fresh in it -/
theorem conv_ground_closed (sg : Sig) (sc sc' : Scope) (t : KTerm) (p : NPat) (hg : t.ground = true)
    (h : conv sg sc t = some (sc', p)) :
    p.PF = true ∧ PFG p.expand = true ∧ ∀ e, p.expand.eFresh e = true :=
  KMod.conv_ground_closed sg sc sc' t p hg h

/-- a converted rule with a converted ground substitution is a step of the fragment -/
theorem converted_step_in_fragment (sg : Sig) (r : KTerm) (σ : List (Nat × KTerm)) (sc1 sc1' : Scope) (rule : NPat)
    (δ : List (Nat × NPat)) (hr : conv sg {} r = some (sc1, rule))
    (hground : ∀ x t, (x, t) ∈ σ → t.ground = true) (hδ : convertSubst sg sc1 σ [] = some (sc1', δ)) :
    stepOK (rule, δ) = true :=
  (convertSubst_ok sg σ sc1 sc1' [] δ hground ⟨by simp, by simp⟩ hδ).stepOK (KMod.conv_PF sg _ _ r rule hr)

/-- the functional assumption of a closed value passes every check of the machine: its constrained metavariable
(`phi0` with `x0` fresh) receives a plug in which `x0` is fresh -/
theorem functional_assumption_ok (v f : NPat) (hv : v.PF = true) (hfr : v.expand.eFresh 0 = true)
    (hf : functionalOf v = some f) : f.MOK = true := by
  rw [functionalOf_eq] at hf
  cases hf
  exact functional_MOK v hv hfr

/-- the excluded point of "`x0` fresh in every value": a value with a (Kore) variable — the conversion of a non-ground
term, here the metavariable `phi5` — is not `x0`-fresh; its functional assumption is refused by the machine
(`Instantiate` checks the constraint of `phi0`), which the tracker does not notice.  Substitutions of execution traces
are ground, so this point is not reached from real inputs. -/
theorem nonground_value_refused :
    (NPat.mv 5 [] [] [] [] []).expand.eFresh 0 = false ∧
    (NPat.inst fnDef [(0, .mv 5 [] [] [] [] [])]).MOK = false := by decide +kernel

/-- **3. side conditions.** every call of `execute_full` on the module of a trace of the fragment satisfies the
checker's side conditions -/
theorem k_module_side (sg : Sig) (n0 n : Nat) (init : NPat) (steps : List (NPat × List (Nat × NPat)))
    (st : ExecSt) (s : PySt) (calls : List Call)
    (htrace : traceF sg n0 (initSt init) steps = some (some st)) (hfrag : KSteps steps = true)
    (hex : PModule.executeFull {} n st.module = some (some (s, calls))) :
    AllSideK n (PySt.init st.claims) calls :=
  (k_module_core sg n0 n init steps st kImports s calls htrace hfrag kImports_gax hex _ (agree_idxOf _)).2.1

/-- **4. acceptance.** the run of `execute_full` replays to three instruction lists; every claim is discharged; the
machine accepts and publishes the declaration, symbols named by their position in the serializer's table -/
theorem k_module_accepted (sg : Sig) (n0 n : Nat) (init : NPat) (steps : List (NPat × List (Nat × NPat)))
    (st : ExecSt) (s : PySt) (calls : List Call)
    (htrace : traceF sg n0 (initSt init) steps = some (some st)) (hfrag : KSteps steps = true)
    (hex : PModule.executeFull {} n st.module = some (some (s, calls))) :
    s.claims = [] ∧
    ∃ g c p, PySt.trackAll n (PySt.init st.claims) calls ([], [], []) = some (some (s, (g, c, p))) ∧
      verify g c p = some (st.module.gammaAxioms.map (fun a => Pat.ren (fun nm => s.symtab.idxOf nm) a.expand),
        st.claims.reverse.map (fun a => Pat.ren (fun nm => s.symtab.idxOf nm) a.expand)) := by
  obtain ⟨h1, _, h3⟩ :=
    k_module_core sg n0 n init steps st kImports s calls htrace hfrag kImports_gax hex _ (agree_idxOf _)
  exact ⟨h1, h3⟩

/-- the same for any imported modules whose axioms are machine-OK and truthfully compared (`KMod.GAx`), and any naming
that agrees with the final symbol table -/
theorem k_module_accepted_general (sg : Sig) (n0 n : Nat) (init : NPat) (steps : List (NPat × List (Nat × NPat)))
    (st : ExecSt) (subs : List PModule) (s : PySt) (calls : List Call)
    (htrace : traceF sg n0 (initSt init) steps = some (some st)) (hfrag : KSteps steps = true)
    (hsubs : ∀ a ∈ PModule.gammaAxioms.gammaList subs, GAx a)
    (hex : PModule.executeFull {} n (st.module subs) = some (some (s, calls)))
    (ρ : Nat → Nat) (hag : Agree ρ s.symtab) :
    s.claims = [] ∧ AllSideK n (PySt.init st.claims) calls ∧
    ∃ g c p, PySt.trackAll n (PySt.init st.claims) calls ([], [], []) = some (some (s, (g, c, p))) ∧
      verify g c p = some ((st.module subs).gammaAxioms.map (fun a => Pat.ren ρ a.expand),
        st.claims.reverse.map (fun a => Pat.ren ρ a.expand)) :=
  k_module_core sg n0 n init steps st subs s calls htrace hfrag hsubs hex ρ hag

/-- **4 (bytes).** the bytes the translated serializer methods write along the run are the encodings of the three
instruction lists; the model `verifyBytes` accepts them and publishes the declaration; `verify` of `rust/src/lib.rs` as
translated accepts them from every initial content of its registers -/
theorem k_module_bytes_accepted (sg : Sig) (n0 n : Nat) (init : NPat) (steps : List (NPat × List (Nat × NPat)))
    (st : ExecSt) (s : PySt) (calls : List Call)
    (htrace : traceF sg n0 (initSt init) steps = some (some st)) (hfrag : KSteps steps = true)
    (hex : PModule.executeFull {} n st.module = some (some (s, calls))) :
    ∃ g c p, PySt.trackAll n (PySt.init st.claims) calls ([], [], []) = some (some (s, (g, c, p))) ∧
      writeAll n (PySt.init st.claims) calls ([], [], []) = some (some (s, (encode g, encode c, encode p))) ∧
      verifyBytes (encode g) (encode c) (encode p)
        = some (st.module.gammaAxioms.map (fun a => Pat.ren (fun nm => s.symtab.idxOf nm) a.expand),
            st.claims.reverse.map (fun a => Pat.ren (fun nm => s.symtab.idxOf nm) a.expand)) ∧
      Gen.Rust.execTranslated = true ∧
      ∀ r0 : RustExec.RSt, (Gen.Rust.verify (encode g) (encode c) (encode p) r0).isSome = true := by
  obtain ⟨_, g, c, p, hT, hv⟩ := k_module_accepted sg n0 n init steps st s calls htrace hfrag hex
  refine ⟨g, c, p, hT, writeAll_of_trackAll_init n calls _ s g c p hT, ?_,
    (C05.rust_verify_is_the_model [] [] [] default).1, fun r0 => rust_accepts_encode g c p _ hv r0⟩
  rw [verifyBytes_encode, hv]

/-- **4 (bytes proper).** if moreover the three streams are wire byte strings (`Wire`: every number written — ids,
key lists and their lengths, memory indices, symbol positions — fits in a byte; decidable), they are the images of
three `List UInt8`, accepted by both checkers -/
theorem k_module_u8_accepted (sg : Sig) (n0 n : Nat) (init : NPat) (steps : List (NPat × List (Nat × NPat)))
    (st : ExecSt) (s : PySt) (calls : List Call)
    (htrace : traceF sg n0 (initSt init) steps = some (some st)) (hfrag : KSteps steps = true)
    (hex : PModule.executeFull {} n st.module = some (some (s, calls)))
    (hw : wireCheck n st.claims calls = true) :
    ∃ gb cb pb : List UInt8,
      writeAll n (PySt.init st.claims) calls ([], [], [])
        = some (some (s, (gb.map UInt8.toNat, cb.map UInt8.toNat, pb.map UInt8.toNat))) ∧
      verifyBytes (gb.map UInt8.toNat) (cb.map UInt8.toNat) (pb.map UInt8.toNat)
        = some (st.module.gammaAxioms.map (fun a => Pat.ren (fun nm => s.symtab.idxOf nm) a.expand),
            st.claims.reverse.map (fun a => Pat.ren (fun nm => s.symtab.idxOf nm) a.expand)) ∧
      ∀ r0 : RustExec.RSt,
        (Gen.Rust.verify (gb.map UInt8.toNat) (cb.map UInt8.toNat) (pb.map UInt8.toNat) r0).isSome = true := by
  obtain ⟨g, c, p, hT, hW, hvb, _, hr⟩ := k_module_bytes_accepted sg n0 n init steps st s calls htrace hfrag hex
  obtain ⟨w1, w2, w3⟩ := wireCheck_sound hw hT
  obtain ⟨gb, hg⟩ := wire_is_u8 _ w1
  obtain ⟨cb, hc⟩ := wire_is_u8 _ w2
  obtain ⟨pb, hp⟩ := wire_is_u8 _ w3
  refine ⟨gb, cb, pb, ?_, ?_, ?_⟩
  · rw [hg, hc, hp]; exact hW
  · rw [hg, hc, hp]; exact hvb
  · rw [hg, hc, hp]; exact hr

/-- **soundness composition** (through the checker as written, `C01.rust_verify_text_sound`): every claim of the module
of a trace of the fragment whose `execute_full` run returns holds in every model of its axioms — the imported ones
(`func_subst_axiom`, `ceil(x0)`), the rules, and the functional assumptions -/
theorem k_module_sound (sg : Sig) (n0 n : Nat) (init : NPat) (steps : List (NPat × List (Nat × NPat)))
    (st : ExecSt) (s : PySt) (calls : List Call)
    (htrace : traceF sg n0 (initSt init) steps = some (some st)) (hfrag : KSteps steps = true)
    (hex : PModule.executeFull {} n st.module = some (some (s, calls)))
    (𝔐 : Model) (hΓ : ∀ a ∈ st.module.gammaAxioms, ValidM 𝔐 a.expand) :
    ∀ q ∈ st.claims, ValidM 𝔐 q.expand := by
  obtain ⟨_, _, g, c, p, _, hv⟩ := k_module_core sg n0 n init steps st kImports s calls htrace hfrag
    kImports_gax hex (rhoInj s.symtab) (rhoInj_agree _)
  have hr := rust_accepts_encode g c p _ hv default
  obtain ⟨_, axs, cls, hvb, hsound⟩ := C01.rust_verify_text_sound _ _ _ default hr
  rw [verifyBytes_encode, hv] at hvb
  simp only [Option.some.injEq, Prod.mk.injEq] at hvb
  obtain ⟨rfl, rfl⟩ := hvb
  intro q hq
  rw [← validM_rhoInj 𝔐 s.symtab]
  apply hsound ⟨𝔐.M, fun t => 𝔐.sym (rhoInv s.symtab t), 𝔐.app⟩
  · intro a ha
    simp only [List.mem_map] at ha
    obtain ⟨a0, h0, rfl⟩ := ha
    exact (validM_rhoInj 𝔐 s.symtab _).mpr (hΓ a0 h0)
  · simp only [List.mem_map, List.mem_reverse]
    exact ⟨q, hq, rfl⟩

end C20

/-! ## 5. non-vacuity: a concrete signature, rules, ground substitution and two-step trace -/
namespace C20.Example
open Kore KMod PySt EndToEnd

/-- one sort; a cell `k(_)` and three functional constants `a`, `b`, `c` -/
def sg : Sig := { sorts := [0], symbols := [
  { name := 0, nSortParams := 0, nInputs := 1, isCell := true },
  { name := 1, nSortParams := 0, nInputs := 0, isFunctional := true },
  { name := 2, nSortParams := 0, nInputs := 0, isFunctional := true },
  { name := 3, nSortParams := 0, nInputs := 0, isFunctional := true }] }

def S : KSort := .app 0
def cell (t : KTerm) : KTerm := .app 0 [] [t]
def a : KTerm := .app 1 [] []
def b : KTerm := .app 2 [] []
def c : KTerm := .app 3 [] []

/-- `k(X) => k(b)` and `k(b) => k(c)` -/
def rule1K : KTerm := .rewrites S (cell (.evar 7)) (cell b)
def rule2K : KTerm := .rewrites S (cell b) (cell c)

def conv1 : Option (Scope × NPat) := conv sg {} rule1K
def rule1 : NPat := (conv1.map (·.2)).getD (.sym 0)
def sc1 : Scope := (conv1.map (·.1)).getD {}
def rule2 : NPat := (convertPattern sg rule2K).getD (.sym 0)
def sub1 : Option (Scope × List (Nat × NPat)) := convertSubst sg sc1 [(7, a)] []
/-- the converted substitution `X ↦ a` of the first step -/
def σ1 : List (Nat × NPat) := (sub1.map (·.2)).getD []
/-- the initial configuration `k(a)` -/
def init : NPat := (convertPattern sg (cell a)).getD (.sym 0)
/-- `k(a) =[rule1, X ↦ a]=> k(b) =[rule2]=> k(c)` -/
def steps : List (NPat × List (Nat × NPat)) := [(rule1, σ1), (rule2, [])]

def check : Bool :=
  match traceF sg 100 (initSt init) steps with
  | some (some st) =>
      KSteps steps && decide (st.axioms.length = 3) &&
      (match PModule.executeFull {} 100 st.module with
       | some (some r) => wireCheck 100 st.claims r.2
       | _ => false)
  | _ => false

set_option maxRecDepth 100000 in
theorem check_true : check = true := by decide +kernel

/-- **all hypotheses of the theorems hold**: the trace is accepted by `from_proof_hints` (the first step adds the
functional assumption `functional(a)`: three axioms), its steps are in the fragment, and `execute_full` returns -/
theorem hypotheses_hold : ∃ st s calls, traceF sg 100 (initSt init) steps = some (some st) ∧
    KSteps steps = true ∧ st.axioms.length = 3 ∧
    PModule.executeFull {} 100 st.module = some (some (s, calls)) ∧ wireCheck 100 st.claims calls = true := by
  have h := check_true
  unfold check at h
  split at h
  · next st hst =>
    simp only [Bool.and_eq_true, decide_eq_true_eq] at h
    obtain ⟨⟨hk, hl⟩, h⟩ := h
    split at h
    · next r hr => exact ⟨st, r.1, r.2, hst, hk, hl, hr, h⟩
    · cases h
  · cases h

set_option maxRecDepth 100000 in
/-- the steps are in the fragment also by the conversion theorems: the rules are conversions, the substitution is the
conversion of a ground substitution -/
theorem steps_by_conversion : stepOK (rule1, σ1) = true := by
  have h1 : conv1.isSome = true := by decide +kernel
  have h2 : sub1.isSome = true := by decide +kernel
  obtain ⟨⟨sc, p⟩, hp⟩ := Option.isSome_iff_exists.mp h1
  obtain ⟨⟨sc', δ⟩, hδ⟩ := Option.isSome_iff_exists.mp h2
  have e1 : rule1 = p := by simp [rule1, hp]
  have e2 : sc1 = sc := by simp [sc1, hp]
  have e3 : σ1 = δ := by simp [σ1, hδ]
  rw [e1, e3]
  refine converted_step_in_fragment sg rule1K [(7, a)] sc sc' p δ hp ?_ (by rw [← e2]; exact hδ)
  intro x t hxt
  simp only [List.mem_singleton, Prod.mk.injEq] at hxt
  obtain ⟨_, rfl⟩ := hxt
  rfl

/-- hence the checker (model and `lib.rs` as translated) accepts the bytes of this module … -/
theorem accepted : ∃ (st : ExecSt) (s : PySt) (g c p : List Instr),
    verifyBytes (encode g) (encode c) (encode p)
      = some (st.module.gammaAxioms.map (fun a => Pat.ren (fun nm => s.symtab.idxOf nm) a.expand),
          st.claims.reverse.map (fun a => Pat.ren (fun nm => s.symtab.idxOf nm) a.expand)) ∧
    st.module.gammaAxioms.length = 5 ∧
    ∀ r0 : RustExec.RSt, (Gen.Rust.verify (encode g) (encode c) (encode p) r0).isSome = true := by
  obtain ⟨st, s, calls, ht, hk, hl, hex, _⟩ := hypotheses_hold
  obtain ⟨g, c, p, _, _, hv, _, hr⟩ := k_module_bytes_accepted sg 100 100 init steps st s calls ht hk hex
  refine ⟨st, s, g, c, p, hv, ?_, hr⟩
  rw [module_gamma, kImports_gamma]
  simp [hl]

/-- … as byte strings proper … -/
theorem accepted_u8 : ∃ gb cb pb : List UInt8, ∀ r0 : RustExec.RSt,
    (Gen.Rust.verify (gb.map UInt8.toNat) (cb.map UInt8.toNat) (pb.map UInt8.toNat) r0).isSome = true := by
  obtain ⟨st, s, calls, ht, hk, hl, hex, hw⟩ := hypotheses_hold
  obtain ⟨gb, cb, pb, _, _, hr⟩ := k_module_u8_accepted sg 100 100 init steps st s calls ht hk hex hw
  exact ⟨gb, cb, pb, hr⟩

theorem canonB_complete : ∀ (cs : List Call) (tab : List Nat), MM.CanonCalls tab cs →
    PFExample.canonB tab cs = true := by
  intro cs
  induction cs with
  | nil => intro tab _; rfl
  | cons c cs ih =>
    intro tab h
    cases c with
    | symbol nm =>
      simp only [PFExample.canonB, Bool.and_eq_true, decide_eq_true_eq]
      exact ⟨h.1, ih _ h.2⟩
    | _ => exact ih tab h

def checkNotCanon : Bool :=
  match traceF sg 100 (initSt init) steps with
  | some (some st) =>
      (match PModule.executeFull {} 100 st.module with
       | some (some r) => !(PFExample.canonB [] r.2)
       | _ => false)
  | _ => false

set_option maxRecDepth 100000 in
theorem checkNotCanon_true : checkNotCanon = true := by decide +kernel

/-- why the journal is stated up to the naming `ρ`: the symbols of a K module (`⌈_⌉ ↦ 1000`, `ksym_<n> ↦ 2001+2n`, …) are
not named by their position in the serializer's table, so the hypothesis `CanonCalls` under which C02 identifies the
journal with the declaration itself FAILS for the run of this module (as for every K module) -/
theorem not_canonical : ∃ st s calls, traceF sg 100 (initSt init) steps = some (some st) ∧
    PModule.executeFull {} 100 st.module = some (some (s, calls)) ∧ ¬ MM.CanonCalls [] calls := by
  have h := checkNotCanon_true
  unfold checkNotCanon at h
  split at h
  · next st hst =>
    split at h
    · next r hr =>
      refine ⟨st, r.1, r.2, hst, hr, fun hc => ?_⟩
      rw [canonB_complete _ _ hc] at h
      cases h
    · cases h
  · cases h

/-- … and its claims hold in every model of its five axioms -/
theorem sound : ∃ st : ExecSt, st.claims.length = 2 ∧
    ∀ 𝔐 : Model, (∀ a ∈ st.module.gammaAxioms, ValidM 𝔐 a.expand) → ∀ q ∈ st.claims, ValidM 𝔐 q.expand := by
  obtain ⟨st, s, calls, ht, hk, hl, hex, _⟩ := hypotheses_hold
  refine ⟨st, ?_, fun 𝔐 hΓ => k_module_sound sg 100 100 init steps st s calls ht hk hex 𝔐 hΓ⟩
  obtain ⟨insts, hc, hlen, _⟩ := C20.chain_claims sg 100 steps _ st ht
  rw [hc]; simp [initSt, hlen, steps]

end C20.Example

#print axioms C20.conv_in_fragment
#print axioms C20.conv_ground_closed
#print axioms C20.converted_step_in_fragment
#print axioms C20.functional_assumption_ok
#print axioms C20.nonground_value_refused
#print axioms C20.k_module_side
#print axioms C20.k_module_accepted
#print axioms C20.k_module_accepted_general
#print axioms C20.k_module_bytes_accepted
#print axioms C20.k_module_u8_accepted
#print axioms C20.k_module_sound
#print axioms C20.Example.hypotheses_hold
#print axioms C20.Example.steps_by_conversion
#print axioms C20.Example.accepted
#print axioms C20.Example.accepted_u8
#print axioms C20.Example.not_canonical
#print axioms C20.Example.sound
