import Pi2.ModulePF
import Pi2.Props.C02
/-!
# C02 (continued) — the propositional fragment: no side condition assumed

`NPat.PF`: symbols, unconstrained metavariables, implication, application, ⊥ (`mu 0 (svar 0)`), notation nodes over
such patterns with distinct keys; `Pf.PF`: prop1–3, modus ponens, instantiation by such patterns (distinct keys),
loaded axioms.  This is where `propositional.py`, `tautology.py` and the Metamath translations live.  For these
modules the checker's side conditions are DERIVED (`module_side_PF`), not assumed as in
`C02.generated_module_accepted_partial`.
-/
namespace C02

/-- every module of the propositional fragment whose `execute_full` run succeeds (plain or memoising) is accepted by
the checker, and the publish journal is the declaration -/
theorem propositional_module_accepted (cfg : PySt.Cfg) (n : Nat) (m : PModule) (s : PySt) (calls : List Call)
    (hgam : ∀ a ∈ m.gammaAxioms, a.PF = true) (hclm : ∀ a ∈ m.claimsOf, a.PF = true)
    (hpfs : ∀ pf ∈ m.proofsOf, pf.PF = true)
    (hex : PModule.executeFull cfg n m = some (some (s, calls)))
    (hcanon : MM.CanonCalls [] calls) (hfin : s.claims = []) :
    ∃ g c p, PySt.trackAll n (PySt.init m.claimsOf) calls ([], [], []) = some (some (s, (g, c, p))) ∧
      verify g c p = some (m.gammaAxioms.map NPat.expand, m.claimsOf.reverse.map NPat.expand) :=
  module_accepted_PF' cfg n m s calls hgam hclm hpfs hex hcanon hfin

/-- … and (with C01) every claim is valid in every model of the axioms -/
theorem propositional_module_sound (cfg : PySt.Cfg) (n : Nat) (m : PModule) (s : PySt) (calls : List Call)
    (hgam : ∀ a ∈ m.gammaAxioms, a.PF = true) (hclm : ∀ a ∈ m.claimsOf, a.PF = true)
    (hpfs : ∀ pf ∈ m.proofsOf, pf.PF = true)
    (hex : PModule.executeFull cfg n m = some (some (s, calls)))
    (hcanon : MM.CanonCalls [] calls) (hfin : s.claims = [])
    (𝔐 : Model) (hΓ : ∀ a ∈ m.gammaAxioms, ValidM 𝔐 a.expand) :
    ∀ q ∈ m.claimsOf, ValidM 𝔐 q.expand :=
  module_sound_PF cfg n m s calls hgam hclm hpfs hex hcanon hfin 𝔐 hΓ

end C02
