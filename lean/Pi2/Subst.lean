import Pi2.Pattern
/-!
# L2/L3 — substitution and instantiation of the checker (`lib.rs:453-676`)

Rejection (a Rust panic) is `none`.  The two capture checks marked (F1) are the ones the
pinned tree lacked and the `fix:` commit adds; `applyESubstPinned/applySSubstPinned` below are
the functions as they were, kept for the unsoundness witness in `Pi2.Props.C01`.
-/
open Pat
namespace Pat

/-- `apply_esubst` (lib.rs:453-488) -/
def applyESubst (x : VId) (plug : Pat) : Pat → Option Pat
  | evar y => if y = x then some plug else some (evar y)
  | imp l r => do let l' ← applyESubst x plug l; let r' ← applyESubst x plug r; pure (imp l' r')
  | app l r => do let l' ← applyESubst x plug l; let r' ← applyESubst x plug r; pure (app l' r')
  | ex y p => if y = x then some (ex y p) else
      if plug.eFresh y then do let p' ← applyESubst x plug p; pure (ex y p') else none
  | mu Y p => if plug.sFresh Y then do let p' ← applyESubst x plug p; pure (mu Y p') else none   -- (F1)
  | mv id ef sf ps ns holes =>          -- (F12) declared fresh: the substitution is the identity
      if ef.contains x then some (mv id ef sf ps ns holes) else some (esub (mv id ef sf ps ns holes) x plug)
  | esub p y q => some (esub (esub p y q) x plug)
  | ssub p Y q => some (esub (ssub p Y q) x plug)
  | svar X => some (svar X)
  | sym s => some (sym s)

/-- `apply_ssubst` (lib.rs:490-527) -/
def applySSubst (X : VId) (plug : Pat) : Pat → Option Pat
  | svar Y => if Y = X then some plug else some (svar Y)
  | imp l r => do let l' ← applySSubst X plug l; let r' ← applySSubst X plug r; pure (imp l' r')
  | app l r => do let l' ← applySSubst X plug l; let r' ← applySSubst X plug r; pure (app l' r')
  | ex y p => if plug.eFresh y then do let p' ← applySSubst X plug p; pure (ex y p') else none   -- (F1)
  | mu Y p => if Y = X then some (mu Y p) else
      if plug.sFresh Y then do let p' ← applySSubst X plug p; pure (mu Y p') else none
  | mv id ef sf pos neg holes =>        -- (F12)
      if sf.contains X then some (mv id ef sf pos neg holes) else some (ssub (mv id ef sf pos neg holes) X plug)
  | esub p x q => some (ssub (esub p x q) X plug)
  | ssub p Y q => some (ssub (ssub p Y q) X plug)
  | evar x => some (evar x)
  | sym s => some (sym s)

/-- the functions as on the pinned tree (no check under the *other* binder) -/
def applyESubstPinned (x : VId) (plug : Pat) : Pat → Option Pat
  | evar y => if y = x then some plug else some (evar y)
  | imp l r => do let l' ← applyESubstPinned x plug l; let r' ← applyESubstPinned x plug r; pure (imp l' r')
  | app l r => do let l' ← applyESubstPinned x plug l; let r' ← applyESubstPinned x plug r; pure (app l' r')
  | ex y p => if y = x then some (ex y p) else
      if plug.eFresh y then do let p' ← applyESubstPinned x plug p; pure (ex y p') else none
  | mu Y p => do let p' ← applyESubstPinned x plug p; pure (mu Y p')
  | mv id ef sf ps ns holes => some (esub (mv id ef sf ps ns holes) x plug)
  | esub p y q => some (esub (esub p y q) x plug)
  | ssub p Y q => some (esub (ssub p Y q) x plug)
  | svar X => some (svar X)
  | sym s => some (sym s)

def applySSubstPinned (X : VId) (plug : Pat) : Pat → Option Pat
  | svar Y => if Y = X then some plug else some (svar Y)
  | imp l r => do let l' ← applySSubstPinned X plug l; let r' ← applySSubstPinned X plug r; pure (imp l' r')
  | app l r => do let l' ← applySSubstPinned X plug l; let r' ← applySSubstPinned X plug r; pure (app l' r')
  | ex y p => do let p' ← applySSubstPinned X plug p; pure (ex y p')
  | mu Y p => if Y = X then some (mu Y p) else
      if plug.sFresh Y then do let p' ← applySSubstPinned X plug p; pure (mu Y p') else none
  | mv id ef sf pos neg holes => some (ssub (mv id ef sf pos neg holes) X plug)
  | esub p x q => some (ssub (esub p x q) X plug)
  | ssub p Y q => some (ssub (ssub p Y q) X plug)
  | evar x => some (evar x)
  | sym s => some (sym s)

/-- constraint checks of `instantiate_internal` on the plug for one metavariable occurrence
(lib.rs:547-576) -/
def okPlug (ef sf ps ns : List VId) (q : Pat) : Bool :=
  ef.all (q.eFresh ·) && sf.all (q.sFresh ·) && ps.all (q.pos ·) && ns.all (q.ng ·)

/-- `instantiate_internal` (lib.rs:529-670) with the substitution as a lookup function.
The `Option`-"unchanged" optimisation of the Rust code is not modelled: on patterns whose
`ESubst/SSubst` nodes are meta-headed (the only ones the machine can build, see
`Pi2.Sound.Shape`) re-applying the substitution to unchanged children rebuilds the same node. -/
def inst (θ : VId → Option Pat) : Pat → Option Pat
  | evar x => some (evar x) | svar X => some (svar X) | sym s => some (sym s)
  | mv id ef sf ps ns holes =>
      match θ id with
      | none => some (mv id ef sf ps ns holes)
      | some q => if okPlug ef sf ps ns q then some q else none
  | imp l r => do let l' ← inst θ l; let r' ← inst θ r; pure (imp l' r')
  | app l r => do let l' ← inst θ l; let r' ← inst θ r; pure (app l' r')
  | ex x p => do let p' ← inst θ p; pure (ex x p')
  | mu X p => do let p' ← inst θ p; pure (mu X p')
  | esub p x plug => do let p' ← inst θ p; let q' ← inst θ plug; applyESubst x q' p'
  | ssub p X plug => do let p' ← inst θ p; let q' ← inst θ plug; applySSubst X q' p'

/-- `instantiate_internal` arm by arm, INCLUDING the `Option`-"unchanged" optimisation: outer `none` = a panic, inner
`none` = "unchanged" (Rust `None`).  `instantiate_in_place` is `(instU …).map (·.getD p)`.  On patterns whose substitution
nodes are meta-headed it agrees with `inst` (`Pi2.InstUThm`); on other patterns (which the machine cannot build) the
Rust code returns the node unchanged where `inst` would push the substitution in — the correspondence harness compares
the real checker with this function on ALL patterns. -/
def instU (vars : List VId) (plugs : List Pat) : Pat → Option (Option Pat)
  | evar _ => some none | svar _ => some none | sym _ => some none
  | mv id ef sf ps ns _ =>
      match vars.idxOf? id with
      | none => some none
      | some pos =>
          match plugs[pos]? with
          | none => none                                   -- index out of bounds / "does not contain a corresponding value"
          | some q => if okPlug ef sf ps ns q then some (some q) else none
  | imp l r => do
      let a ← instU vars plugs l
      let b ← instU vars plugs r
      match a, b with
      | none, none => pure none
      | _, _ => pure (some (imp (a.getD l) (b.getD r)))
  | app l r => do
      let a ← instU vars plugs l
      let b ← instU vars plugs r
      match a, b with
      | none, none => pure none
      | _, _ => pure (some (app (a.getD l) (b.getD r)))
  | ex x p => do let a ← instU vars plugs p; pure (a.map (ex x))
  | mu X p => do let a ← instU vars plugs p; pure (a.map (mu X))
  | esub p x plug => do
      let a ← instU vars plugs p
      let b ← instU vars plugs plug
      match a, b with
      | none, none => pure none
      | _, _ => (applyESubst x (b.getD plug) (a.getD p)).map some
  | ssub p X plug => do
      let a ← instU vars plugs p
      let b ← instU vars plugs plug
      match a, b with
      | none, none => pure none
      | _, _ => (applySSubst X (b.getD plug) (a.getD p)).map some

/-- `vars.iter().position(..)` then `plugs[pos]`: first matching id wins -/
def lookupPlug : List VId → List Pat → VId → Option Pat
  | i :: is, p :: ps, k => if i = k then some p else lookupPlug is ps k
  | _, _, _ => none

end Pat
