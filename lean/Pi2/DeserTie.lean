import Pi2.Deserialize
import Pi2.MatchThm
import Pi2.Gen.Deserializer
/-!
# The deserialiser as written in `deserialize.py` is `decode1` + `callOfInstr` + `track1`

`Pi2/Gen/Deserializer.lean` is regenerated from the source on every run (`vlib/transdeser.py`): per
`elif instruction == Instruction.X:` branch, the operand bytes read, the interpreter method called and where each argument
comes from (`PyDeser.Arg`: a stack position, an operand byte, a memory index, the key ↦ plug dictionary).  The hand-written
model is `decode1` (`Pi2/Codec.lean`), `PySt.callOfInstr` / `replay` / `deserialize` (`Pi2/Deserialize.lean`) and the tracker
`track1` (`Pi2/Tracker.lean`), in which a `Call` carries no pattern arguments: `track1` takes them off the modelled stack.

* §1 `track1_*_uses`: per call kind, which stack entries `track1` uses in which role — exactly the argument positions
  `PyDeser.toCall` demands of the Python call (`implies(stack[-2], stack[-1])`, `esubst(id, stack[-1], stack[-2])`, key `j`
  of `instantiate` with the plug at position `plugPositions[j]`, …).
* §2 `tie_*`, `step_tie`: one loop iteration of the generated function = `modelStep` (decode one instruction, dispatch,
  `track1`), for every stream and state.  Two hypotheses, both necessary:
  - `NodupKeys1`: the key bytes of an `Instantiate` are pairwise different.  With a repeated key Python's `dict(..)` merges the
    entries and the tracker takes fewer plugs than the model: `model_differs_on_duplicate_keys` (a finding).
  - `PrecheckAgrees`: in the proof phase the deserialiser's own test before `publish_proof`
    (`claims[0].pattern != theorem.conclusion`, absent from `callOfInstr`) answers as the tracker's test in `publish_proof`
    does (the same `==` with the operands exchanged; the fuelled model of `==` is not symmetric in its fuel).
* §3 `run_eq_replay`, `deserialize_tie`: the generated loop = `PySt.deserialize` on decodable streams;
  `deserialize_undecodable`: on an undecodable stream the model answers "exception", the loop an exception or out of fuel
  (it only meets the undecodable tail after having made the calls of the head).
-/
set_option linter.unusedSimpArgs false
set_option linter.unusedVariables false
open PySt PyDeser

namespace DeserTie

theorem translated : Gen.Deser.translated = true := by decide

theorem opc_values :
    Gen.Deser.opc "EVar" = 2 ∧ Gen.Deser.opc "SVar" = 3 ∧ Gen.Deser.opc "Symbol" = 4 ∧ Gen.Deser.opc "Implies" = 5 ∧
    Gen.Deser.opc "App" = 6 ∧ Gen.Deser.opc "Mu" = 7 ∧ Gen.Deser.opc "Exists" = 8 ∧ Gen.Deser.opc "MetaVar" = 9 ∧
    Gen.Deser.opc "ESubst" = 10 ∧ Gen.Deser.opc "SSubst" = 11 ∧ Gen.Deser.opc "Prop1" = 12 ∧ Gen.Deser.opc "Prop2" = 13 ∧
    Gen.Deser.opc "Prop3" = 14 ∧ Gen.Deser.opc "Quantifier" = 15 ∧ Gen.Deser.opc "ModusPonens" = 21 ∧
    Gen.Deser.opc "Generalization" = 22 ∧ Gen.Deser.opc "Instantiate" = 26 ∧ Gen.Deser.opc "Pop" = 27 ∧
    Gen.Deser.opc "Save" = 28 ∧ Gen.Deser.opc "Load" = 29 ∧ Gen.Deser.opc "Publish" = 30 ∧ Gen.Deser.opc "CleanMetaVar" = 137 := by
  decide

/-- the generated if/elif chain (in the order of the source), with the opcode numbers of `instruction.py` filled in -/
theorem step_eq (n : Nat) (s : PySt) (b : Nat) (bs : List Nat) :
    Gen.Deser.step n s b bs =
      if b = 2 then Gen.Deser.br_EVar n s bs else
      if b = 3 then Gen.Deser.br_SVar n s bs else
      if b = 4 then Gen.Deser.br_Symbol n s bs else
      if b = 5 then Gen.Deser.br_Implies n s bs else
      if b = 6 then Gen.Deser.br_App n s bs else
      if b = 8 then Gen.Deser.br_Exists n s bs else
      if b = 7 then Gen.Deser.br_Mu n s bs else
      if b = 10 then Gen.Deser.br_ESubst n s bs else
      if b = 11 then Gen.Deser.br_SSubst n s bs else
      if b = 9 then Gen.Deser.br_MetaVar n s bs else
      if b = 137 then Gen.Deser.br_CleanMetaVar n s bs else
      if b = 12 then Gen.Deser.br_Prop1 n s bs else
      if b = 13 then Gen.Deser.br_Prop2 n s bs else
      if b = 14 then Gen.Deser.br_Prop3 n s bs else
      if b = 21 then Gen.Deser.br_ModusPonens n s bs else
      if b = 15 then Gen.Deser.br_Quantifier n s bs else
      if b = 22 then Gen.Deser.br_Generalization n s bs else
      if b = 26 then Gen.Deser.br_Instantiate n s bs else
      if b = 27 then Gen.Deser.br_Pop n s bs else
      if b = 28 then Gen.Deser.br_Save n s bs else
      if b = 29 then Gen.Deser.br_Load n s bs else
      if b = 30 then Gen.Deser.br_Publish n s bs else
      Res.raise := by
  obtain ⟨h2, h3, h4, h5, h6, h7, h8, h9, h10, h11, h12, h13, h14, h15, h21, h22, h26, h27, h28, h29, h30, h137⟩ := opc_values
  simp only [Gen.Deser.step, Gen.Deser.br_else, h2, h3, h4, h5, h6, h7, h8, h9, h10, h11, h12, h13, h14, h15, h21, h22, h26, h27,
    h28, h29, h30, h137, beq_iff_eq]

/-! ## the reader closures are the codec's readers -/

theorem nextBytes_eq (n : Nat) (bs : List Nat) (k : List Nat → List Nat → Res) :
    nextBytes n bs k = match takeN n bs with | none => Res.raise | some (l, r) => k l r := by
  induction n generalizing bs k with
  | zero => simp [nextBytes, takeN]
  | succ n ih =>
    cases bs with
    | nil => simp [nextBytes, nextByte, takeN]
    | cons b bs =>
      simp only [nextBytes, nextByte, takeN, ih]
      cases h : takeN n bs with
      | none => simp
      | some p => obtain ⟨l, r⟩ := p; simp

theorem readList_eq (bs : List Nat) (k : List Nat → List Nat → Res) :
    readList bs k = match readVec bs with | none => Res.raise | some (l, r) => k l r := by
  cases bs with
  | nil => simp [readList, nextByte, readVec]
  | cons m bs => simp [readList, nextByte, readVec, nextBytes_eq]

/-- Python's `dict(pairs)` is `pairs` when the keys are pairwise different -/
theorem pyDict_foldl (l d : List (Nat × Nat)) (hl : (l.map (·.1)).Nodup) (hd : ∀ p ∈ l, ∀ q ∈ d, q.1 ≠ p.1) :
    l.foldl (fun d p => pyDictInsert d p.1 p.2) d = d ++ l := by
  induction l generalizing d with
  | nil => simp
  | cons p l ih =>
    rw [List.map_cons, List.nodup_cons] at hl
    obtain ⟨hp, hl'⟩ := hl
    have hany : d.any (·.1 == p.1) = false := by
      rw [List.any_eq_false]
      intro q hq
      simpa using hd p (by simp) q hq
    have hins : pyDictInsert d p.1 p.2 = d ++ [(p.1, p.2)] := by simp [pyDictInsert, hany]
    rw [List.foldl_cons, hins, ih (d ++ [(p.1, p.2)]) hl']
    · simp
    · intro p' hp' q hq
      rcases List.mem_append.mp hq with hq | hq
      · exact hd p' (List.mem_cons_of_mem _ hp') q hq
      · simp only [List.mem_singleton] at hq
        subst hq
        intro heq
        exact hp (List.mem_map.mpr ⟨p', hp', heq.symm⟩)

theorem pyDict_nodup (l : List (Nat × Nat)) (hl : (l.map (·.1)).Nodup) : pyDict l = l := by
  simpa [pyDict] using pyDict_foldl l [] hl (by simp)

/-! ## 1. which stack entries `track1` uses: the argument positions `toCall` demands -/

/-- `implies(left, right)`: `toCall` demands `[stackTop 1, stackTop 0]`; `track1` builds `left → right` from exactly these -/
theorem track1_implies_uses (n : Nat) (s s' : PySt) (h : track1 n s .implies = some (some s')) :
    toCall s ⟨"implies", [.stackTop 1, .stackTop 0]⟩ = some .implies ∧
    ∃ l r, Arg.term s (.stackTop 1) = some (.pat l) ∧ Arg.term s (.stackTop 0) = some (.pat r) ∧
      s'.stack = (.pat (.imp l r), false) :: s.stack.drop 2 := by
  refine ⟨rfl, ?_⟩
  simp only [track1] at h
  split at h
  · next r b1 l b2 st hs =>
    simp only [Option.some.injEq] at h; subst h
    exact ⟨l, r, by simp [Arg.term, hs], by simp [Arg.term, hs], by simp [hs]⟩
  · simp at h

/-- `app(left, right)`: `[stackTop 1, stackTop 0]` -/
theorem track1_app_uses (n : Nat) (s s' : PySt) (h : track1 n s .app = some (some s')) :
    toCall s ⟨"app", [.stackTop 1, .stackTop 0]⟩ = some .app ∧
    ∃ l r, Arg.term s (.stackTop 1) = some (.pat l) ∧ Arg.term s (.stackTop 0) = some (.pat r) ∧
      s'.stack = (.pat (.app l r), false) :: s.stack.drop 2 := by
  refine ⟨rfl, ?_⟩
  simp only [track1] at h
  split at h
  · next r b1 l b2 st hs =>
    simp only [Option.some.injEq] at h; subst h
    exact ⟨l, r, by simp [Arg.term, hs], by simp [Arg.term, hs], by simp [hs]⟩
  · simp at h

/-- `exists(id, subpattern)`: `[byte id, stackTop 0]` -/
theorem track1_ex_uses (n : Nat) (s s' : PySt) (x : Nat) (h : track1 n s (.ex x) = some (some s')) :
    toCall s ⟨"exists", [.byte x, .stackTop 0]⟩ = some (.ex x) ∧
    ∃ p, Arg.term s (.stackTop 0) = some (.pat p) ∧ s'.stack = (.pat (.ex x p), false) :: s.stack.drop 1 := by
  refine ⟨rfl, ?_⟩
  simp only [track1] at h
  split at h
  · next p b1 st hs =>
    simp only [Option.some.injEq] at h; subst h
    exact ⟨p, by simp [Arg.term, hs], by simp [hs]⟩
  · simp at h

/-- `mu(id, subpattern)`: `[byte id, stackTop 0]` -/
theorem track1_mu_uses (n : Nat) (s s' : PySt) (x : Nat) (h : track1 n s (.mu x) = some (some s')) :
    toCall s ⟨"mu", [.byte x, .stackTop 0]⟩ = some (.mu x) ∧
    ∃ p, Arg.term s (.stackTop 0) = some (.pat p) ∧ s'.stack = (.pat (.mu x p), false) :: s.stack.drop 1 := by
  refine ⟨rfl, ?_⟩
  simp only [track1] at h
  split at h
  · next p b1 st hs =>
    simp only [Option.some.injEq] at h; subst h
    exact ⟨p, by simp [Arg.term, hs], by simp [hs]⟩
  · simp at h

/-- `esubst(evar_id, pattern, plug)`: `[byte id, stackTop 0, stackTop 1]` — the pattern is the top, the plug below it -/
theorem track1_esubst_uses (n : Nat) (s s' : PySt) (x : Nat) (h : track1 n s (.esubst x) = some (some s')) :
    toCall s ⟨"esubst", [.byte x, .stackTop 0, .stackTop 1]⟩ = some (.esubst x) ∧
    ∃ p plug, Arg.term s (.stackTop 0) = some (.pat p) ∧ Arg.term s (.stackTop 1) = some (.pat plug) ∧
      s'.stack = (.pat (.esub p x plug), false) :: s.stack.drop 2 := by
  refine ⟨rfl, ?_⟩
  simp only [track1] at h
  split at h
  · next p b1 plug b2 st hs =>
    split at h
    · simp only [Option.some.injEq] at h; subst h
      exact ⟨p, plug, by simp [Arg.term, hs], by simp [Arg.term, hs], by simp [hs]⟩
    · simp at h
  · simp at h

/-- `ssubst(svar_id, pattern, plug)`: `[byte id, stackTop 0, stackTop 1]` -/
theorem track1_ssubst_uses (n : Nat) (s s' : PySt) (x : Nat) (h : track1 n s (.ssubst x) = some (some s')) :
    toCall s ⟨"ssubst", [.byte x, .stackTop 0, .stackTop 1]⟩ = some (.ssubst x) ∧
    ∃ p plug, Arg.term s (.stackTop 0) = some (.pat p) ∧ Arg.term s (.stackTop 1) = some (.pat plug) ∧
      s'.stack = (.pat (.ssub p x plug), false) :: s.stack.drop 2 := by
  refine ⟨rfl, ?_⟩
  simp only [track1] at h
  split at h
  · next p b1 plug b2 st hs =>
    split at h
    · simp only [Option.some.injEq] at h; subst h
      exact ⟨p, plug, by simp [Arg.term, hs], by simp [Arg.term, hs], by simp [hs]⟩
    · simp at h
  · simp at h

/-- `modus_ponens(left, right)`: `[stackTop 1, stackTop 0]`; the conclusion is `pyMP left right` -/
theorem track1_mp_uses (n : Nat) (s s' : PySt) (h : track1 n s .mp = some (some s')) :
    toCall s ⟨"modus_ponens", [.stackTop 1, .stackTop 0]⟩ = some .mp ∧
    ∃ l r c, Arg.term s (.stackTop 1) = some (.proved l) ∧ Arg.term s (.stackTop 0) = some (.proved r) ∧
      NPat.pyMP n l r = some (some c) ∧ s'.stack = (.proved c, false) :: s.stack.drop 2 := by
  refine ⟨rfl, ?_⟩
  simp only [track1] at h
  split at h
  · next r b1 l b2 st hs =>
    simp only [Option.bind_eq_bind, Option.bind_eq_some_iff] at h
    obtain ⟨oc, hmp, h⟩ := h
    cases oc with
    | none => simp at h
    | some c =>
      simp only [Option.pure_def, Option.some.injEq] at h; subst h
      exact ⟨l, r, c, by simp [Arg.term, hs], by simp [Arg.term, hs], hmp, by simp [hs]⟩
  · simp at h

/-- `exists_generalization(proved, EVar(id))`: `[stackTop 0, EVar(byte id)]` -/
theorem track1_gen_uses (n : Nat) (s s' : PySt) (x : Nat) (h : track1 n s (.gen x) = some (some s')) :
    toCall s ⟨"exists_generalization", [.stackTop 0, .mkVar "EVar" (.byte x)]⟩ = some (.gen x) ∧
    ∃ a c, Arg.term s (.stackTop 0) = some (.proved a) ∧ NPat.pyGen n a x = some (some c) ∧
      s'.stack = (.proved c, false) :: s.stack.drop 1 := by
  refine ⟨rfl, ?_⟩
  simp only [track1] at h
  split at h
  · next a b1 st hs =>
    simp only [Option.bind_eq_bind, Option.bind_eq_some_iff] at h
    obtain ⟨oc, hg, h⟩ := h
    cases oc with
    | none => simp at h
    | some c =>
      simp only [Option.pure_def, Option.some.injEq] at h; subst h
      exact ⟨a, c, by simp [Arg.term, hs], hg, by simp [hs]⟩
  · simp at h

/-- `pop(term)`, `save(str(len(memory)), term)`: the term is `stackTop 0` -/
theorem track1_pop_save_uses (n : Nat) (s s' : PySt) :
    toCall s ⟨"pop", [.stackTop 0]⟩ = some .pop ∧ toCall s ⟨"save", [.str .memLen, .stackTop 0]⟩ = some .save ∧
    (track1 n s .pop = some (some s') → ∃ t, Arg.term s (.stackTop 0) = some t ∧ s'.stack = s.stack.drop 1) ∧
    (track1 n s .save = some (some s') → ∃ t, Arg.term s (.stackTop 0) = some t ∧ s'.memory = s.memory ++ [t]) := by
  refine ⟨rfl, rfl, ?_, ?_⟩
  · intro h
    simp only [track1] at h
    split at h
    · next e st hs => simp only [Option.some.injEq] at h; subst h; exact ⟨e.1, by simp [Arg.term, hs], by simp [hs]⟩
    · simp at h
  · intro h
    simp only [track1] at h
    split at h
    · next t b st hs => simp only [Option.some.injEq] at h; subst h; exact ⟨t, by simp [Arg.term, hs], rfl⟩
    · simp at h

/-- `load(str(id), interpreter.memory[id])`: the term loaded is the memory entry `memAt id` -/
theorem track1_load_uses (n : Nat) (s s' : PySt) (i : Nat) (t : TTerm) (hm : s.memory[i]? = some t)
    (h : track1 n s (.load t) = some (some s')) :
    toCall s ⟨"load", [.str (.byte i), .memAt i]⟩ = some (.load t) ∧ Arg.term s (.memAt i) = some t ∧
      s'.stack = (t, false) :: s.stack := by
  refine ⟨by simp [toCall, hm], by simp [Arg.term, hm], ?_⟩
  simp only [track1, Option.bind_eq_bind, Option.bind_eq_some_iff] at h
  obtain ⟨oi, _, h⟩ := h
  cases oi with
  | none => simp at h
  | some j => simp only [Option.pure_def, Option.some.injEq] at h; subst h; rfl

/-- `publish_axiom(stack[-1])`, `publish_claim(stack[-1])`, `publish_proof(stack[-1])` -/
theorem track1_publish_uses (n : Nat) (s s' : PySt) :
    toCall s ⟨"publish_axiom", [.stackTop 0]⟩ = some .publishAxiom ∧
    toCall s ⟨"publish_claim", [.stackTop 0]⟩ = some .publishClaim ∧
    toCall s ⟨"publish_proof", [.stackTop 0]⟩ = some .publishProof ∧
    (track1 n s .publishAxiom = some (some s') → ∃ a, Arg.term s (.stackTop 0) = some (.pat a) ∧
      s'.memory = s.memory ++ [.proved a]) ∧
    (track1 n s .publishClaim = some (some s') → ∃ a, Arg.term s (.stackTop 0) = some (.pat a)) ∧
    (track1 n s .publishProof = some (some s') → ∃ t c, Arg.term s (.stackTop 0) = some (.proved t) ∧
      s.claims = c :: s'.claims ∧ NPat.peqF n t c = some true) := by
  refine ⟨rfl, rfl, rfl, ?_, ?_, ?_⟩
  · intro h
    simp only [track1] at h
    split at h
    · next a b st hph hs => simp only [Option.some.injEq] at h; subst h; exact ⟨a, by simp [Arg.term, hs], rfl⟩
    · simp at h
  · intro h
    simp only [track1] at h
    split at h
    · next a b st hph hs => exact ⟨a, by simp [Arg.term, hs]⟩
    · simp at h
  · intro h
    simp only [track1] at h
    split at h
    · next t b st c cs hph hs hcl =>
      simp only [Option.bind_eq_bind, Option.bind_eq_some_iff] at h
      obtain ⟨e, he, h⟩ := h
      cases e with
      | false => simp at h
      | true =>
        simp only [if_true, Option.pure_def, Option.some.injEq] at h; subst h
        exact ⟨t, c, by simp [Arg.term, hs], hcl, he⟩
    · simp at h

/-- the plugs `track1` takes: `k` `Pattern` entries, returned deepest first -/
theorem takePlugs_spec (k : Nat) (st : List (TTerm × Bool)) (plugs : List NPat) (st' : List (TTerm × Bool))
    (h : takePlugs k st = some (plugs, st')) :
    plugs.length = k ∧ st' = st.drop k ∧ k ≤ st.length ∧
    ∀ j, j < k → ∃ p b, plugs[j]? = some p ∧ st[k - 1 - j]? = some (.pat p, b) := by
  induction k generalizing st plugs with
  | zero =>
    simp only [takePlugs, Option.some.injEq, Prod.mk.injEq] at h
    obtain ⟨rfl, rfl⟩ := h
    simp
  | succ k ih =>
    cases st with
    | nil => simp [takePlugs] at h
    | cons e st1 =>
      obtain ⟨t, b⟩ := e
      cases t with
      | proved p => simp [takePlugs] at h
      | pat p =>
        simp only [takePlugs, Option.map_eq_some_iff] at h
        obtain ⟨⟨ps, st2⟩, h1, h2⟩ := h
        simp only [Prod.mk.injEq] at h2
        obtain ⟨rfl, rfl⟩ := h2
        obtain ⟨hl, hd, hle, hj⟩ := ih st1 ps h1
        refine ⟨by simp [hl], by simp [hd], by simp; omega, ?_⟩
        intro j hjk
        by_cases hjk' : j < k
        · obtain ⟨q, b', hq, hs⟩ := hj j hjk'
          refine ⟨q, b', ?_, ?_⟩
          · rw [List.getElem?_append_left (by omega)]; exact hq
          · have : k + 1 - 1 - j = (k - 1 - j) + 1 := by omega
            rw [this, List.getElem?_cons_succ]; exact hs
        · have : j = k := by omega
          subst this
          refine ⟨p, b, ?_, ?_⟩
          · rw [List.getElem?_append_right (by omega)]; simp [hl]
          · simp

/-- `instantiate(target, delta)` / `instantiate_pattern(target, delta)`: the target is `stackTop 0`; `toCall` demands that the
dictionary's values are the positions `plugPositions m` = `m, m-1, …, 1`, and `track1` pairs key `j` with the plug at
position `m - j`, i.e. at `plugPositions m`'s `j`-th entry -/
theorem track1_instantiate_uses (n : Nat) (s s' : PySt) (keys : List Nat) (hne : keys ≠ [])
    (h : track1 n s (.instantiate keys) = some (some s')) :
    toCall s ⟨"instantiate", [.stackTop 0, .dict (keys.zip (plugPositions keys.length))]⟩ = some (.instantiate keys) ∧
    ∃ a plugs c, Arg.term s (.stackTop 0) = some (.proved a) ∧ plugs.length = keys.length ∧
      (∀ j, j < keys.length → ∃ p, plugs[j]? = some p ∧ (plugPositions keys.length)[j]? = some (keys.length - j) ∧
        Arg.term s (.stackTop (keys.length - j)) = some (.pat p)) ∧
      NPat.instF n (keys.zip plugs) a = some c ∧ s'.stack = (.proved c, false) :: s.stack.drop (keys.length + 1) := by
  have hpl : (plugPositions keys.length).length = keys.length := by simp [plugPositions]
  constructor
  · simp [toCall, List.map_snd_zip, List.map_fst_zip, hpl]
  simp only [track1] at h
  split at h
  · next a b1 st hs =>
    have hemp : keys.isEmpty = false := by cases keys <;> simp_all
    simp only [hemp, Bool.false_eq_true, if_false] at h
    split at h
    · simp at h
    · next plugs st' htp =>
      simp only [Option.bind_eq_bind, Option.bind_eq_some_iff, Option.pure_def, Option.some.injEq] at h
      obtain ⟨c, hinst, h⟩ := h
      subst h
      obtain ⟨hl, hd, hle, hj⟩ := takePlugs_spec _ _ _ _ htp
      refine ⟨a, plugs, c, by simp [Arg.term, hs], hl, ?_, hinst, by simp [hs, hd]⟩
      intro j hjk
      obtain ⟨p, b, hp, hst⟩ := hj j hjk
      refine ⟨p, hp, ?_, ?_⟩
      · simp only [plugPositions, List.getElem?_reverse (by simpa using hjk : j < (List.range' 1 keys.length).length)]
        simp only [List.length_range']
        rw [List.getElem?_range' (by omega)]; simp; omega
      · have : keys.length - j = (keys.length - 1 - j) + 1 := by omega
        simp [Arg.term, hs, this, hst]
  · simp at h

theorem track1_instantiatePattern_uses (n : Nat) (s s' : PySt) (keys : List Nat)
    (h : track1 n s (.instantiatePattern keys) = some (some s')) :
    toCall s ⟨"instantiate_pattern", [.stackTop 0, .dict (keys.zip (plugPositions keys.length))]⟩ =
      some (.instantiatePattern keys) ∧
    ∃ a plugs, Arg.term s (.stackTop 0) = some (.pat a) ∧ plugs.length = keys.length ∧
      (∀ j, j < keys.length → ∃ p, plugs[j]? = some p ∧ (plugPositions keys.length)[j]? = some (keys.length - j) ∧
        Arg.term s (.stackTop (keys.length - j)) = some (.pat p)) ∧
      s'.stack = (.pat (.inst a (keys.zip plugs)), false) :: s.stack.drop (keys.length + 1) := by
  have hpl : (plugPositions keys.length).length = keys.length := by simp [plugPositions]
  constructor
  · simp [toCall, List.map_snd_zip, List.map_fst_zip, hpl]
  simp only [track1] at h
  split at h
  · next a b1 st hs =>
    split at h
    · simp at h
    · next plugs st' htp =>
      simp only [Option.some.injEq] at h
      subst h
      obtain ⟨hl, hd, hle, hj⟩ := takePlugs_spec _ _ _ _ htp
      refine ⟨a, plugs, by simp [Arg.term, hs], hl, ?_, by simp [hs, hd]⟩
      intro j hjk
      obtain ⟨p, b, hp, hst⟩ := hj j hjk
      refine ⟨p, hp, ?_, ?_⟩
      · simp only [plugPositions, List.getElem?_reverse (by simpa using hjk : j < (List.range' 1 keys.length).length)]
        simp only [List.length_range']
        rw [List.getElem?_range' (by omega)]; simp; omega
      · have : keys.length - j = (keys.length - 1 - j) + 1 := by omega
        simp [Arg.term, hs, this, hst]
  · simp at h

/-! ### `track1` raises when an operand is missing -/

theorem track1_short2 (n : Nat) (s : PySt) (h : ¬ (1 < s.stack.length ∧ 0 < s.stack.length)) :
    track1 n s .implies = some none ∧ track1 n s .app = some none ∧ track1 n s .mp = some none ∧
    (∀ x, track1 n s (.esubst x) = some none) ∧ (∀ x, track1 n s (.ssubst x) = some none) := by
  obtain ⟨ph, stk, mem, cl, sy⟩ := s
  match stk, h with
  | [], _ => simp [track1]
  | [(t, b)], _ => cases t <;> simp [track1]
  | _ :: _ :: _, h => simp at h

theorem track1_short1 (n : Nat) (s : PySt) (h : ¬ (0 < s.stack.length)) :
    (∀ x, track1 n s (.ex x) = some none) ∧ (∀ x, track1 n s (.mu x) = some none) ∧ (∀ x, track1 n s (.gen x) = some none) ∧
    track1 n s .pop = some none ∧ track1 n s .save = some none ∧ track1 n s .publishAxiom = some none ∧
    track1 n s .publishClaim = some none ∧ track1 n s .publishProof = some none := by
  obtain ⟨ph, stk, mem, cl, sy⟩ := s
  match stk, h with
  | [], _ => cases ph <;> simp [track1]
  | _ :: _, h => simp at h

/-! ## 2. one loop iteration -/

/-- the hand-written model of one iteration: decode one instruction, dispatch (`callOfInstr`), make the call (`track1`) -/
def modelStep (n : Nat) (s : PySt) (bs : List Nat) : Option (Option (PySt × List Nat)) :=
  match decode1 bs with
  | none => some none
  | some (i, rest) =>
      match callOfInstr s i with
      | none => some none
      | some c => (track1 n s c).map (Option.map (·, rest))

theorem tie_evar (n : Nat) (s : PySt) (r : List Nat) : exec n s (Gen.Deser.br_EVar n s r) = modelStep n s (2 :: r) := by
  cases r <;> simp [Gen.Deser.br_EVar, nextByte, exec, toCall, modelStep, decode1, callOfInstr, Arg.defined]

theorem tie_svar (n : Nat) (s : PySt) (r : List Nat) : exec n s (Gen.Deser.br_SVar n s r) = modelStep n s (3 :: r) := by
  cases r <;> simp [Gen.Deser.br_SVar, nextByte, exec, toCall, modelStep, decode1, callOfInstr, Arg.defined]

theorem tie_symbol (n : Nat) (s : PySt) (r : List Nat) : exec n s (Gen.Deser.br_Symbol n s r) = modelStep n s (4 :: r) := by
  cases r <;> simp [Gen.Deser.br_Symbol, nextByte, exec, toCall, modelStep, decode1, callOfInstr, Arg.defined]

theorem tie_implies (n : Nat) (s : PySt) (r : List Nat) : exec n s (Gen.Deser.br_Implies n s r) = modelStep n s (5 :: r) := by
  by_cases h : (1 < s.stack.length ∧ 0 < s.stack.length)
  · simp [Gen.Deser.br_Implies, exec, toCall, modelStep, decode1, callOfInstr, Arg.defined, h]
  · simp [Gen.Deser.br_Implies, exec, toCall, modelStep, decode1, callOfInstr, Arg.defined, h, (track1_short2 n s h).1]

theorem tie_app (n : Nat) (s : PySt) (r : List Nat) : exec n s (Gen.Deser.br_App n s r) = modelStep n s (6 :: r) := by
  by_cases h : (1 < s.stack.length ∧ 0 < s.stack.length)
  · simp [Gen.Deser.br_App, exec, toCall, modelStep, decode1, callOfInstr, Arg.defined, h]
  · simp [Gen.Deser.br_App, exec, toCall, modelStep, decode1, callOfInstr, Arg.defined, h, (track1_short2 n s h).2.1]

theorem tie_mp (n : Nat) (s : PySt) (r : List Nat) : exec n s (Gen.Deser.br_ModusPonens n s r) = modelStep n s (21 :: r) := by
  by_cases h : (1 < s.stack.length ∧ 0 < s.stack.length)
  · simp [Gen.Deser.br_ModusPonens, exec, toCall, modelStep, decode1, callOfInstr, Arg.defined, h]
  · simp [Gen.Deser.br_ModusPonens, exec, toCall, modelStep, decode1, callOfInstr, Arg.defined, h, (track1_short2 n s h).2.2.1]

theorem tie_exists (n : Nat) (s : PySt) (r : List Nat) : exec n s (Gen.Deser.br_Exists n s r) = modelStep n s (8 :: r) := by
  cases r with
  | nil => simp [Gen.Deser.br_Exists, nextByte, exec, modelStep, decode1]
  | cons x r =>
    by_cases h : 0 < s.stack.length
    · simp [Gen.Deser.br_Exists, nextByte, exec, toCall, modelStep, decode1, callOfInstr, Arg.defined, h]
    · simp [Gen.Deser.br_Exists, nextByte, exec, toCall, modelStep, decode1, callOfInstr, Arg.defined, h, (track1_short1 n s h).1]

theorem tie_mu (n : Nat) (s : PySt) (r : List Nat) : exec n s (Gen.Deser.br_Mu n s r) = modelStep n s (7 :: r) := by
  cases r with
  | nil => simp [Gen.Deser.br_Mu, nextByte, exec, modelStep, decode1]
  | cons x r =>
    by_cases h : 0 < s.stack.length
    · simp [Gen.Deser.br_Mu, nextByte, exec, toCall, modelStep, decode1, callOfInstr, Arg.defined, h]
    · simp [Gen.Deser.br_Mu, nextByte, exec, toCall, modelStep, decode1, callOfInstr, Arg.defined, h, (track1_short1 n s h).2.1]

theorem tie_esubst (n : Nat) (s : PySt) (r : List Nat) : exec n s (Gen.Deser.br_ESubst n s r) = modelStep n s (10 :: r) := by
  cases r with
  | nil => simp [Gen.Deser.br_ESubst, nextByte, exec, modelStep, decode1]
  | cons x r =>
    by_cases h : (1 < s.stack.length ∧ 0 < s.stack.length)
    · simp [Gen.Deser.br_ESubst, nextByte, exec, toCall, modelStep, decode1, callOfInstr, Arg.defined, h]
    · have h' : ¬ (0 < s.stack.length ∧ 1 < s.stack.length) := fun hh => h ⟨hh.2, hh.1⟩
      simp [Gen.Deser.br_ESubst, nextByte, exec, toCall, modelStep, decode1, callOfInstr, Arg.defined, h', (track1_short2 n s h).2.2.2.1]

theorem tie_ssubst (n : Nat) (s : PySt) (r : List Nat) : exec n s (Gen.Deser.br_SSubst n s r) = modelStep n s (11 :: r) := by
  cases r with
  | nil => simp [Gen.Deser.br_SSubst, nextByte, exec, modelStep, decode1]
  | cons x r =>
    by_cases h : (1 < s.stack.length ∧ 0 < s.stack.length)
    · simp [Gen.Deser.br_SSubst, nextByte, exec, toCall, modelStep, decode1, callOfInstr, Arg.defined, h]
    · have h' : ¬ (0 < s.stack.length ∧ 1 < s.stack.length) := fun hh => h ⟨hh.2, hh.1⟩
      simp [Gen.Deser.br_SSubst, nextByte, exec, toCall, modelStep, decode1, callOfInstr, Arg.defined, h', (track1_short2 n s h).2.2.2.2]

theorem tie_metavar (n : Nat) (s : PySt) (r : List Nat) : exec n s (Gen.Deser.br_MetaVar n s r) = modelStep n s (9 :: r) := by
  cases r with
  | nil => simp [Gen.Deser.br_MetaVar, nextByte, exec, modelStep, decode1]
  | cons id r =>
    simp only [Gen.Deser.br_MetaVar, nextByte, readList_eq, modelStep, decode1]
    cases h1 : readVec r with
    | none => simp [exec]
    | some p1 =>
    obtain ⟨ef, r1⟩ := p1
    cases h2 : readVec r1 with
    | none => simp [exec, h2]
    | some p2 =>
    obtain ⟨sf, r2⟩ := p2
    cases h3 : readVec r2 with
    | none => simp [exec, h2, h3]
    | some p3 =>
    obtain ⟨ps, r3⟩ := p3
    cases h4 : readVec r3 with
    | none => simp [exec, h2, h3, h4]
    | some p4 =>
    obtain ⟨ns, r4⟩ := p4
    cases h5 : readVec r4 with
    | none => simp [exec, h2, h3, h4, h5]
    | some p5 =>
    obtain ⟨hs, r5⟩ := p5
    simp [exec, toCall, callOfInstr, Arg.defined, h2, h3, h4, h5]

theorem tie_cleanmv (n : Nat) (s : PySt) (r : List Nat) : exec n s (Gen.Deser.br_CleanMetaVar n s r) = modelStep n s (137 :: r) := by
  cases r <;> simp [Gen.Deser.br_CleanMetaVar, nextByte, exec, toCall, modelStep, decode1, callOfInstr, Arg.defined]

theorem tie_prop1 (n : Nat) (s : PySt) (r : List Nat) : exec n s (Gen.Deser.br_Prop1 n s r) = modelStep n s (12 :: r) := by
  simp [Gen.Deser.br_Prop1, exec, toCall, modelStep, decode1, callOfInstr]

theorem tie_prop2 (n : Nat) (s : PySt) (r : List Nat) : exec n s (Gen.Deser.br_Prop2 n s r) = modelStep n s (13 :: r) := by
  simp [Gen.Deser.br_Prop2, exec, toCall, modelStep, decode1, callOfInstr]

theorem tie_prop3 (n : Nat) (s : PySt) (r : List Nat) : exec n s (Gen.Deser.br_Prop3 n s r) = modelStep n s (14 :: r) := by
  simp [Gen.Deser.br_Prop3, exec, toCall, modelStep, decode1, callOfInstr]

theorem tie_quantifier (n : Nat) (s : PySt) (r : List Nat) : exec n s (Gen.Deser.br_Quantifier n s r) = modelStep n s (15 :: r) := by
  simp [Gen.Deser.br_Quantifier, exec, toCall, modelStep, decode1, callOfInstr]

theorem isProved_false_gen (n : Nat) (s : PySt) (x : Nat) (h : isProved s (.stackTop 0) = false) :
    track1 n s (.gen x) = some none := by
  obtain ⟨ph, stk, mem, cl, sy⟩ := s
  match stk, h with
  | [], _ => simp [track1]
  | (.pat p, b) :: st, _ => simp [track1]
  | (.proved p, b) :: st, h => simp [isProved, Arg.term] at h

theorem tie_gen (n : Nat) (s : PySt) (r : List Nat) : exec n s (Gen.Deser.br_Generalization n s r) = modelStep n s (22 :: r) := by
  cases r with
  | nil => simp [Gen.Deser.br_Generalization, nextByte, exec, modelStep, decode1]
  | cons x r =>
    cases hp : isProved s (.stackTop 0) with
    | false =>
      simp [Gen.Deser.br_Generalization, nextByte, assertThat, hp, exec, modelStep, decode1, callOfInstr, isProved_false_gen n s x hp]
    | true =>
      have h : 0 < s.stack.length := by
        cases hs : s.stack with
        | nil => simp [isProved, Arg.term, hs] at hp
        | cons e st => simp
      simp [Gen.Deser.br_Generalization, nextByte, assertThat, hp, exec, toCall, modelStep, decode1, callOfInstr, Arg.defined, h]

theorem tie_pop (n : Nat) (s : PySt) (r : List Nat) : exec n s (Gen.Deser.br_Pop n s r) = modelStep n s (27 :: r) := by
  by_cases h : 0 < s.stack.length
  · simp [Gen.Deser.br_Pop, exec, toCall, modelStep, decode1, callOfInstr, Arg.defined, h]
  · simp [Gen.Deser.br_Pop, exec, toCall, modelStep, decode1, callOfInstr, Arg.defined, h, (track1_short1 n s h).2.2.2.1]

theorem tie_save (n : Nat) (s : PySt) (r : List Nat) : exec n s (Gen.Deser.br_Save n s r) = modelStep n s (28 :: r) := by
  by_cases h : 0 < s.stack.length
  · simp [Gen.Deser.br_Save, exec, toCall, modelStep, decode1, callOfInstr, Arg.defined, h]
  · simp [Gen.Deser.br_Save, exec, toCall, modelStep, decode1, callOfInstr, Arg.defined, h, (track1_short1 n s h).2.2.2.2.1]

theorem tie_load (n : Nat) (s : PySt) (r : List Nat) : exec n s (Gen.Deser.br_Load n s r) = modelStep n s (29 :: r) := by
  cases r with
  | nil => simp [Gen.Deser.br_Load, nextByte, exec, modelStep, decode1]
  | cons i r =>
    by_cases h : i < s.memory.length
    · have hm : s.memory[i]? = some s.memory[i] := List.getElem?_eq_getElem h
      have hge : ¬ (s.memory.length ≤ i) := by omega
      simp [Gen.Deser.br_Load, nextByte, exec, toCall, modelStep, decode1, callOfInstr, Arg.defined, h, hm, hge]
    · have hm : s.memory[i]? = none := List.getElem?_eq_none (by omega)
      have hge : s.memory.length ≤ i := by omega
      simp [Gen.Deser.br_Load, nextByte, exec, modelStep, decode1, callOfInstr, hm, hge]

/-- the deserialiser's own claim test before `publish_proof` (`claims[0].pattern != theorem.conclusion`: the claim is the left
operand) answers as the tracker's test inside `publish_proof` (`proved.conclusion == expected_claim.pattern`: the claim is the
right operand).  `callOfInstr` does not model the former. -/
def PrecheckAgrees (n : Nat) (s : PySt) : Prop :=
  ∀ t b st c cs, s.phase = .proof → s.stack = (.proved t, b) :: st → s.claims = c :: cs → NPat.peqF n c t = NPat.peqF n t c

theorem tie_publish (n : Nat) (s : PySt) (r : List Nat) (hpre : PrecheckAgrees n s) :
    exec n s (Gen.Deser.br_Publish n s r) = modelStep n s (30 :: r) := by
  obtain ⟨ph, stk, mem, cl, sy⟩ := s
  cases ph with
  | gamma =>
    match stk with
    | [] => simp [Gen.Deser.br_Publish, assertThat, isPattern, Arg.term, exec, modelStep, decode1, callOfInstr, track1]
    | (.pat p, b) :: st =>
      simp [Gen.Deser.br_Publish, assertThat, isPattern, Arg.term, exec, toCall, modelStep, decode1, callOfInstr, Arg.defined]
    | (.proved p, b) :: st =>
      simp [Gen.Deser.br_Publish, assertThat, isPattern, Arg.term, exec, modelStep, decode1, callOfInstr, track1]
  | claim =>
    match stk with
    | [] => simp [Gen.Deser.br_Publish, assertThat, isPattern, Arg.term, exec, modelStep, decode1, callOfInstr, track1]
    | (.pat p, b) :: st =>
      simp [Gen.Deser.br_Publish, assertThat, isPattern, Arg.term, exec, toCall, modelStep, decode1, callOfInstr, Arg.defined]
    | (.proved p, b) :: st =>
      simp [Gen.Deser.br_Publish, assertThat, isPattern, Arg.term, exec, modelStep, decode1, callOfInstr, track1]
  | proof =>
    match stk, hpre with
    | [], _ => simp [Gen.Deser.br_Publish, assertThat, isProved, Arg.term, exec, modelStep, decode1, callOfInstr, track1]
    | (.pat p, b) :: st, _ =>
      simp [Gen.Deser.br_Publish, assertThat, isProved, Arg.term, exec, modelStep, decode1, callOfInstr, track1]
    | (.proved t, b) :: st, hpre =>
      cases cl with
      | nil =>
        simp [Gen.Deser.br_Publish, assertThat, isProved, Arg.term, ifM, pyOr, exec, modelStep, decode1, callOfInstr, track1]
      | cons c cs =>
        have hsym : NPat.peqF n c t = NPat.peqF n t c := hpre t b st c cs rfl rfl rfl
        cases hq : NPat.peqF n t c with
        | none =>
          simp [Gen.Deser.br_Publish, assertThat, isProved, Arg.term, ifM, pyOr, pyNot, claimHeadEq, TTerm.body, hsym, hq, exec,
            modelStep, decode1, callOfInstr, track1]
        | some q =>
          cases q with
          | false =>
            simp [Gen.Deser.br_Publish, assertThat, isProved, Arg.term, ifM, pyOr, pyNot, claimHeadEq, TTerm.body, hsym, hq, exec,
              modelStep, decode1, callOfInstr, track1]
          | true =>
            simp [Gen.Deser.br_Publish, assertThat, isProved, Arg.term, ifM, pyOr, pyNot, claimHeadEq, TTerm.body, hsym, hq, exec,
              toCall, modelStep, decode1, callOfInstr, Arg.defined]

/-! ### Instantiate -/

/-- the key bytes of an `Instantiate` at the head of the stream are pairwise different (what the serializer writes: the
keys of a `dict`) -/
def NodupKeys1 (bs : List Nat) : Prop := ∀ ids rest, decode1 bs = some (.instantiate ids, rest) → ids.Nodup

theorem isPattern_iff (s : PySt) (k : Nat) :
    isPattern s (.stackTop k) = true ↔ ∃ p b, s.stack[k]? = some (.pat p, b) := by
  simp only [isPattern, Arg.term]
  cases h : s.stack[k]? with
  | none => simp
  | some e => obtain ⟨t, b⟩ := e; cases t <;> simp

theorem allPattern_range (s : PySt) (m : Nat) :
    allPattern s (List.range' 1 m) = true ↔ ∀ j, j < m → ∃ p b, s.stack[j + 1]? = some (.pat p, b) := by
  simp only [allPattern, List.all_eq_true, List.mem_range'_1, isPattern_iff]
  constructor
  · intro h j hj; exact h (j + 1) (by omega)
  · intro h k hk
    have := h (k - 1) (by omega)
    rwa [show k - 1 + 1 = k by omega] at this

theorem takePlugs_none_of (k : Nat) (st : List (TTerm × Bool))
    (h : ¬ (k ≤ st.length ∧ ∀ j, j < k → ∃ p b, st[j]? = some (.pat p, b))) : takePlugs k st = none := by
  cases htp : takePlugs k st with
  | none => rfl
  | some x =>
    exfalso
    obtain ⟨plugs, st'⟩ := x
    obtain ⟨_, _, hle, hj⟩ := takePlugs_spec k st plugs st' htp
    apply h
    refine ⟨hle, ?_⟩
    intro j hjk
    obtain ⟨p, b, _, hs⟩ := hj (k - 1 - j) (by omega)
    rw [show k - 1 - (k - 1 - j) = j by omega] at hs
    exact ⟨p, b, hs⟩

/-- the dictionary the Python code builds from pairwise different keys: wire key `i` with the plug at position `i+1`,
reversed — its keys are the reversed wire keys, its values the positions `plugPositions` -/
theorem delta_facts (ids : List Nat) :
    ((ids.zip (List.range' 1 ids.length)).reverse).map (·.1) = ids.reverse ∧
    ((ids.zip (List.range' 1 ids.length)).reverse).map (·.2) = plugPositions ids.length ∧
    ((ids.zip (List.range' 1 ids.length)).reverse).length = ids.length ∧
      ∀ p ∈ (ids.zip (List.range' 1 ids.length)).reverse, p.2 ≤ ids.length := by
  refine ⟨?_, ?_, ?_, ?_⟩
  · simp [List.map_reverse, List.map_fst_zip]
  · simp [List.map_reverse, List.map_snd_zip, plugPositions]
  · simp
  · intro p hp
    have hp' : p ∈ ids.zip (List.range' 1 ids.length) := by simpa using hp
    have := (List.of_mem_zip hp').2
    rw [List.mem_range'_1] at this
    omega

theorem toCall_instantiate (s : PySt) (pairs : List (Nat × Nat)) (h : pairs.map (·.2) = plugPositions pairs.length) :
    toCall s ⟨"instantiate", [.stackTop 0, .dict pairs]⟩ = some (.instantiate (pairs.map (·.1))) ∧
    toCall s ⟨"instantiate_pattern", [.stackTop 0, .dict pairs]⟩ = some (.instantiatePattern (pairs.map (·.1))) := by
  simp [toCall, h]

theorem exec_call (n : Nat) (s : PySt) (dc : DCall) (rest : List Nat) (c : Call) (hd : dc.args.all (Arg.defined s) = true)
    (hc : toCall s dc = some c) : exec n s (.call dc rest) = (track1 n s c).map (Option.map (·, rest)) := by
  simp only [exec, hd, if_true, hc]

theorem inst_body (n : Nat) (s : PySt) (ids r' : List Nat) (hnd : ids.Nodup) :
    exec n s
      (assertThat (allPattern s (stackSlice s.stack.length (ids.length + 1) 1).reverse) <|
        zipStrict ids (stackSlice s.stack.length (ids.length + 1) 1).reverse fun zipped =>
          if isProved s (.stackTop 0) then Res.call ⟨"instantiate", [.stackTop 0, .dict (pyDict zipped.reverse)]⟩ r'
          else if isPattern s (.stackTop 0) then
            Res.call ⟨"instantiate_pattern", [.stackTop 0, .dict (pyDict zipped.reverse)]⟩ r'
          else Res.raise) =
    match callOfInstr s (.instantiate ids) with
    | none => some none
    | some c => (track1 n s c).map (Option.map (·, r')) := by
  have hV : (stackSlice s.stack.length (ids.length + 1) 1).reverse =
      List.range' 1 (min (ids.length + 1) s.stack.length - 1) := by simp [stackSlice]
  rw [hV]
  clear hV
  obtain ⟨ph, stk, mem, cl, sy⟩ := s
  cases stk with
  | nil =>
    simp only [List.length_nil, Nat.min_zero, Nat.zero_sub, List.range'_zero, callOfInstr]
    simp only [allPattern, List.all_nil, assertThat, if_true, zipStrict, isProved, isPattern, Arg.term]
    split <;> simp [exec]
  | cons e st =>
    obtain ⟨t, b⟩ := e
    have hmin : min (ids.length + 1) (st.length + 1) - 1 = min ids.length st.length := by omega
    simp only [List.length_cons, hmin]
    by_cases hm : ids.length ≤ st.length
    · rw [Nat.min_eq_left hm]
      cases hall : allPattern ⟨ph, (t, b) :: st, mem, cl, sy⟩ (List.range' 1 ids.length) with
      | false =>
        have hne : ids.reverse.isEmpty = false := by
          cases ids with
          | nil => simp [allPattern] at hall
          | cons a l => simp
        have htp : takePlugs ids.length st = none := by
          apply takePlugs_none_of
          intro hgood
          have : allPattern ⟨ph, (t, b) :: st, mem, cl, sy⟩ (List.range' 1 ids.length) = true := by
            rw [allPattern_range]
            intro j hj
            simpa using hgood.2 j hj
          rw [this] at hall
          exact absurd hall (by simp)
        cases t <;> simp [assertThat, exec, callOfInstr, track1, hne, htp, List.length_reverse]
      | true =>
        obtain ⟨hZ1, hZ2, hZ3, hZ4⟩ := delta_facts ids
        have hdict : pyDict (ids.zip (List.range' 1 ids.length)).reverse = (ids.zip (List.range' 1 ids.length)).reverse :=
          pyDict_nodup _ (by rw [hZ1]; exact (List.reverse_perm ids).nodup_iff.mpr hnd)
        have hZ2' : ((ids.zip (List.range' 1 ids.length)).reverse).map (·.2) =
            plugPositions ((ids.zip (List.range' 1 ids.length)).reverse).length := by rw [hZ3]; exact hZ2
        obtain ⟨hc1, hc2⟩ := toCall_instantiate ⟨ph, (t, b) :: st, mem, cl, sy⟩ _ hZ2'
        rw [hZ1] at hc1 hc2
        have hdef : ∀ dcm, (DCall.mk dcm [.stackTop 0, .dict (ids.zip (List.range' 1 ids.length)).reverse]).args.all
            (Arg.defined ⟨ph, (t, b) :: st, mem, cl, sy⟩) = true := by
          intro dcm
          simp only [List.all_cons, List.all_nil, Bool.and_true, Arg.defined, List.length_cons, Bool.and_eq_true,
            decide_eq_true_eq, List.all_eq_true]
          refine ⟨by omega, ?_⟩
          intro p hp
          have := hZ4 p hp
          omega
        simp only [assertThat, if_true, zipStrict, List.length_range', hdict]
        cases t with
        | pat a =>
          have h1 : isProved ⟨ph, (.pat a, b) :: st, mem, cl, sy⟩ (.stackTop 0) = false := by simp [isProved, Arg.term]
          have h2 : isPattern ⟨ph, (.pat a, b) :: st, mem, cl, sy⟩ (.stackTop 0) = true := by simp [isPattern, Arg.term]
          simp only [h1, h2, if_true, Bool.false_eq_true, if_false, callOfInstr]
          exact exec_call _ _ _ _ _ (hdef _) hc2
        | proved a =>
          have h1 : isProved ⟨ph, (.proved a, b) :: st, mem, cl, sy⟩ (.stackTop 0) = true := by simp [isProved, Arg.term]
          simp only [h1, if_true, callOfInstr]
          exact exec_call _ _ _ _ _ (hdef _) hc1
    · have hlt : st.length < ids.length := by omega
      rw [Nat.min_eq_right (by omega)]
      have hne : ids.reverse.isEmpty = false := by
        cases ids with
        | nil => simp at hlt
        | cons a l => simp
      have htp : takePlugs ids.length st = none := by
        apply takePlugs_none_of
        intro hgood
        omega
      have hlen : ¬ (ids.length = st.length) := by omega
      cases t <;> simp [assertThat, zipStrict, hlen, exec, callOfInstr, track1, hne, htp, List.length_reverse]

theorem tie_instantiate (n : Nat) (s : PySt) (r : List Nat) (hk : NodupKeys1 (26 :: r)) :
    exec n s (Gen.Deser.br_Instantiate n s r) = modelStep n s (26 :: r) := by
  cases r with
  | nil => simp [Gen.Deser.br_Instantiate, nextByte, exec, modelStep, decode1]
  | cons m r =>
    simp only [Gen.Deser.br_Instantiate, nextByte, nextBytes_eq, modelStep, decode1]
    cases htk : takeN m r with
    | none => simp [exec]
    | some pr =>
      obtain ⟨ids, r'⟩ := pr
      have hlen : ids.length = m := (takeN_length htk).2
      have hnd : ids.Nodup := hk ids r' (by simp [decode1, htk])
      subst hlen
      simp only [Option.map_some]
      exact inst_body n s ids r' hnd

/-! ### any opcode byte -/

theorem modelStep_unknown (n : Nat) (s : PySt) (b : Nat) (r : List Nat)
    (h : b ≠ 2 ∧ b ≠ 3 ∧ b ≠ 4 ∧ b ≠ 5 ∧ b ≠ 6 ∧ b ≠ 7 ∧ b ≠ 8 ∧ b ≠ 9 ∧ b ≠ 10 ∧ b ≠ 11 ∧ b ≠ 12 ∧ b ≠ 13 ∧ b ≠ 14 ∧ b ≠ 15 ∧
      b ≠ 21 ∧ b ≠ 22 ∧ b ≠ 26 ∧ b ≠ 27 ∧ b ≠ 28 ∧ b ≠ 29 ∧ b ≠ 30 ∧ b ≠ 137) :
    modelStep n s (b :: r) = some none ∧ ∀ i rest, decode1 (b :: r) = some (i, rest) → callOfInstr s i = none := by
  obtain ⟨h2, h3, h4, h5, h6, h7, h8, h9, h10, h11, h12, h13, h14, h15, h21, h22, h26, h27, h28, h29, h30, h137⟩ := h
  by_cases h19 : b = 19
  · subst h19; simp [modelStep, decode1, callOfInstr]
  by_cases h24 : b = 24
  · subst h24; cases r <;> simp [modelStep, decode1, callOfInstr]
  have hd : decode1 (b :: r) = none := by
    unfold decode1
    split <;> first | rfl | (rename_i heq; have := (List.cons.inj heq).1; omega)
  simp [modelStep, hd]

/-- **one loop iteration**: what the Python branch of opcode byte `b` does on the rest `r` of the stream in state `s` (operand
bytes read, method called with its located arguments, on the tracker) is `decode1` + `callOfInstr` + `track1` -/
theorem step_tie (n : Nat) (s : PySt) (b : Nat) (r : List Nat) (hk : NodupKeys1 (b :: r)) (hp : b = 30 → PrecheckAgrees n s) :
    exec n s (Gen.Deser.step n s b r) = modelStep n s (b :: r) := by
  rw [step_eq]
  by_cases h2 : b = 2
  · subst h2; exact tie_evar n s r
  rw [if_neg h2]
  by_cases h3 : b = 3
  · subst h3; exact tie_svar n s r
  rw [if_neg h3]
  by_cases h4 : b = 4
  · subst h4; exact tie_symbol n s r
  rw [if_neg h4]
  by_cases h5 : b = 5
  · subst h5; exact tie_implies n s r
  rw [if_neg h5]
  by_cases h6 : b = 6
  · subst h6; exact tie_app n s r
  rw [if_neg h6]
  by_cases h8 : b = 8
  · subst h8; exact tie_exists n s r
  rw [if_neg h8]
  by_cases h7 : b = 7
  · subst h7; exact tie_mu n s r
  rw [if_neg h7]
  by_cases h10 : b = 10
  · subst h10; exact tie_esubst n s r
  rw [if_neg h10]
  by_cases h11 : b = 11
  · subst h11; exact tie_ssubst n s r
  rw [if_neg h11]
  by_cases h9 : b = 9
  · subst h9; exact tie_metavar n s r
  rw [if_neg h9]
  by_cases h137 : b = 137
  · subst h137; exact tie_cleanmv n s r
  rw [if_neg h137]
  by_cases h12 : b = 12
  · subst h12; exact tie_prop1 n s r
  rw [if_neg h12]
  by_cases h13 : b = 13
  · subst h13; exact tie_prop2 n s r
  rw [if_neg h13]
  by_cases h14 : b = 14
  · subst h14; exact tie_prop3 n s r
  rw [if_neg h14]
  by_cases h21 : b = 21
  · subst h21; exact tie_mp n s r
  rw [if_neg h21]
  by_cases h15 : b = 15
  · subst h15; exact tie_quantifier n s r
  rw [if_neg h15]
  by_cases h22 : b = 22
  · subst h22; exact tie_gen n s r
  rw [if_neg h22]
  by_cases h26 : b = 26
  · subst h26; exact tie_instantiate n s r hk
  rw [if_neg h26]
  by_cases h27 : b = 27
  · subst h27; exact tie_pop n s r
  rw [if_neg h27]
  by_cases h28 : b = 28
  · subst h28; exact tie_save n s r
  rw [if_neg h28]
  by_cases h29 : b = 29
  · subst h29; exact tie_load n s r
  rw [if_neg h29]
  by_cases h30 : b = 30
  · subst h30; exact tie_publish n s r (hp rfl)
  rw [if_neg h30]
  rw [(modelStep_unknown n s b r ⟨h2, h3, h4, h5, h6, h7, h8, h9, h10, h11, h12, h13, h14, h15, h21, h22, h26, h27, h28, h29, h30,
    h137⟩).1]
  rfl

/-! ### the bytes consumed (no hypotheses) -/

/-- the iteration continues, if at all, with the stream `rest` -/
def restOK (res : Res) (rest : List Nat) : Prop :=
  match res with
  | .call _ r => r = rest
  | .noop r => r = rest
  | _ => True

/-- `res` reads what `decode1` reads: an undecodable head is an exception, a decodable one leaves `decode1`'s rest -/
def reads (res : Res) (d : Option (Instr × List Nat)) : Prop :=
  match d with
  | none => res = .raise
  | some (_, rest) => restOK res rest

theorem restOK_call (dc : DCall) (r : List Nat) : restOK (.call dc r) r := rfl
theorem restOK_noop (r : List Nat) : restOK (.noop r) r := rfl
theorem restOK_raise (r : List Nat) : restOK .raise r := trivial

theorem restOK_assertThat (b : Bool) (res : Res) (rest : List Nat) (h : restOK res rest) : restOK (assertThat b res) rest := by
  cases b
  · simp [assertThat, restOK]
  · simpa [assertThat] using h

theorem restOK_ite (c : Prop) [Decidable c] (a b : Res) (rest : List Nat) (ha : restOK a rest) (hb : restOK b rest) :
    restOK (if c then a else b) rest := by
  split <;> assumption

theorem restOK_ifM (c : Option Bool) (a b : Res) (rest : List Nat) (ha : restOK a rest) (hb : restOK b rest) :
    restOK (ifM c a b) rest := by
  match c with
  | none => simp [ifM, restOK]
  | some true => simpa [ifM] using ha
  | some false => simpa [ifM] using hb

theorem step_reads (n : Nat) (s : PySt) (b : Nat) (r : List Nat) : reads (Gen.Deser.step n s b r) (decode1 (b :: r)) := by
  rw [step_eq]
  by_cases h2 : b = 2
  · subst h2; rw [if_pos rfl]; cases r <;> simp [reads, restOK, Gen.Deser.br_EVar, nextByte, decode1]
  rw [if_neg h2]
  by_cases h3 : b = 3
  · subst h3; rw [if_pos rfl]; cases r <;> simp [reads, restOK, Gen.Deser.br_SVar, nextByte, decode1]
  rw [if_neg h3]
  by_cases h4 : b = 4
  · subst h4; rw [if_pos rfl]; cases r <;> simp [reads, restOK, Gen.Deser.br_Symbol, nextByte, decode1]
  rw [if_neg h4]
  by_cases h5 : b = 5
  · subst h5; rw [if_pos rfl]; simp [reads, restOK, Gen.Deser.br_Implies, decode1]
  rw [if_neg h5]
  by_cases h6 : b = 6
  · subst h6; rw [if_pos rfl]; simp [reads, restOK, Gen.Deser.br_App, decode1]
  rw [if_neg h6]
  by_cases h8 : b = 8
  · subst h8; rw [if_pos rfl]; cases r <;> simp [reads, restOK, Gen.Deser.br_Exists, nextByte, decode1]
  rw [if_neg h8]
  by_cases h7 : b = 7
  · subst h7; rw [if_pos rfl]; cases r <;> simp [reads, restOK, Gen.Deser.br_Mu, nextByte, decode1]
  rw [if_neg h7]
  by_cases h10 : b = 10
  · subst h10; rw [if_pos rfl]; cases r <;> simp [reads, restOK, Gen.Deser.br_ESubst, nextByte, decode1]
  rw [if_neg h10]
  by_cases h11 : b = 11
  · subst h11; rw [if_pos rfl]; cases r <;> simp [reads, restOK, Gen.Deser.br_SSubst, nextByte, decode1]
  rw [if_neg h11]
  by_cases h9 : b = 9
  · subst h9
    rw [if_pos rfl]
    cases r with
    | nil => simp [reads, Gen.Deser.br_MetaVar, nextByte, decode1]
    | cons id r =>
      simp only [Gen.Deser.br_MetaVar, nextByte, readList_eq, decode1]
      cases h1 : readVec r with
      | none => simp [reads]
      | some p1 =>
      obtain ⟨ef, r1⟩ := p1
      cases h2 : readVec r1 with
      | none => simp [reads, h2]
      | some p2 =>
      obtain ⟨sf, r2⟩ := p2
      cases h3 : readVec r2 with
      | none => simp [reads, h2, h3]
      | some p3 =>
      obtain ⟨ps, r3⟩ := p3
      cases h4 : readVec r3 with
      | none => simp [reads, h2, h3, h4]
      | some p4 =>
      obtain ⟨ns, r4⟩ := p4
      cases h5 : readVec r4 with
      | none => simp [reads, h2, h3, h4, h5]
      | some p5 =>
      obtain ⟨hs, r5⟩ := p5
      simp [reads, restOK, h2, h3, h4, h5]
  rw [if_neg h9]
  by_cases h137 : b = 137
  · subst h137; rw [if_pos rfl]; cases r <;> simp [reads, restOK, Gen.Deser.br_CleanMetaVar, nextByte, decode1]
  rw [if_neg h137]
  by_cases h12 : b = 12
  · subst h12; rw [if_pos rfl]; simp [reads, restOK, Gen.Deser.br_Prop1, decode1]
  rw [if_neg h12]
  by_cases h13 : b = 13
  · subst h13; rw [if_pos rfl]; simp [reads, restOK, Gen.Deser.br_Prop2, decode1]
  rw [if_neg h13]
  by_cases h14 : b = 14
  · subst h14; rw [if_pos rfl]; simp [reads, restOK, Gen.Deser.br_Prop3, decode1]
  rw [if_neg h14]
  by_cases h21 : b = 21
  · subst h21; rw [if_pos rfl]; simp [reads, restOK, Gen.Deser.br_ModusPonens, decode1]
  rw [if_neg h21]
  by_cases h15 : b = 15
  · subst h15; rw [if_pos rfl]; simp [reads, restOK, Gen.Deser.br_Quantifier, decode1]
  rw [if_neg h15]
  by_cases h22 : b = 22
  · subst h22
    rw [if_pos rfl]
    cases r with
    | nil => simp [reads, Gen.Deser.br_Generalization, nextByte, decode1]
    | cons x r =>
      simp only [reads, Gen.Deser.br_Generalization, nextByte, decode1]
      exact restOK_assertThat _ _ _ (restOK_call _ _)
  rw [if_neg h22]
  by_cases h26 : b = 26
  · subst h26
    rw [if_pos rfl]
    cases r with
    | nil => simp [reads, Gen.Deser.br_Instantiate, nextByte, decode1]
    | cons m r =>
      simp only [Gen.Deser.br_Instantiate, nextByte, nextBytes_eq, decode1]
      cases htk : takeN m r with
      | none => simp [reads]
      | some pr =>
        obtain ⟨ids, r'⟩ := pr
        simp only [reads, Option.map_some]
        apply restOK_assertThat
        unfold zipStrict
        apply restOK_ite
        · apply restOK_ite
          · exact restOK_call _ _
          · apply restOK_ite
            · exact restOK_call _ _
            · exact restOK_raise _
        · exact restOK_raise _
  rw [if_neg h26]
  by_cases h27 : b = 27
  · subst h27; rw [if_pos rfl]; simp [reads, restOK, Gen.Deser.br_Pop, decode1]
  rw [if_neg h27]
  by_cases h28 : b = 28
  · subst h28; rw [if_pos rfl]; simp [reads, restOK, Gen.Deser.br_Save, decode1]
  rw [if_neg h28]
  by_cases h29 : b = 29
  · subst h29
    rw [if_pos rfl]
    cases r with
    | nil => simp [reads, Gen.Deser.br_Load, nextByte, decode1]
    | cons x r =>
      simp only [reads, Gen.Deser.br_Load, nextByte, decode1]
      apply restOK_ite
      · exact restOK_raise _
      · exact restOK_call _ _
  rw [if_neg h29]
  by_cases h30 : b = 30
  · subst h30
    rw [if_pos rfl]
    simp only [reads, Gen.Deser.br_Publish, decode1]
    apply restOK_ite
    · exact restOK_assertThat _ _ _ (restOK_call _ _)
    · apply restOK_ite
      · exact restOK_assertThat _ _ _ (restOK_call _ _)
      · apply restOK_ite
        · apply restOK_assertThat
          apply restOK_ifM
          · exact restOK_raise _
          · exact restOK_call _ _
        · exact restOK_noop _
  rw [if_neg h30]
  cases hd : decode1 (b :: r) with
  | none => rfl
  | some p => obtain ⟨i, rest⟩ := p; trivial

theorem exec_rest (n : Nat) (s s' : PySt) (res : Res) (rest rest' : List Nat) (h : restOK res rest)
    (he : exec n s res = some (some (s', rest'))) : rest' = rest := by
  cases res with
  | raise => simp [exec] at he
  | fuel => simp [exec] at he
  | noop r =>
    simp only [exec, Option.some.injEq, Prod.mk.injEq] at he
    simp only [restOK] at h
    rw [← he.2, h]
  | call dc r =>
    simp only [restOK] at h
    subst h
    simp only [exec] at he
    split at he
    · split at he
      · next c hc =>
        cases ht : track1 n s c with
        | none => simp [ht] at he
        | some o =>
          cases o with
          | none => simp [ht] at he
          | some s1 => simp [ht] at he; exact he.2.symm
      · simp at he
    · simp at he

/-! ## 3. whole streams -/

/-- every `Instantiate` of the stream has pairwise different key bytes -/
def NodupKeys (is : List Instr) : Prop := ∀ ids, Instr.instantiate ids ∈ is → ids.Nodup

/-- `PrecheckAgrees` in every state in which the model replays a `Publish` -/
def PrecheckAlong (n : Nat) : PySt → List Instr → Prop
  | _, [] => True
  | s, i :: is => (i = .publish → PrecheckAgrees n s) ∧
      ∀ c s', callOfInstr s i = some c → track1 n s c = some (some s') → PrecheckAlong n s' is

/-- **the loop**: on a decodable stream the generated `while` loop (any iteration bound `f ≥` the number of bytes) is the
model's `replay` of the decoded instructions -/
theorem run_eq_replay (n : Nat) : ∀ (f : Nat) (s : PySt) (bs : List Nat) (is : List Instr), bs.length ≤ f →
    decodeF f bs = some is → NodupKeys is → PrecheckAlong n s is → Gen.Deser.run n f s bs = replay n s is := by
  intro f
  induction f with
  | zero =>
    intro s bs is hlen hd _ _
    cases bs with
    | nil => simp only [decodeF, Option.some.injEq] at hd; subst hd; rfl
    | cons b r => simp at hlen
  | succ f ih =>
    intro s bs is hlen hd hk hp
    cases bs with
    | nil => simp only [decodeF, Option.some.injEq] at hd; subst hd; rfl
    | cons b r =>
      simp only [decodeF] at hd
      cases h1 : decode1 (b :: r) with
      | none => simp [h1] at hd
      | some ir =>
        obtain ⟨i, rest⟩ := ir
        simp only [h1, Option.map_eq_some_iff] at hd
        obtain ⟨is', hd', rfl⟩ := hd
        have hrest : rest.length ≤ f := by
          have := decode1_length h1
          simp only [List.length_cons] at this hlen
          omega
        have hk1 : NodupKeys1 (b :: r) := by
          intro ids rest' hdec
          rw [h1] at hdec
          simp only [Option.some.injEq, Prod.mk.injEq] at hdec
          exact hk ids (by rw [← hdec.1]; simp)
        have hp1 : b = 30 → PrecheckAgrees n s := by
          intro hb
          subst hb
          simp only [decode1, Option.some.injEq, Prod.mk.injEq] at h1
          exact hp.1 h1.1.symm
        have htie := step_tie n s b r hk1 hp1
        simp only [modelStep, h1] at htie
        simp only [Gen.Deser.run, htie, replay]
        cases hc : callOfInstr s i with
        | none => rfl
        | some c =>
          dsimp only
          cases ht : track1 n s c with
          | none => rfl
          | some o =>
            cases o with
            | none => rfl
            | some s' =>
              simp only [Option.map_some, Option.bind_eq_bind, Option.bind_some]
              exact ih s' rest is' hrest hd' (fun ids hm => hk ids (List.mem_cons_of_mem _ hm)) (hp.2 c s' hc ht)

/-- **the deserialiser tie**: on a decodable stream whose `Instantiate` keys are pairwise different (and whose proof-phase
`Publish` prechecks agree with the tracker), `deserialize_instructions` as written in `deserialize.py` is the model
`PySt.deserialize` -/
theorem deserialize_tie (n : Nat) (s : PySt) (bs : List Nat) (is : List Instr) (hd : decode bs = some is)
    (hk : NodupKeys is) (hp : PrecheckAlong n s is) : Gen.Deser.deserialize n s bs = PySt.deserialize n s bs := by
  simp only [Gen.Deser.deserialize, PySt.deserialize, hd]
  exact run_eq_replay n bs.length s bs is (Nat.le_refl _) hd hk hp

/-- on an undecodable stream the loop never completes: it ends in an exception or runs out of fuel -/
theorem run_undecodable (n : Nat) : ∀ (f : Nat) (s : PySt) (bs : List Nat), bs.length ≤ f → decodeF f bs = none →
    Gen.Deser.run n f s bs = some none ∨ Gen.Deser.run n f s bs = none := by
  intro f
  induction f with
  | zero =>
    intro s bs hlen hd
    cases bs with
    | nil => simp [decodeF] at hd
    | cons b r => simp at hlen
  | succ f ih =>
    intro s bs hlen hd
    cases bs with
    | nil => simp [decodeF] at hd
    | cons b r =>
      have hr := step_reads n s b r
      simp only [decodeF] at hd
      simp only [Gen.Deser.run]
      cases h1 : decode1 (b :: r) with
      | none =>
        rw [h1] at hr
        simp only [reads] at hr
        simp [hr, exec]
      | some ir =>
        obtain ⟨i, rest⟩ := ir
        rw [h1] at hr
        simp only [reads] at hr
        simp only [h1, Option.map_eq_none_iff] at hd
        have hrest : rest.length ≤ f := by
          have := decode1_length h1
          simp only [List.length_cons] at this hlen
          omega
        cases he : exec n s (Gen.Deser.step n s b r) with
        | none => exact Or.inr rfl
        | some o =>
          cases o with
          | none => exact Or.inl rfl
          | some p =>
            obtain ⟨s', rest'⟩ := p
            have := exec_rest n s s' _ rest rest' hr he
            subst this
            exact ih s' rest' hrest hd

/-- **undecodable streams fail either way**: the model (which decodes the whole stream first) answers "exception"; the Python
loop, which makes the calls of the decodable head before it meets the undecodable instruction, ends in an exception — or,
in the fuelled model of `==`, runs out of fuel in one of those calls -/
theorem deserialize_undecodable (n : Nat) (s : PySt) (bs : List Nat) (hd : decode bs = none) :
    PySt.deserialize n s bs = some none ∧
    (Gen.Deser.deserialize n s bs = some none ∨ Gen.Deser.deserialize n s bs = none) :=
  ⟨by simp [PySt.deserialize, hd], run_undecodable n bs.length s bs (Nat.le_refl _) hd⟩

/-! ### the precheck hypothesis: vacuous outside the proof phase, and implied by definite answers on expanded patterns -/

theorem track1_phase (n : Nat) (s s' : PySt) (c : Call) (h1 : c ≠ .intoClaim) (h2 : c ≠ .intoProof)
    (h : track1 n s c = some (some s')) : s'.phase = s.phase := by
  cases c <;> simp only [track1] at h
  case intoClaim => exact absurd rfl h1
  case intoProof => exact absurd rfl h2
  case load t =>
    simp only [Option.bind_eq_bind, Option.bind_eq_some_iff] at h
    obtain ⟨o, _, h⟩ := h
    cases o with
    | none => simp at h
    | some i => simp only [Option.pure_def, Option.some.injEq] at h; subst h; rfl
  case esubst x =>
    split at h
    · split at h
      · simp only [Option.some.injEq] at h; subst h; rfl
      · simp at h
    · simp at h
  case ssubst x =>
    split at h
    · split at h
      · simp only [Option.some.injEq] at h; subst h; rfl
      · simp at h
    · simp at h
  case mp =>
    split at h
    · simp only [Option.bind_eq_bind, Option.bind_eq_some_iff] at h
      obtain ⟨o, _, h⟩ := h
      cases o with
      | none => simp at h
      | some i => simp only [Option.pure_def, Option.some.injEq] at h; subst h; rfl
    · simp at h
  case gen x =>
    split at h
    · simp only [Option.bind_eq_bind, Option.bind_eq_some_iff] at h
      obtain ⟨o, _, h⟩ := h
      cases o with
      | none => simp at h
      | some i => simp only [Option.pure_def, Option.some.injEq] at h; subst h; rfl
    · simp at h
  case instantiate keys =>
    split at h
    · split at h
      · simp only [Option.some.injEq] at h; subst h; rfl
      · split at h
        · simp at h
        · simp only [Option.bind_eq_bind, Option.bind_eq_some_iff, Option.pure_def, Option.some.injEq] at h
          obtain ⟨o, _, h⟩ := h
          subst h; rfl
    · simp at h
  case instantiatePattern keys =>
    split at h
    · split at h
      · simp at h
      · simp only [Option.some.injEq] at h; subst h; rfl
    · simp at h
  case publishProof =>
    split at h
    · simp only [Option.bind_eq_bind, Option.bind_eq_some_iff] at h
      obtain ⟨o, _, h⟩ := h
      cases o with
      | false => simp at h
      | true => simp only [if_true, Option.pure_def, Option.some.injEq] at h; subst h; rfl
    · simp at h
  all_goals first
    | (simp only [Option.some.injEq] at h; subst h; rfl)
    | (split at h <;> first
        | (simp only [Option.some.injEq] at h; subst h; rfl)
        | (simp at h; done))

theorem callOfInstr_ne (s : PySt) (i : Instr) (c : Call) (h : callOfInstr s i = some c) :
    c ≠ .intoClaim ∧ c ≠ .intoProof := by
  cases i <;> simp only [callOfInstr] at h
  case instantiate ids => split at h <;> simp at h <;> subst h <;> simp
  case load j => simp only [Option.map_eq_some_iff] at h; obtain ⟨t, _, rfl⟩ := h; simp
  case publish => split at h <;> simp at h <;> subst h <;> simp
  all_goals (simp at h; try subst h; simp)

/-- the deserialiser's calls never change the phase, so a Gamma or Claim stream needs no precheck hypothesis -/
theorem precheckAlong_of_phase (n : Nat) : ∀ (is : List Instr) (s : PySt), s.phase ≠ .proof → PrecheckAlong n s is := by
  intro is
  induction is with
  | nil => intro s _; trivial
  | cons i is ih =>
    intro s hph
    refine ⟨fun _ t b st c cs h => absurd h hph, ?_⟩
    intro c s' hc ht
    obtain ⟨h1, h2⟩ := callOfInstr_ne s i c hc
    exact ih s' (by rw [track1_phase n s s' c h1 h2 ht]; exact hph)

theorem deserialize_tie_gamma_claim (n : Nat) (s : PySt) (bs : List Nat) (is : List Instr) (hd : decode bs = some is)
    (hk : NodupKeys is) (hph : s.phase ≠ .proof) : Gen.Deser.deserialize n s bs = PySt.deserialize n s bs :=
  deserialize_tie n s bs is hd hk (precheckAlong_of_phase n is s hph)

/-- when both comparisons are definite and the two patterns are in the shape on which the fuelled `==` is correct
(`NPat.peqF_symm`), the precheck agrees with the tracker's test -/
theorem precheckAgrees_of_shape (n : Nat) (s : PySt)
    (h : ∀ t b st c cs, s.stack = (.proved t, b) :: st → s.claims = c :: cs →
      t.Shape = true ∧ c.Shape = true ∧ (NPat.peqF n c t).isSome ∧ (NPat.peqF n t c).isSome) : PrecheckAgrees n s := by
  intro t b st c cs _ hst hcl
  obtain ⟨ht, hc, h1, h2⟩ := h t b st c cs hst hcl
  cases e1 : NPat.peqF n c t with
  | none => simp [e1] at h1
  | some r =>
    cases e2 : NPat.peqF n t c with
    | none => simp [e2] at h2
    | some r' => rw [NPat.peqF_symm n n c t r r' hc ht e1 e2]

/-! ## 4. the finding: repeated `Instantiate` keys -/

/-- `CleanMetaVar 0; CleanMetaVar 1; CleanMetaVar 2; Instantiate [2, 2]` -/
def dupKeys : List Nat := [137, 0, 137, 1, 137, 2, 26, 2, 2, 2]

/-- **KF (deserialiser model)**: on the stream `dupKeys` — an `Instantiate` whose two key bytes are equal — the Python code
builds `delta = {2: phi1}` (`dict(..)` merges the repeated key), so `instantiate_pattern` takes one plug and leaves `phi0`
on the stack (two entries); the hand-written model passes the key list `[2, 2]` to the tracker, which takes two plugs
(one entry).  The real `deserialize_instructions` ends with the stack `[phi0, phi2[{2: phi1}]]`. -/
theorem model_differs_on_duplicate_keys :
    ((Gen.Deser.deserialize 5 (PySt.init []) dupKeys).bind id).map (·.stack.length) = some 2 ∧
    ((PySt.deserialize 5 (PySt.init []) dupKeys).bind id).map (·.stack.length) = some 1 ∧
    decode dupKeys = some [.cleanmv 0, .cleanmv 1, .cleanmv 2, .instantiate [2, 2]] := by
  decide

end DeserTie

#print axioms DeserTie.step_tie
#print axioms DeserTie.step_reads
#print axioms DeserTie.run_eq_replay
#print axioms DeserTie.deserialize_tie
#print axioms DeserTie.deserialize_undecodable
#print axioms DeserTie.deserialize_tie_gamma_claim
#print axioms DeserTie.precheckAgrees_of_shape
#print axioms DeserTie.model_differs_on_duplicate_keys
#print axioms DeserTie.track1_instantiate_uses
