import Pi2.ClauseTriv
/-!
# The proof objects of the clause utilities and of the resolution proof builder conclude what they advertise, and replay

`Pi2/Gen/ClauseProofs.lean` is regenerated on every run from `tautology.py` (`vlib/transclause.py`): `id_to_metavar`,
`foldl_op` / `foldr_op`, `clause_to_pattern`, `clause_conjunctionto_pattern`, `conjunction_implies_nth`, `ac_move_to_front`
(with its nested `unroll`), `or_move_to_front` / `and_move_to_front`, `reduce_n_or_duplicates_at_front`, `simplify_clause`,
`merge_clauses`, `prove_trivial_clause`, `build_proof_from_hint` — with ALL their statements, every `ProofThunk` expression
over a thunk algebra.

* `Pi2/ClauseBase.lean`: the library lemmas these functions call, on conclusions (`lib algCS ix_<lemma> .. = some ..`, from
  `C10.conc_stable`; `and_cong` / `or_cong` have no docstring: their schema is stated and checked there); `id_to_metavar`,
  `foldr_op`, `clause_to_pattern`, `clause_conjunctionto_pattern`, `conjunction_implies_nth_C`, `merge_clauses_C`, `reduce_n_C`.
* `Pi2/ClauseMove.lean`: `unroll_C`, `ac_move_to_front_C`, `or_move_to_front_C`, `and_move_to_front_C`.
* `Pi2/ClauseTriv.lean`: `simplify_clause_C`, `prove_trivial_clause_C` (equations with the advertised pattern, at every
  sufficient fuel); fuel monotonicity (`*_mono`); `lib_resolution_step_inv`.
* here: at ANY fuel (`*_any`); `prove_trivial_clause_any`, `build_proof_from_hint_any`: whatever they return concludes the
  clause pattern / the implication `clause_conjunctionto_pattern(terms) -> clause_to_pattern(r)` — for EVERY clause and EVERY
  hint; the homomorphism `algGS → algCS` of every generated function (`*_hom`), hence `ptc_spec`, `bpfh_spec`: the two
  hypotheses of `StageThm.prove_tautology_proofs` are discharged by the generated functions.
-/
set_option linter.unusedSimpArgs false
open Pat

namespace ClauseThm
open Lem StageSup Gen.PyTaut TautSup TautTie StageThm Gen.Clause

/-! ## at ANY fuel: whatever a utility returns is what it returns with sufficient fuel -/

theorem mapM_id_none {τ} (A : SAlg τ) (cl : List Int) (h : ¬ Res.NoZero cl) :
    List.mapM (fun id => do let t1_ ← id_to_metavar A id; pure t1_) cl = none := by
  cases hm : List.mapM (fun id => do let t1_ ← id_to_metavar A id; pure t1_) cl with
  | none => rfl
  | some ps => exact absurd (mapM_id_any A cl ps hm).1 h

theorem clause_to_pattern_zero {τ} (A : SAlg τ) (F : Nat) (cl : List Int) (h : ¬ Res.NoZero cl) :
    clause_to_pattern A F cl = none := by
  cases cl with
  | nil => exact absurd (fun x hx => by simp at hx) h
  | cons x r => simp [clause_to_pattern, mapM_id_none A _ h]

theorem clause_to_pattern_any (F : Nat) (cl : List Int) (p : Pat) (h : clause_to_pattern algCS F cl = some p) :
    Res.NoZero cl ∧ p = clausePat cl := by
  by_cases hz : Res.NoZero cl
  · have h1 := le_of_step (fun n (x : List Int) => clause_to_pattern algCS n x) (fun n x => clause_to_pattern_mono algCS n x)
      F (max F cl.length) cl (Nat.le_max_left _ _) p h
    simp only [clause_to_pattern_C algCS cl _ hz (Nat.le_max_right _ _)] at h1
    exact ⟨hz, (Option.some.inj h1).symm⟩
  · rw [clause_to_pattern_zero algCS F cl hz] at h; cases h

theorem mapM_none_of_mem {α β} (f : α → Option β) : ∀ (l : List α) (x : α), x ∈ l → f x = none → List.mapM f l = none := by
  intro l
  induction l with
  | nil => intro x hx; simp at hx
  | cons a l ih =>
    intro x hx hf
    rw [List.mapM_cons]
    simp only [List.mem_cons] at hx
    rcases hx with rfl | hx
    · simp [hf]
    · cases f a with
      | none => rfl
      | some y => simp [ih x hx hf]

theorem le_sum_of_mem : ∀ (l : List Nat) (x : Nat), x ∈ l → x ≤ l.sum := by
  intro l
  induction l with
  | nil => intro x hx; simp at hx
  | cons a l ih =>
    intro x hx
    simp only [List.mem_cons] at hx
    simp only [List.sum_cons]
    rcases hx with rfl | hx
    · omega
    · have := ih x hx; omega

theorem clause_conjunctionto_pattern_any (F : Nat) (cls : List (List Int)) (t : Pat)
    (h : clause_conjunctionto_pattern algCS F cls = some t) : t = clausesPat cls := by
  by_cases hz : ∀ cl ∈ cls, Res.NoZero cl
  · let G := F + cls.length + (cls.map List.length).sum
    have h1 := le_of_step (fun n (x : List (List Int)) => clause_conjunctionto_pattern algCS n x)
      (fun n x => clause_conjunctionto_pattern_mono algCS n x) F G cls (by omega) t h
    have hl : ∀ cl ∈ cls, cl.length ≤ G := by
      intro cl hcl
      have := le_sum_of_mem (cls.map List.length) cl.length (List.mem_map.mpr ⟨cl, hcl, rfl⟩)
      omega
    simp only [clause_conjunctionto_pattern_C algCS cls G hz hl (by omega)] at h1
    exact (Option.some.inj h1).symm
  · exfalso
    have hex : ∃ cl, cl ∈ cls ∧ ¬ Res.NoZero cl := by
      apply Classical.byContradiction
      intro hn
      apply hz
      intro cl hcl
      apply Classical.byContradiction
      intro hnz
      exact hn ⟨cl, hcl, hnz⟩
    obtain ⟨cl, hcl, hnz⟩ := hex
    have hne : cls ≠ [] := List.ne_nil_of_mem hcl
    have hm := mapM_none_of_mem (fun cl => do let t1_ ← clause_to_pattern algCS F cl; pure t1_) cls cl hcl
      (by simp [clause_to_pattern_zero algCS F cl hnz])
    cases cls with
    | nil => exact hne rfl
    | cons c r => simp [clause_conjunctionto_pattern, hm] at h

theorem conjunction_implies_nth_any (F : Nat) (ps : List Pat) (n : Int) (p : Pat)
    (h : conjunction_implies_nth algCS F (foldrP andP ps) n (ps.length : Int) = some p) :
    ∃ (k : Nat) (hk : k < ps.length), n = (k : Int) ∧ p = .imp (foldrP andP ps) ps[k] := by
  have hn : 0 ≤ n ∧ n < (ps.length : Int) := by
    cases F with
    | zero => simp [conjunction_implies_nth] at h
    | succ f =>
      by_cases hc : 0 ≤ n ∧ n < (ps.length : Int)
      · exact hc
      · exfalso
        have : (decide ((0 : Int) ≤ n) && decide (n < (ps.length : Int))) = false := by
          simp only [Bool.and_eq_false_iff, decide_eq_false_iff_not]
          by_cases h0 : 0 ≤ n
          · exact Or.inr (fun h1 => hc ⟨h0, h1⟩)
          · exact Or.inl h0
        simp [conjunction_implies_nth, pyAssert, this] at h
  obtain ⟨k, rfl⟩ : ∃ k : Nat, n = (k : Int) := ⟨n.toNat, by omega⟩
  have hk : k < ps.length := by omega
  have h1 := le_of_step (fun m (x : Pat × Int × Int) => conjunction_implies_nth algCS m x.1 x.2.1 x.2.2)
    (fun m x => conjunction_implies_nth_mono algCS m x.1 x.2.1 x.2.2) F (max F ps.length)
    (foldrP andP ps, (k : Int), (ps.length : Int)) (Nat.le_max_left _ _) p h
  simp only [conjunction_implies_nth_C ps k _ hk (Nat.le_max_right _ _)] at h1
  exact ⟨k, hk, rfl, (Option.some.inj h1).symm⟩

theorem merge_clauses_any (F : Nat) (ls : List Pat) (tr : Pat) (m : Pat) (hls : ls ≠ [])
    (h : merge_clauses algCS F (foldrP orP ls) (ls.length : Int) tr = some m) :
    m = equivP (orP (foldrP orP ls) tr) (foldrP orP (ls ++ [tr])) := by
  have h1 := le_of_step (fun n (x : Pat × Int × Pat) => merge_clauses algCS n x.1 x.2.1 x.2.2)
    (fun n x => merge_clauses_mono algCS n x.1 x.2.1 x.2.2) F (max F ls.length)
    (foldrP orP ls, (ls.length : Int), tr) (Nat.le_max_left _ _) m h
  simp only [merge_clauses_C tr ls _ hls (Nat.le_max_right _ _)] at h1
  exact (Option.some.inj h1).symm

theorem simplify_clause_zero {τ} (A : SAlg τ) (F : Nat) (cl : List Int) (x : Int) (h : ¬ Res.NoZero cl) :
    Gen.Clause.simplify_clause A F cl x = none := by
  have e := simplify_for1_C A x cl [] [] []
  have hr : pyRange (pyLen cl) = (List.range' 0 cl.length).map fun (k : Nat) => (k : Int) := by
    simp [pyRange, pyLen, List.range_eq_range']
  simp only [List.nil_append, List.length_nil] at e
  simp only [Gen.Clause.simplify_clause, hr, e, Option.pure_def, Option.bind_eq_bind, Option.bind_some,
    clause_to_pattern_zero A F cl h, mapM_id_none A cl h, Option.bind_none]
  split <;> rfl

theorem simplify_clause_any (F : Nat) (cl : List Int) (x : Int) (cl' : List Int) (p : Pat)
    (h : Gen.Clause.simplify_clause algCS F cl x = some (cl', p)) :
    cl' = simplified cl x ∧ p = equivP (clausePat cl) (clausePat (simplified cl x)) := by
  by_cases hz : Res.NoZero cl
  · have h1 := le_of_step (fun n (y : List Int × Int) => Gen.Clause.simplify_clause algCS n y.1 y.2)
      (fun n y => simplify_clause_mono algCS n y.1 y.2) F (max F (moveFuel cl.length)) (cl, x) (Nat.le_max_left _ _) _ h
    simp only [simplify_clause_C cl x _ hz (Nat.le_max_right _ _)] at h1
    have := Option.some.inj h1
    simp only [Prod.mk.injEq] at this
    exact ⟨this.1.symm, this.2.symm⟩
  · rw [simplify_clause_zero algCS F cl x hz] at h; cases h

theorem mapM_id_none' {τ} (A : SAlg τ) (cl : List Int) (h : ¬ Res.NoZero cl) :
    List.mapM (fun x => id_to_metavar A x) cl = none := by
  have := mapM_id_none A cl h
  simpa using this

/-- **`prove_trivial_clause`, at ANY fuel, on EVERY clause**: whatever it returns concludes `clause_to_pattern(cl)` -/
theorem prove_trivial_clause_any (F : Nat) (cl : List Int) (p : Pat)
    (h : Gen.Clause.prove_trivial_clause algCS F cl = some p) : p = clausePat cl := by
  cases hfind : (pyCombinations2 (pyEnumerate cl)).find? clash with
  | none =>
    simp [Gen.Clause.prove_trivial_clause, ptc_for1_C, hfind] at h
  | some pr =>
    obtain ⟨A, B, C, x1, x2, rfl, hsum, rfl⟩ := find_clash cl pr hfind
    by_cases hx : x1 = 0
    · subst hx
      simp [Gen.Clause.prove_trivial_clause, ptc_for1_C, hfind, ClauseSup.pyAbs, id_to_metavar_zero] at h
    · by_cases hz : Res.NoZero (A ++ x1 :: (B ++ x2 :: C))
      · have h1 := le_of_step (fun n (x : List Int) => Gen.Clause.prove_trivial_clause algCS n x)
          (fun n x => prove_trivial_clause_mono algCS n x) F (max F (moveFuel (A ++ x1 :: (B ++ x2 :: C)).length)) _
          (Nat.le_max_left _ _) p h
        simp only [ptc_core A B C x1 x2 _ hfind hsum hx hz (Nat.le_max_right _ _)] at h1
        exact (Option.some.inj h1).symm
      · exfalso
        have habs : ClauseSup.pyAbs x1 ≠ 0 := by unfold ClauseSup.pyAbs; omega
        have hid := id_to_metavar_C algCS (ClauseSup.pyAbs x1) habs
        by_cases h2 : (A ++ x1 :: (B ++ x2 :: C)).length = 2
        · have hA : A = [] := by
            apply List.eq_nil_of_length_eq_zero; simp at h2; omega
          have hB : B = [] := by
            apply List.eq_nil_of_length_eq_zero; simp at h2; omega
          have hC : C = [] := by
            apply List.eq_nil_of_length_eq_zero; simp at h2; omega
          subst hA hB hC
          apply hz
          intro y hy
          simp only [List.nil_append, List.mem_cons, List.not_mem_nil, or_false] at hy
          rcases hy with rfl | rfl <;> omega
        · have hl2 : ¬ (pyLen (A ++ x1 :: (B ++ x2 :: C)) == (2 : Int)) = true := by
            simp only [pyLen, beq_iff_eq]; omega
          simp [Gen.Clause.prove_trivial_clause, ptc_for1_C, hfind, hid, hl2, mapM_id_none' algCS _ hz] at h

/-! ## `build_proof_from_hint`, at ANY fuel, for EVERY hint -/

theorem clausePat_append (L R : List Int) (hL : L ≠ []) (hR : R ≠ []) :
    foldrP orP (L.map idPat ++ [clausePat R]) = clausePat (L ++ R) := by
  rw [clausePat_eq R hR, clausePat_eq (L ++ R) (by simp [hL]), List.map_append,
    foldrP_append orP _ _ (by simp), foldrP_append orP _ _ (by simpa using hR)]
  rfl

theorem id_to_metavar_any {τ} (A : SAlg τ) (i : Int) (t : Pat) (h : id_to_metavar A i = some t) : t = idPat i := by
  by_cases hi : i = 0
  · subst hi; rw [id_to_metavar_zero] at h; cases h
  · rw [id_to_metavar_C A i hi] at h; exact (Option.some.inj h).symm

theorem rstep_any (C X Y P1 P2 D q : Pat)
    (h : lib algCS ix_resolution_step [] [.imp C X, .imp C Y, .imp P1 (.imp P2 D)] = some q) : q = .imp C D := by
  obtain ⟨a, b, c, d, h1, _, h3, rfl⟩ := lib_resolution_step_inv _ _ _ _ h
  simp only [Pat.imp.injEq] at h1 h3
  rw [h1.1, h3.2.2]

/-- **`build_proof_from_hint`, at ANY fuel, for EVERY hint, key and clause list**: whatever it returns — a clause `r` and a
proof — the proof concludes `clause_conjunctionto_pattern(terms) -> clause_to_pattern(r)` -/
theorem build_proof_from_hint_any : ∀ (F : Nat) (hint : StageThm.Hint) (cl : FrozenSet) (terms : List (List Int)) (r : List Int) (p : Pat),
    Gen.Clause.build_proof_from_hint algCS F hint cl terms = some (r, p) →
    p = .imp (clausesPat terms) (clausePat r) := by
  intro F
  induction F with
  | zero => intro hint cl terms r p h; simp [Gen.Clause.build_proof_from_hint] at h
  | succ f ih =>
    intro hint cl terms r p h
    rw [Gen.Clause.build_proof_from_hint] at h
    simp only [Option.pure_def, Option.bind_eq_bind] at h
    cases hg : dictGet hint cl with
    | none => simp [hg] at h
    | some res =>
      cases res with
      | inr idx =>
        simp only [hg, Option.bind_some] at h
        cases h1 : Gen.Clause.clause_conjunctionto_pattern algCS f terms with
        | none => simp [h1] at h
        | some t =>
          have ht := clause_conjunctionto_pattern_any f terms t h1
          subst ht
          cases h2 : pyIndex terms idx with
          | none => simp [h1, h2] at h
          | some r' =>
            have hne : terms ≠ [] := by
              intro e; subst e; simp [pyIndex] at h2
            cases h3 : Gen.Clause.conjunction_implies_nth algCS f (clausesPat terms) idx (pyLen terms) with
            | none => simp [h1, h2, h3] at h
            | some q =>
              simp only [h1, h2, h3, Option.bind_some, Option.some.injEq, Prod.mk.injEq] at h
              obtain ⟨rfl, rfl⟩ := h
              rw [clausesPat_eq terms hne] at h3 ⊢
              have hl : pyLen terms = ((terms.map clausePat).length : Int) := by simp [pyLen]
              rw [hl] at h3
              obtain ⟨k, hk, rfl, rfl⟩ := conjunction_implies_nth_any f (terms.map clausePat) idx q h3
              have hk' : k < terms.length := by simpa using hk
              rw [pyIndex_nat terms k hk'] at h2
              cases h2
              simp
      | inl src =>
        obtain ⟨L0, R0, r0⟩ := src
        simp only [hg, Option.bind_some, ResolutionHintSource.left_set, ResolutionHintSource.right_set,
          ResolutionHintSource.resolvant] at h
        cases h2 : Gen.Clause.id_to_metavar algCS r0 with
        | none => simp [h2] at h
        | some rt =>
          have hrt := id_to_metavar_any algCS r0 rt h2
          cases h3 : Gen.Clause.build_proof_from_hint algCS f hint L0 terms with
          | none => simp [h2, h3] at h
          | some t3 =>
            obtain ⟨tl0, pl⟩ := t3
            have hpl := ih hint L0 terms tl0 pl h3
            cases h4 : Gen.Clause.build_proof_from_hint algCS f hint R0 terms with
            | none => simp [h2, h3, h4] at h
            | some t4 =>
              obtain ⟨tr0, pr⟩ := t4
              have hpr := ih hint R0 terms tr0 pr h4
              cases h5 : Gen.Clause.simplify_clause algCS f tl0 (-r0) with
              | none => simp [h2, h3, h4, h5] at h
              | some t5 =>
                obtain ⟨tl, sl⟩ := t5
                obtain ⟨e1, e2⟩ := simplify_clause_any f tl0 (-r0) tl sl h5
                rw [← e1] at e2
                cases h6 : Gen.Clause.simplify_clause algCS f tr0 r0 with
                | none => simp [h2, h3, h4, h5, h6] at h
                | some t6 =>
                  obtain ⟨tr, sr⟩ := t6
                  obtain ⟨e3, e4⟩ := simplify_clause_any f tr0 r0 tr sr h6
                  rw [← e3] at e4
                  clear e1 e3
                  subst hpl hpr e2 e4
                  simp only [h2, h3, h4, h5, h6, Option.bind_some] at h
                  cases tl with
                  | nil => simp [pyIndex] at h
                  | cons a L =>
                    cases tr with
                    | nil => simp [pyIndex, pyAssert] at h
                    | cons b R =>
                      simp only [pyIndex_cons_zero, Option.bind_some, pySliceFrom_one, lib_and_l_equiv, lib_imp_transitivity] at h
                      by_cases ha : (a == -r0) = true
                      · by_cases hb : (b == r0) = true
                        · by_cases hc : (fsOfList (L ++ R) == cl) = true
                          · simp only [ha, hb, hc, pyAssert, if_true, Option.bind_some] at h
                            have hL0 : ∀ (x : Int) (l : List Int), (pyLen (x :: l) == (0 : Int)) = false := by
                              intro x l; simp [pyLen]; omega
                            have hN0 : (pyLen ([] : List Int) == (0 : Int)) = true := by simp [pyLen]
                            cases L with
                            | nil =>
                              cases R with
                              | nil =>
                                simp only [hN0, hL0] at h
                                simp only [show ((true == false) && (true == false)) = false from rfl,
                                  show ((true == false) && (true == true)) = false from rfl,
                                  show ((true == true) && (true == false)) = false from rfl,
                                  Bool.false_eq_true, if_false, lib_resolution_base, Option.bind_some] at h
                                obtain ⟨q, h7, h'⟩ := Option.bind_eq_some_iff.mp h
                                simp only [Option.some.injEq, Prod.mk.injEq] at h'
                                obtain ⟨rfl, rfl⟩ := h'
                                rw [rstep_any _ _ _ _ _ _ _ h7]; rfl
                              | cons r1 R' =>
                                simp only [hN0, hL0] at h
                                simp only [show ((true == false) && (false == false)) = false from rfl,
                                  show ((true == false) && (false == true)) = false from rfl,
                                  show ((true == true) && (false == false)) = true from rfl,
                                  Bool.false_eq_true, if_false, if_true, Option.bind_some] at h
                                cases h8 : clause_to_pattern algCS f (r1 :: R') with
                                | none => simp [h8] at h
                                | some cR =>
                                  have := (clause_to_pattern_any f _ cR h8).2
                                  subst this
                                  simp only [h8, Option.bind_some, lib_resolution_r] at h
                                  obtain ⟨q, h7, h'⟩ := Option.bind_eq_some_iff.mp h
                                  simp only [Option.some.injEq, Prod.mk.injEq] at h'
                                  obtain ⟨rfl, rfl⟩ := h'
                                  rw [rstep_any _ _ _ _ _ _ _ h7]; rfl
                            | cons l1 L' =>
                              cases R with
                              | nil =>
                                simp only [hN0, hL0] at h
                                simp only [show ((false == false) && (true == false)) = false from rfl,
                                  show ((false == false) && (true == true)) = true from rfl,
                                  Bool.false_eq_true, if_false, if_true, Option.bind_some] at h
                                cases h8 : clause_to_pattern algCS f (l1 :: L') with
                                | none => simp [h8] at h
                                | some cL =>
                                  have := (clause_to_pattern_any f _ cL h8).2
                                  subst this
                                  simp only [h8, Option.bind_some, lib_resolution_l] at h
                                  obtain ⟨q, h7, h'⟩ := Option.bind_eq_some_iff.mp h
                                  simp only [Option.some.injEq, Prod.mk.injEq] at h'
                                  obtain ⟨rfl, rfl⟩ := h'
                                  rw [rstep_any _ _ _ _ _ _ _ h7]; simp
                              | cons r1 R' =>
                                simp only [hL0] at h
                                simp only [show ((false == false) && (false == false)) = true from rfl, if_true, Option.bind_some] at h
                                cases h8 : clause_to_pattern algCS f (l1 :: L') with
                                | none => simp [h8] at h
                                | some cL =>
                                  have := (clause_to_pattern_any f _ cL h8).2
                                  subst this
                                  cases h9 : clause_to_pattern algCS f (r1 :: R') with
                                  | none => simp [h8, h9] at h
                                  | some cR =>
                                    have := (clause_to_pattern_any f _ cR h9).2
                                    subst this
                                    simp only [h8, h9, Option.bind_some, lib_resolution] at h
                                    have hcl : clausePat (l1 :: L') = foldrP orP ((l1 :: L').map idPat) := clausePat_eq _ (by simp)
                                    have hlen : pyLen (l1 :: L') = (((l1 :: L').map idPat).length : Int) := by simp [pyLen]
                                    cases h10 : merge_clauses algCS f (clausePat (l1 :: L')) (pyLen (l1 :: L')) (clausePat (r1 :: R')) with
                                    | none => simp [h10] at h
                                    | some mg =>
                                      have hmg := h10
                                      rw [hcl, hlen] at hmg
                                      have := merge_clauses_any f _ _ mg (by simp) hmg
                                      rw [← hcl, clausePat_append _ _ (by simp) (by simp)] at this
                                      subst this
                                      simp only [h10, Option.bind_some, lib_and_l_equiv, lib_long_imp_trans] at h
                                      obtain ⟨q, h7, h'⟩ := Option.bind_eq_some_iff.mp h
                                      simp only [Option.some.injEq, Prod.mk.injEq] at h'
                                      obtain ⟨rfl, rfl⟩ := h'
                                      rw [rstep_any _ _ _ _ _ _ _ h7]
                          · simp [ha, hb, hc, pyAssert] at h
                        · simp [ha, hb, pyAssert] at h
                      · simp [ha, pyAssert] at h

/-! ## from conclusions to proof trees: the homomorphism `GTh.conc : algGS → algCS` of the clause utilities -/

section Indep
variable {τ σ : Type} (A : SAlg τ) (B : SAlg σ)

theorem id_to_metavar_indep (i : Int) : id_to_metavar A i = id_to_metavar B i := rfl

theorem foldr_op_indep : ∀ (n : Nat) (op : Pat → Pat → Pat) (l : List Pat) (s e : Int),
    foldr_op A n op l s e = foldr_op B n op l s e := by
  intro n
  induction n with
  | zero => intro op l s e; rfl
  | succ n ih => intro op l s e; simp only [foldr_op, ih]

theorem clause_to_pattern_indep (n : Nat) (cl : List Int) : clause_to_pattern A n cl = clause_to_pattern B n cl := by
  simp only [clause_to_pattern, foldr_op_indep A B, id_to_metavar_indep A B]

theorem clause_conjunctionto_pattern_indep (n : Nat) (cls : List (List Int)) :
    clause_conjunctionto_pattern A n cls = clause_conjunctionto_pattern B n cls := by
  simp only [clause_conjunctionto_pattern, foldr_op_indep A B, clause_to_pattern_indep A B]

theorem ac_for1_indep : ∀ (l : List Int) (sp : List Int), ac_move_to_front_for1 A l sp = ac_move_to_front_for1 B l sp := by
  intro l
  induction l with
  | nil => intro sp; rfl
  | cons i l ih => intro sp; simp only [ac_move_to_front_for1, ih]

theorem simplify_for1_indep (cl : List Int) (x : Int) : ∀ (l pos str : List Int),
    Gen.Clause.simplify_clause_for1 A cl x l pos str = Gen.Clause.simplify_clause_for1 B cl x l pos str := by
  intro l
  induction l with
  | nil => intro pos str; rfl
  | cons i l ih => intro pos str; simp only [Gen.Clause.simplify_clause_for1, ih]

theorem ptc_for1_indep : ∀ (l : List ((Int × Int) × (Int × Int))) (a : Option Bool) (b : Option Int) (c : Option (List Int)),
    prove_trivial_clause_for1 A l a b c = prove_trivial_clause_for1 B l a b c := by
  intro l
  induction l with
  | nil => intro a b c; rfl
  | cons p l ih =>
    intro a b c
    obtain ⟨⟨i1, x1⟩, ⟨i2, x2⟩⟩ := p
    simp only [prove_trivial_clause_for1, ih]

end Indep

attribute [local irreducible] StageSup.lib

instance : Proj Pat Pat := ⟨id⟩

theorem conjunction_implies_nth_hom : ∀ (n : Nat) (term : Pat) (k l : Int),
    (conjunction_implies_nth algGS n term k l).map Proj.proj = conjunction_implies_nth algCS n term k l := by
  intro n
  induction n with
  | zero => intro term k l; rfl
  | succ n ih =>
    intro term k l
    simp only [conjunction_implies_nth, Option.pure_def, Option.bind_eq_bind]
    repeat' first
      | hstep
      | (apply hb (ih _ _ _); intro t)

theorem merge_clauses_hom : ∀ (n : Nat) (tl : Pat) (k : Int) (tr : Pat),
    (merge_clauses algGS n tl k tr).map Proj.proj = merge_clauses algCS n tl k tr := by
  intro n
  induction n with
  | zero => intro tl k tr; rfl
  | succ n ih =>
    intro tl k tr
    simp only [merge_clauses, Option.pure_def, Option.bind_eq_bind]
    repeat' first
      | hstep
      | (apply hb (ih _ _ _); intro t)

section UnrollHom
variable (assocG : Pat → Pat → Pat → Option GTh) (assocC : Pat → Pat → Pat → Option Pat)
  (commG : Pat → Pat → Option GTh) (commC : Pat → Pat → Option Pat)
  (congG : GTh → GTh → Option GTh) (congC : Pat → Pat → Option Pat)
  (op : Pat → Pat → Pat) (extract : Pat → Option (List Pat))
  (revG : Pat → Pat → Pat → Option GTh) (revC : Pat → Pat → Pat → Option Pat)
  (hassoc : ∀ a b c, (assocG a b c).map Proj.proj = assocC a b c)
  (hcomm : ∀ a b, (commG a b).map Proj.proj = commC a b)
  (hcong : ∀ t1 t2 : GTh, (congG t1 t2).map Proj.proj = congC t1.conc t2.conc)
  (hrev : ∀ a b c, (revG a b c).map Proj.proj = revC a b c)

include hassoc hcomm hcong hrev in
theorem unroll_hom : ∀ (n : Nat) (tl tr : Pat) (ps : List Int) (l u : Int),
    (ac_move_to_front_unroll algGS assocG commG congG op extract revG n tl tr ps l u).map Proj.proj =
      ac_move_to_front_unroll algCS assocC commC congC op extract revC n tl tr ps l u := by
  intro n
  induction n with
  | zero => intro tl tr ps l u; rfl
  | succ n ih =>
    intro tl tr ps l u
    simp only [ac_move_to_front_unroll, Option.pure_def, Option.bind_eq_bind]
    repeat' first
      | hstep
      | (apply hb (ih _ _ _ _ _); intro t)
      | (apply hb (hassoc _ _ _); intro t)
      | (apply hb (hcomm _ _); intro t)
      | (apply hb (hcong _ _); intro t)
      | (apply hb (hrev _ _ _); intro t)
      | exact hcong _ _
      | exact hcomm _ _
      | exact ih _ _ _ _ _

include hassoc hcomm hcong in
theorem ac_move_to_front_hom (n : Nat) (ps : List Int) (terms : List Pat) :
    (ac_move_to_front algGS n ps terms assocG commG congG op extract).map Proj.proj =
      ac_move_to_front algCS n ps terms assocC commC congC op extract := by
  have hrev : ∀ a b c, ((fun (a : Pat) (b : Pat) (c : Pat) => do
        let t1_ ← assocG a b c; let t2_ ← lib algGS ix_equiv_sym [] [t1_]; pure t2_) a b c).map Proj.proj =
      (fun (a : Pat) (b : Pat) (c : Pat) => do
        let t1_ ← assocC a b c; let t2_ ← lib algCS ix_equiv_sym [] [t1_]; pure t2_) a b c := by
    intro a b c
    simp only [Option.pure_def, Option.bind_eq_bind]
    repeat' first
      | hstep
      | (apply hb (hassoc _ _ _); intro t)
  simp only [ac_move_to_front, foldr_op_indep algGS algCS, ac_for1_indep algGS algCS, Option.pure_def, Option.bind_eq_bind]
  repeat' first
    | hstep
    | exact unroll_hom assocG assocC commG commC congG congC op extract _ _ hassoc hcomm hcong hrev _ _ _ _ _ _

end UnrollHom

theorem or_move_to_front_hom (n : Nat) (ps : List Int) (terms : List Pat) :
    (or_move_to_front algGS n ps terms).map Proj.proj = or_move_to_front algCS n ps terms := by
  simp only [or_move_to_front, Option.pure_def, Option.bind_eq_bind]
  first
    | exact ac_move_to_front_hom _ _ _ _ _ _ _ _ (fun _ _ _ => lib_hom _ _ _) (fun _ _ => lib_hom _ _ _)
        (fun _ _ => lib_hom _ _ _) _ _ _
    | (apply hb (ac_move_to_front_hom _ _ _ _ _ _ _ _ (fun _ _ _ => lib_hom _ _ _) (fun _ _ => lib_hom _ _ _)
        (fun _ _ => lib_hom _ _ _) _ _ _); intro t; hstep)

theorem reduce_for1_hom (p : Pat) : ∀ (it : List Int) (pf : GTh) (q : Pat),
    (reduce_n_or_duplicates_at_front_for1 algGS p it pf q).map Proj.proj =
      reduce_n_or_duplicates_at_front_for1 algCS p it pf.conc q := by
  intro it
  induction it with
  | nil => intro pf q; rfl
  | cons x it ih =>
    intro pf q
    simp only [reduce_n_or_duplicates_at_front_for1, Option.pure_def, Option.bind_eq_bind]
    repeat' first
      | hstep
      | exact ih _ _

theorem reduce_n_hom (n : Nat) (k : Int) (terms : List Pat) :
    (reduce_n_or_duplicates_at_front algGS n k terms).map Proj.proj = reduce_n_or_duplicates_at_front algCS n k terms := by
  simp only [reduce_n_or_duplicates_at_front, foldr_op_indep algGS algCS, Option.pure_def, Option.bind_eq_bind]
  repeat' first
    | hstep
    | (apply hb (reduce_for1_hom _ _ _ _); intro t)
    | (apply hb <;> first | (intro a; try simp only [Proj.proj, id]) | skip)

theorem simplify_clause_hom (n : Nat) (cl : List Int) (x : Int) :
    (Gen.Clause.simplify_clause algGS n cl x).map Proj.proj = Gen.Clause.simplify_clause algCS n cl x := by
  simp only [Gen.Clause.simplify_clause, simplify_for1_indep algGS algCS, clause_to_pattern_indep algGS algCS,
    id_to_metavar_indep algGS algCS, Option.pure_def, Option.bind_eq_bind]
  repeat' first
    | hstep
    | (apply hb (or_move_to_front_hom _ _ _); intro t)
    | (apply hb (reduce_n_hom _ _ _); intro t)

theorem prove_trivial_clause_hom (n : Nat) (cl : List Int) :
    (prove_trivial_clause algGS n cl).map Proj.proj = prove_trivial_clause algCS n cl := by
  simp only [prove_trivial_clause, ptc_for1_indep algGS algCS, clause_to_pattern_indep algGS algCS,
    id_to_metavar_indep algGS algCS, Option.pure_def, Option.bind_eq_bind]
  repeat' first
    | hstep
    | (apply hb (or_move_to_front_hom _ _ _); intro t)
    | (apply hb <;> first | (intro a; try simp only [Proj.proj, id]) | skip)

theorem build_proof_from_hint_hom : ∀ (n : Nat) (hint : StageThm.Hint) (cl : FrozenSet) (terms : List (List Int)),
    (Gen.Clause.build_proof_from_hint algGS n hint cl terms).map Proj.proj =
      Gen.Clause.build_proof_from_hint algCS n hint cl terms := by
  intro n
  induction n with
  | zero => intro hint cl terms; rfl
  | succ n ih =>
    intro hint cl terms
    simp only [Gen.Clause.build_proof_from_hint, clause_to_pattern_indep algGS algCS, id_to_metavar_indep algGS algCS,
      clause_conjunctionto_pattern_indep algGS algCS, Option.pure_def, Option.bind_eq_bind]
    apply hb_same; intro res
    cases res with
    | inl src =>
      simp only []
      repeat' first
        | hstep
        | (apply hb (ih _ _ _); intro t; try simp only [Proj.proj, id])
        | (apply hb (simplify_clause_hom _ _ _); intro t; try simp only [Proj.proj, id])
        | (apply hb (merge_clauses_hom _ _ _ _); intro t)
        | (apply hb <;> first | (intro a; try simp only [Proj.proj, id]) | skip)
    | inr idx =>
      simp only []
      repeat' first
        | hstep
        | (apply hb (conjunction_implies_nth_hom _ _ _ _); intro t)

/-! ## the two hypotheses of the final assembly, discharged -/

/-- **`PtcSpec` holds of the generated `prove_trivial_clause`**: at ANY fuel, on EVERY clause, whatever proof tree it returns
advertises `clause_to_pattern(cl)` -/
theorem ptc_spec : PtcSpec (Gen.Clause.prove_trivial_clause algGS) := by
  intro F cl th h
  have hh := prove_trivial_clause_hom F cl
  rw [h] at hh
  exact prove_trivial_clause_any F cl th.conc hh.symm

/-- **`BpfhSpec` holds of the generated `build_proof_from_hint`**: at ANY fuel, for EVERY hint, key and clause list, whatever
clause `r` and proof tree it returns, the tree advertises `clause_conjunctionto_pattern(terms) -> clause_to_pattern(r)` -/
theorem bpfh_spec : BpfhSpec (Gen.Clause.build_proof_from_hint algGS) := by
  intro F hint cl terms r th h
  have hh := build_proof_from_hint_hom F hint cl terms
  rw [h] at hh
  exact build_proof_from_hint_any F hint cl terms r th.conc hh.symm

/-- the same over proof trees: whatever `prove_trivial_clause` returns PROVES the clause -/
theorem prove_trivial_clause_proofs (F : Nat) (cl : List Int) (th : GTh)
    (h : Gen.Clause.prove_trivial_clause algGS F cl = some th) : Proves th (clausePat cl) :=
  proves_of_conc (ptc_spec F cl th h)

/-- …and on a trivial clause without the literal `0`, with sufficient fuel, it does return a proof -/
theorem prove_trivial_clause_total (cl : List Int) (fuel : Nat) (hz : Res.NoZero cl) (ht : Res.trivial cl = true)
    (hf : moveFuel cl.length ≤ fuel) :
    ∃ th, Gen.Clause.prove_trivial_clause algGS fuel cl = some th ∧ Proves th (clausePat cl) := by
  have hh := prove_trivial_clause_hom fuel cl
  rw [prove_trivial_clause_C cl fuel hz ht hf] at hh
  obtain ⟨th, hth, hc⟩ := of_hom hh
  exact ⟨th, hth, proves_of_conc hc⟩

/-- whatever `build_proof_from_hint` returns PROVES `clause_conjunctionto_pattern(terms) -> clause_to_pattern(r)` -/
theorem build_proof_from_hint_proofs (F : Nat) (hint : StageThm.Hint) (cl : FrozenSet) (terms : List (List Int))
    (r : List Int) (th : GTh) (h : Gen.Clause.build_proof_from_hint algGS F hint cl terms = some (r, th)) :
    Proves th (.imp (clausesPat terms) (clausePat r)) :=
  proves_of_conc (bpfh_spec F hint cl terms r th h)

end ClauseThm

#print axioms ClauseThm.conjunction_implies_nth_C
#print axioms ClauseThm.unroll_C
#print axioms ClauseThm.or_move_to_front_C
#print axioms ClauseThm.and_move_to_front_C
#print axioms ClauseThm.reduce_n_C
#print axioms ClauseThm.simplify_clause_C
#print axioms ClauseThm.merge_clauses_C
#print axioms ClauseThm.prove_trivial_clause_C
#print axioms ClauseThm.prove_trivial_clause_any
#print axioms ClauseThm.build_proof_from_hint_any
#print axioms ClauseThm.ptc_spec
#print axioms ClauseThm.bpfh_spec
