abbrev VId := Nat

inductive Pat where
  | evar (x : VId) | svar (X : VId) | sym (s : VId)
  | imp (l r : Pat) | app (l r : Pat)
  | ex (x : VId) (p : Pat) | mu (X : VId) (p : Pat)
  | mv (id : VId) (ef sf pos neg holes : List VId)
  | esub (p : Pat) (x : VId) (plug : Pat)
  | ssub (p : Pat) (X : VId) (plug : Pat)
deriving DecidableEq, Repr

namespace Pat
def eFresh (e : VId) : Pat → Bool
  | evar x => x != e
  | svar _ => true | sym _ => true
  | mv _ ef .. => ef.contains e
  | imp l r => l.eFresh e && r.eFresh e
  | app l r => l.eFresh e && r.eFresh e
  | ex x p => e == x || p.eFresh e
  | mu _ p => p.eFresh e
  | esub p x plug => if e == x then plug.eFresh e else p.eFresh e && plug.eFresh e
  | ssub p _ plug => p.eFresh e && plug.eFresh e

mutual
def positive (s : VId) : Pat → Bool
  | evar _ => true | svar _ => true | sym _ => true
  | mv _ _ _ pos _ _ => pos.contains s
  | imp l r => l.negative s && r.positive s
  | app l r => l.positive s && r.positive s
  | ex _ p => p.positive s
  | mu X p => s == X || p.positive s
  | esub p _ plug => p.positive s && true
  | ssub p X plug => p.positive s && (p.positive X && plug.positive s)
def negative (s : VId) : Pat → Bool
  | evar _ => true | svar X => X != s | sym _ => true
  | mv _ _ _ _ neg _ => neg.contains s
  | imp l r => l.positive s && r.negative s
  | app l r => l.negative s && r.negative s
  | ex _ p => p.negative s
  | mu X p => s == X || p.negative s
  | esub p _ plug => p.negative s
  | ssub p X plug => p.negative s && (p.positive X && plug.negative s)
end
end Pat

structure Model where
  M : Type
  sym : VId → M → Prop
  app : M → M → M → Prop

structure Val (M : Type) where
  e : VId → M → Prop
  s : VId → M → Prop

def Val.setE {M} (ρ : Val M) (x : VId) (A : M → Prop) : Val M := { ρ with e := fun y => if y = x then A else ρ.e y }
def Val.setS {M} (ρ : Val M) (x : VId) (A : M → Prop) : Val M := { ρ with s := fun y => if y = x then A else ρ.s y }

abbrev Sem (M : Type) := Val M → M → Prop
-- metavariable identity = full record
structure MVKey where
  id : VId
  ef : List VId
  sf : List VId
  pos : List VId
  neg : List VId
  holes : List VId
deriving DecidableEq

def eval (𝔐 : Model) (σ : MVKey → Sem 𝔐.M) : Pat → Val 𝔐.M → 𝔐.M → Prop
  | .evar x, ρ => ρ.e x
  | .svar X, ρ => ρ.s X
  | .sym s, _ => 𝔐.sym s
  | .imp l r, ρ => fun m => eval 𝔐 σ l ρ m → eval 𝔐 σ r ρ m
  | .app l r, ρ => fun m => ∃ a b, eval 𝔐 σ l ρ a ∧ eval 𝔐 σ r ρ b ∧ 𝔐.app a b m
  | .ex x p, ρ => fun m => ∃ a : 𝔐.M, eval 𝔐 σ p (ρ.setE x (fun b => b = a)) m
  | .mu X p, ρ => fun m => ∀ A : 𝔐.M → Prop, (∀ b, eval 𝔐 σ p (ρ.setS X A) b → A b) → A m
  | .mv id ef sf pos neg holes, ρ => σ ⟨id, ef, sf, pos, neg, holes⟩ ρ
  | .esub p x plug, ρ => eval 𝔐 σ p (ρ.setE x (eval 𝔐 σ plug ρ))
  | .ssub p X plug, ρ => eval 𝔐 σ p (ρ.setS X (eval 𝔐 σ plug ρ))

theorem bot_empty (𝔐 : Model) σ ρ m : ¬ eval 𝔐 σ (.mu 0 (.svar 0)) ρ m := by
  intro h
  have := h (fun _ => False) (by intro b hb; simpa [eval, Val.setS] using hb)
  exact this

#print axioms bot_empty
