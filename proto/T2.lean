import T
set_option linter.unusedVariables false
open Pat

/-- two valuations agree except possibly at element variable `e` -/
def Val.agreeOffE {M} (e : VId) (ρ ρ' : Val M) : Prop :=
  (∀ y, y ≠ e → ρ.e y = ρ'.e y) ∧ ρ.s = ρ'.s

structure Admissible {M : Type} (σ : MVKey → Sem M) : Prop where
  ef : ∀ k e, e ∈ k.ef → ∀ ρ ρ', Val.agreeOffE e ρ ρ' → σ k ρ = σ k ρ'

theorem agree_setE_same {M} {e : VId} {ρ ρ' : Val M} (h : Val.agreeOffE e ρ ρ') (A : M → Prop) :
    ρ.setE e A = ρ'.setE e A := by
  obtain ⟨h1, h2⟩ := h
  cases ρ; cases ρ'
  simp only [Val.setE] at *
  congr 1
  · funext y; by_cases hy : y = e <;> simp [hy]; exact h1 y hy
  
theorem agree_setE_other {M} {e x : VId} {ρ ρ' : Val M} (h : Val.agreeOffE e ρ ρ') (A : M → Prop) :
    Val.agreeOffE e (ρ.setE x A) (ρ'.setE x A) := by
  obtain ⟨h1, h2⟩ := h
  refine ⟨?_, ?_⟩
  · intro y hy; simp only [Val.setE]; split <;> simp_all
  · simpa [Val.setE] using h2

theorem agree_setS {M} {e X : VId} {ρ ρ' : Val M} (h : Val.agreeOffE e ρ ρ') (A : M → Prop) :
    Val.agreeOffE e (ρ.setS X A) (ρ'.setS X A) := by
  obtain ⟨h1, h2⟩ := h
  refine ⟨?_, ?_⟩
  · intro y hy; simpa [Val.setS] using h1 y hy
  · simp [Val.setS, h2]

theorem eFresh_sound (𝔐 : Model) (σ : MVKey → Sem 𝔐.M) (hσ : Admissible σ) (e : VId) :
    ∀ (p : Pat), p.eFresh e = true → ∀ ρ ρ', Val.agreeOffE e ρ ρ' → eval 𝔐 σ p ρ = eval 𝔐 σ p ρ' := by
  intro p
  induction p with
  | evar x => intro h ρ ρ' hag; simp [eFresh] at h; simp [eval]; exact hag.1 x h
  | svar X => intro h ρ ρ' hag; simp [eval, hag.2]
  | sym s => intro h ρ ρ' hag; simp [eval]
  | imp l r ihl ihr =>
    intro h ρ ρ' hag; simp [eFresh] at h
    simp only [eval]; rw [ihl h.1 ρ ρ' hag, ihr h.2 ρ ρ' hag]
  | app l r ihl ihr =>
    intro h ρ ρ' hag; simp [eFresh] at h
    simp only [eval]; rw [ihl h.1 ρ ρ' hag, ihr h.2 ρ ρ' hag]
  | ex x p ih =>
    intro h ρ ρ' hag; simp [eFresh] at h
    simp only [eval]
    funext m; congr 1; funext a
    rcases h with h | h
    · subst h; rw [agree_setE_same hag]
    · rw [ih h _ _ (agree_setE_other hag _)]
  | mu X p ih =>
    intro h ρ ρ' hag; simp [eFresh] at h
    simp only [eval]
    funext m
    have : ∀ A, eval 𝔐 σ p (ρ.setS X A) = eval 𝔐 σ p (ρ'.setS X A) := fun A => ih h _ _ (agree_setS hag A)
    simp only [this]
  | mv id ef sf pos neg holes =>
    intro h ρ ρ' hag; simp [eFresh] at h
    simp only [eval]; exact hσ.ef ⟨id, ef, sf, pos, neg, holes⟩ e h ρ ρ' hag
  | esub p x plug ihp ihplug =>
    intro h ρ ρ' hag
    simp only [eFresh] at h
    simp only [eval]
    split at h
    · rename_i hex; simp at hex; subst hex
      rw [ihplug h ρ ρ' hag, agree_setE_same hag]
    · simp at h
      rw [ihplug h.2 ρ ρ' hag]
      exact ihp h.1 _ _ (agree_setE_other hag _)
  | ssub p X plug ihp ihplug =>
    intro h ρ ρ' hag
    simp [eFresh] at h
    simp only [eval]
    rw [ihplug h.2 ρ ρ' hag]
    exact ihp h.1 _ _ (agree_setS hag _)

#print axioms eFresh_sound
