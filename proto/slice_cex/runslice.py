import sys
sys.path.insert(0, '/verif')
from vlib import mm
from proof_generation.metamath import metamath_extract_slice as S
from proof_generation.metamath.ast import Encoder
from proof_generation.metamath.parser import parse_database
src = open(sys.argv[1]).read()
targets = sys.argv[2:]
try:
    mm.verify(src, strict=True); print('DB verifies (mm.py strict)')
except Exception as e:
    print('DB FAILS:', type(e).__name__, e)
db = parse_database(src)
deps = S.dependency_graph(db)
include = S.transitive_closure(deps, list(targets))
sd = S.syntax_dependencies(db)
for label, sl in S.slice_database(db, sd, include=include, exclude=set()):
    text = Encoder.encode_string(sl)
    print('---- slice', label); print(text)
    try:
        mm.verify(text, strict=True); print('>> slice verifies')
    except Exception as e:
        print('>> slice FAILS:', type(e).__name__, e)
