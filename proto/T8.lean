import T6
set_option linter.unusedVariables false
open Pat

/-! The check that the pinned `apply_ssubst` lacks is necessary: without it the Substitution
rule turns a valid pattern into an invalid one. (Witness for DESIGN.md §6, F1.) -/

namespace Pat
/-- `apply_ssubst` exactly as in the pinned rust/src/lib.rs:490-527: no element-capture check under `Exists` -/
def applySSubstPinned (X : VId) (plug : Pat) : Pat → Option Pat
  | svar Y => if Y = X then some plug else some (svar Y)
  | imp l r => do let l' ← applySSubstPinned X plug l; let r' ← applySSubstPinned X plug r; pure (imp l' r')
  | app l r => do let l' ← applySSubstPinned X plug l; let r' ← applySSubstPinned X plug r; pure (app l' r')
  | ex y p => do let p' ← applySSubstPinned X plug p; pure (ex y p')
  | mu Y p => if Y = X then some (mu Y p) else
      if plug.sFresh Y then do let p' ← applySSubstPinned X plug p; pure (mu Y p') else none
  | mv id ef sf pos neg holes => some (ssub (mv id ef sf pos neg holes) X plug)
  | esub p x q => some (ssub (esub p x q) X plug)
  | ssub p Y q => some (ssub (ssub p Y q) X plug)
  | evar x => some (evar x)
  | sym s => some (sym s)
end Pat

/-- (∃x0. X0) → X0 : derivable (Generalization of X0 → X0), valid -/
def premiseP : Pat := imp (ex 0 (svar 0)) (svar 0)
/-- (∃x0. x0) → x0 : what the pinned checker certifies after `Substitution 0` with plug `x0` -/
def conclP : Pat := imp (ex 0 (evar 0)) (evar 0)

theorem pinned_accepts : applySSubstPinned 0 (evar 0) premiseP = some conclP := by decide
theorem fixed_rejects : applySSubst 0 (evar 0) premiseP = none := by decide

theorem premise_valid : Valid premiseP := by
  intro 𝔐 σ hσ ρ hρ m
  simp only [premiseP, eval]
  rintro ⟨a, ha⟩
  simpa [Val.setE] using ha

def twoModel : Model := { M := Bool, sym := fun _ _ => False, app := fun _ _ _ => False }
def rho0 : Val Bool := { e := fun _ b => b = true, s := fun _ _ => False }

theorem concl_invalid : ¬ Valid conclP := by
  intro h
  have hadm : AllAdm (fun (_ : MVKey) (_ : Val Bool) (_ : Bool) => False) :=
    ⟨⟨fun _ _ _ _ _ _ => rfl⟩, ⟨fun _ _ _ _ _ _ => rfl⟩, ⟨fun _ _ _ _ _ _ _ h => h, fun _ _ _ _ _ _ _ h => h⟩⟩
  have := h twoModel (fun _ _ _ => False) hadm rho0 (fun x => ⟨true, rfl⟩) false
  simp only [conclP, eval, rho0] at this
  have h2 : false = true := this ⟨false, by simp only [Val.setE]; rfl⟩
  exact Bool.noConfusion h2

/-- the Substitution rule without the capture check is unsound -/
theorem pinned_substitution_unsound :
    ∃ X plug p r, applySSubstPinned X plug p = some r ∧ Valid p ∧ ¬ Valid r :=
  ⟨0, evar 0, premiseP, conclP, pinned_accepts, premise_valid, concl_invalid⟩

#print axioms pinned_substitution_unsound
