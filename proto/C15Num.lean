/-! Metamath compressed-proof numbers (Metamath book, Appendix B) — feasibility prototype for C15.

`encode` is written from the book; `decodePy` follows `convert_to_number` in
generation/src/proof_generation/metamath/converter/converter.py:307-318 step by step
(reverse the word, take the last letter as the base-20 digit, then add
`msdigit * 5^exp * 20` for the remaining letters, least significant first). -/

/-- high digits (values 1..5 for U..Y), least significant first; bijective base 5 -/
def hiDigits : Nat → List Nat
  | 0 => []
  | h + 1 => (h % 5 + 1) :: hiDigits (h / 5)
decreasing_by omega

/-- a word is (high digits, least significant first ; low digit 1..20) -/
structure Word where
  hi : List Nat
  lo : Nat
deriving DecidableEq, Repr

def Word.wf (w : Word) : Prop := (∀ d ∈ w.hi, 1 ≤ d ∧ d ≤ 5) ∧ 1 ≤ w.lo ∧ w.lo ≤ 20

/-- the book's encoding of n ≥ 1 -/
def encode (n : Nat) : Word := { hi := hiDigits ((n - 1) / 20), lo := (n - 1) % 20 + 1 }

/-- `convert_to_number`: n = lsdigit[first]; exp = 0; for letter in rest: n += msdigit*5^exp*20; exp += 1 -/
def decodeLoop : List Nat → Nat → Nat → Nat
  | [], _, n => n
  | d :: ds, exp, n => decodeLoop ds (exp + 1) (n + d * 5 ^ exp * 20)

def decodePy (w : Word) : Nat := decodeLoop w.hi 0 w.lo

def hiVal : List Nat → Nat
  | [] => 0
  | d :: ds => d + 5 * hiVal ds

theorem decodeLoop_eq (ds : List Nat) (exp n : Nat) :
    decodeLoop ds exp n = n + 20 * 5 ^ exp * hiVal ds := by
  induction ds generalizing exp n with
  | nil => simp [decodeLoop, hiVal]
  | cons d ds ih =>
    simp only [decodeLoop, hiVal, ih, Nat.pow_succ]
    rw [Nat.mul_add, Nat.add_assoc]
    congr 1
    have e1 : d * 5 ^ exp * 20 = 20 * 5 ^ exp * d := by ac_rfl
    have e2 : 20 * (5 ^ exp * 5) * hiVal ds = 20 * 5 ^ exp * (5 * hiVal ds) := by ac_rfl
    rw [e1, e2]

theorem hiVal_hiDigits (h : Nat) : hiVal (hiDigits h) = h := by
  induction h using Nat.strongRecOn with
  | ind h ih =>
    cases h with
    | zero => simp [hiDigits, hiVal]
    | succ k =>
      rw [hiDigits]; simp only [hiVal]
      rw [ih (k / 5) (by omega)]; omega

theorem hiDigits_hiVal (ds : List Nat) (hd : ∀ d ∈ ds, 1 ≤ d ∧ d ≤ 5) : hiDigits (hiVal ds) = ds := by
  induction ds with
  | nil => simp [hiVal, hiDigits]
  | cons d ds ih =>
    have h1 := hd d (by simp)
    have ih' := ih (fun x hx => hd x (by simp [hx]))
    simp only [hiVal]
    obtain ⟨k, hk⟩ : ∃ k, d + 5 * hiVal ds = k + 1 := ⟨d + 5 * hiVal ds - 1, by omega⟩
    rw [hk, hiDigits]
    have e1 : k % 5 + 1 = d := by omega
    have e2 : k / 5 = hiVal ds := by omega
    rw [e1, e2, ih']

/-- every number ≥ 1 decodes back to itself -/
theorem decode_encode (n : Nat) (hn : 1 ≤ n) : decodePy (encode n) = n := by
  simp only [decodePy, encode, decodeLoop_eq, hiVal_hiDigits]
  have := Nat.div_add_mod (n - 1) 20
  omega

theorem encode_wf (n : Nat) : (encode n).wf := by
  refine ⟨?_, by simp [encode], by simp [encode]; omega⟩
  intro d hd
  simp only [encode] at hd
  generalize (n - 1) / 20 = h at hd
  induction h using Nat.strongRecOn generalizing d with
  | ind h ih =>
    cases h with
    | zero => simp [hiDigits] at hd
    | succ k =>
      rw [hiDigits] at hd
      simp only [List.mem_cons] at hd
      rcases hd with rfl | hd
      · omega
      · exact ih (k / 5) (by omega) d hd

/-- every well-formed word is the encoding of what it decodes to: each number has exactly one encoding -/
theorem encode_decode (w : Word) (hw : w.wf) : encode (decodePy w) = w := by
  obtain ⟨hhi, hlo1, hlo2⟩ := hw
  cases w with
  | mk hi lo =>
    simp only [decodePy, decodeLoop_eq, encode] at *
    have e1 : (lo + 20 * 5 ^ 0 * hiVal hi - 1) / 20 = hiVal hi := by simp; omega
    have e2 : (lo + 20 * 5 ^ 0 * hiVal hi - 1) % 20 + 1 = lo := by simp; omega
    rw [e1, e2, hiDigits_hiVal hi hhi]

theorem decode_pos (w : Word) (hw : w.wf) : 1 ≤ decodePy w := by
  simp only [decodePy, decodeLoop_eq]; have := hw.2.1; omega

example : decodePy (encode 120) = 120 ∧ encode 121 = ⟨[1, 1], 1⟩ ∧ encode 620 = ⟨[5, 5], 20⟩ ∧ encode 621 = ⟨[1,1,1],1⟩ := by
  simp [decodePy, encode, hiDigits, decodeLoop]

#print axioms decode_encode
#print axioms encode_decode
