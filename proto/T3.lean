import T2
set_option linter.unusedVariables false
open Pat

namespace Pat
def sFresh (s : VId) : Pat → Bool
  | evar _ => true
  | svar X => X != s | sym _ => true
  | mv _ _ sf .. => sf.contains s
  | imp l r => l.sFresh s && r.sFresh s
  | app l r => l.sFresh s && r.sFresh s
  | ex _ p => p.sFresh s
  | mu X p => s == X || p.sFresh s
  | esub p _ plug => p.sFresh s && plug.sFresh s
  | ssub p X plug => if s == X then plug.sFresh s else p.sFresh s && plug.sFresh s

/-- model of `apply_ssubst` WITH both capture checks (the Exists check is the one missing in the pinned Rust) -/
def applySSubst (X : VId) (plug : Pat) : Pat → Option Pat
  | svar Y => if Y = X then some plug else some (svar Y)
  | imp l r => do let l' ← applySSubst X plug l; let r' ← applySSubst X plug r; pure (imp l' r')
  | app l r => do let l' ← applySSubst X plug l; let r' ← applySSubst X plug r; pure (app l' r')
  | ex y p => if plug.eFresh y then do let p' ← applySSubst X plug p; pure (ex y p') else none
  | mu Y p => if Y = X then some (mu Y p) else
      if plug.sFresh Y then do let p' ← applySSubst X plug p; pure (mu Y p') else none
  | mv id ef sf pos neg holes => some (ssub (mv id ef sf pos neg holes) X plug)
  | esub p x q => some (ssub (esub p x q) X plug)
  | ssub p Y q => some (ssub (ssub p Y q) X plug)
  | evar x => some (evar x)
  | sym s => some (sym s)
end Pat

def Val.agreeOffS {M} (s : VId) (ρ ρ' : Val M) : Prop :=
  (∀ y, y ≠ s → ρ.s y = ρ'.s y) ∧ ρ.e = ρ'.e

structure AdmissibleS {M : Type} (σ : MVKey → Sem M) : Prop where
  sf : ∀ k s, s ∈ k.sf → ∀ ρ ρ', Val.agreeOffS s ρ ρ' → σ k ρ = σ k ρ'

theorem agreeS_setS_same {M} {s : VId} {ρ ρ' : Val M} (h : Val.agreeOffS s ρ ρ') (A : M → Prop) :
    ρ.setS s A = ρ'.setS s A := by
  obtain ⟨h1, h2⟩ := h
  cases ρ; cases ρ'
  simp only [Val.setS] at *
  congr 1
  · funext y; by_cases hy : y = s <;> simp [hy]; exact h1 y hy

theorem agreeS_setS_other {M} {s x : VId} {ρ ρ' : Val M} (h : Val.agreeOffS s ρ ρ') (A : M → Prop) :
    Val.agreeOffS s (ρ.setS x A) (ρ'.setS x A) := by
  obtain ⟨h1, h2⟩ := h
  refine ⟨?_, ?_⟩
  · intro y hy; simp only [Val.setS]; split <;> simp_all
  · simpa [Val.setS] using h2

theorem agreeS_setE {M} {s X : VId} {ρ ρ' : Val M} (h : Val.agreeOffS s ρ ρ') (A : M → Prop) :
    Val.agreeOffS s (ρ.setE X A) (ρ'.setE X A) := by
  obtain ⟨h1, h2⟩ := h
  refine ⟨?_, ?_⟩
  · intro y hy; simpa [Val.setE] using h1 y hy
  · simp [Val.setE, h2]

theorem sFresh_sound (𝔐 : Model) (σ : MVKey → Sem 𝔐.M) (hσ : AdmissibleS σ) (s : VId) :
    ∀ (p : Pat), p.sFresh s = true → ∀ ρ ρ', Val.agreeOffS s ρ ρ' → eval 𝔐 σ p ρ = eval 𝔐 σ p ρ' := by
  intro p
  induction p with
  | evar x => intro h ρ ρ' hag; simp [eval, hag.2]
  | svar X => intro h ρ ρ' hag; simp [sFresh] at h; simp [eval]; exact hag.1 X h
  | sym s => intro h ρ ρ' hag; simp [eval]
  | imp l r ihl ihr =>
    intro h ρ ρ' hag; simp [sFresh] at h
    simp only [eval]; rw [ihl h.1 ρ ρ' hag, ihr h.2 ρ ρ' hag]
  | app l r ihl ihr =>
    intro h ρ ρ' hag; simp [sFresh] at h
    simp only [eval]; rw [ihl h.1 ρ ρ' hag, ihr h.2 ρ ρ' hag]
  | ex x p ih =>
    intro h ρ ρ' hag; simp [sFresh] at h
    simp only [eval]
    funext m; congr 1; funext a
    rw [ih h _ _ (agreeS_setE hag _)]
  | mu X p ih =>
    intro h ρ ρ' hag; simp [sFresh] at h
    simp only [eval]
    funext m
    have : ∀ A, eval 𝔐 σ p (ρ.setS X A) = eval 𝔐 σ p (ρ'.setS X A) := by
      intro A
      rcases h with h | h
      · subst h; rw [agreeS_setS_same hag]
      · exact ih h _ _ (agreeS_setS_other hag A)
    simp only [this]
  | mv id ef sf pos neg holes =>
    intro h ρ ρ' hag; simp [sFresh] at h
    simp only [eval]; exact hσ.sf ⟨id, ef, sf, pos, neg, holes⟩ s h ρ ρ' hag
  | esub p x plug ihp ihplug =>
    intro h ρ ρ' hag
    simp [sFresh] at h
    simp only [eval]
    rw [ihplug h.2 ρ ρ' hag]
    exact ihp h.1 _ _ (agreeS_setE hag _)
  | ssub p X plug ihp ihplug =>
    intro h ρ ρ' hag
    simp only [sFresh] at h
    simp only [eval]
    split at h
    · rename_i hex; simp at hex; subst hex
      rw [ihplug h ρ ρ' hag, agreeS_setS_same hag]
    · simp at h
      rw [ihplug h.2 ρ ρ' hag]
      exact ihp h.1 _ _ (agreeS_setS_other hag _)

theorem setS_setS_same {M} (ρ : Val M) (X : VId) (A B : M → Prop) : (ρ.setS X A).setS X B = ρ.setS X B := by
  cases ρ; simp only [Val.setS]; congr 1; funext y; by_cases h : y = X <;> simp [h]

theorem setS_comm {M} (ρ : Val M) (X Y : VId) (h : Y ≠ X) (A B : M → Prop) :
    (ρ.setS Y A).setS X B = (ρ.setS X B).setS Y A := by
  cases ρ; simp only [Val.setS]; congr 1; funext z
  by_cases h1 : z = X <;> by_cases h2 : z = Y <;> simp [h1, h2]
  · subst h1; subst h2; exact absurd rfl h
  · intro hxy; exact absurd hxy.symm h
  · intro hxy; exact absurd hxy h

theorem setS_setE_comm {M} (ρ : Val M) (X y : VId) (A B : M → Prop) :
    (ρ.setE y A).setS X B = (ρ.setS X B).setE y A := by
  cases ρ; simp [Val.setS, Val.setE]

theorem agreeOffE_setE {M} (ρ : Val M) (y : VId) (A : M → Prop) : Val.agreeOffE y (ρ.setE y A) ρ := by
  refine ⟨?_, ?_⟩
  · intro z hz; simp [Val.setE, hz]
  · simp [Val.setE]

theorem agreeOffS_setS {M} (ρ : Val M) (y : VId) (A : M → Prop) : Val.agreeOffS y (ρ.setS y A) ρ := by
  refine ⟨?_, ?_⟩
  · intro z hz; simp [Val.setS, hz]
  · simp [Val.setS]

/-- The semantic substitution lemma for the checker's `apply_ssubst` (with both capture checks). -/
theorem applySSubst_sem (𝔐 : Model) (σ : MVKey → Sem 𝔐.M) (hE : Admissible σ) (hS : AdmissibleS σ)
    (X : VId) (plug : Pat) :
    ∀ (p r : Pat), applySSubst X plug p = some r →
      ∀ ρ, eval 𝔐 σ r ρ = eval 𝔐 σ p (ρ.setS X (eval 𝔐 σ plug ρ)) := by
  intro p
  induction p with
  | evar x => intro r h ρ; simp [applySSubst] at h; subst h; simp [eval, Val.setS]
  | svar Y =>
    intro r h ρ; simp only [applySSubst] at h
    split at h
    · rename_i hy; subst hy; simp at h; subst h; simp [eval, Val.setS]
    · rename_i hy; simp at h; subst h; simp [eval, Val.setS, hy]
  | sym s => intro r h ρ; simp [applySSubst] at h; subst h; simp [eval]
  | imp l r ihl ihr =>
    intro q h ρ
    simp only [applySSubst] at h
    cases hl : applySSubst X plug l with
    | none => simp [hl] at h
    | some l' =>
      cases hr : applySSubst X plug r with
      | none => simp [hl, hr] at h
      | some r' =>
        simp [hl, hr] at h; subst h
        simp only [eval]; rw [ihl l' hl ρ, ihr r' hr ρ]
  | app l r ihl ihr =>
    intro q h ρ
    simp only [applySSubst] at h
    cases hl : applySSubst X plug l with
    | none => simp [hl] at h
    | some l' =>
      cases hr : applySSubst X plug r with
      | none => simp [hl, hr] at h
      | some r' =>
        simp [hl, hr] at h; subst h
        simp only [eval]; rw [ihl l' hl ρ, ihr r' hr ρ]
  | ex y p ih =>
    intro q h ρ
    simp only [applySSubst] at h
    split at h <;> try contradiction
    rename_i hfr
    cases hp : applySSubst X plug p with
    | none => simp [hp] at h
    | some p' =>
    simp [hp] at h; subst h
    simp only [eval]
    funext m; congr 1; funext a
    rw [ih p' hp]
    rw [setS_setE_comm]
    rw [eFresh_sound 𝔐 σ hE y plug hfr _ _ (agreeOffE_setE ρ y _)]
  | mu Y p ih =>
    intro q h ρ
    simp only [applySSubst] at h
    split at h
    · rename_i hy; subst hy; simp at h; subst h
      simp only [eval]; funext m
      simp only [setS_setS_same]
    · rename_i hy
      split at h <;> try contradiction
      rename_i hfr
      cases hp : applySSubst X plug p with
      | none => simp [hp] at h
      | some p' =>
      simp [hp] at h; subst h
      simp only [eval]; funext m
      have : ∀ A, eval 𝔐 σ p' (ρ.setS Y A) = eval 𝔐 σ p ((ρ.setS X (eval 𝔐 σ plug ρ)).setS Y A) := by
        intro A
        rw [ih p' hp, setS_comm _ _ _ hy]
        rw [sFresh_sound 𝔐 σ hS Y plug hfr _ _ (agreeOffS_setS ρ Y _)]
      simp only [this]
  | mv id ef sf pos neg holes => intro r h ρ; simp [applySSubst] at h; subst h; simp [eval]
  | esub p x q _ _ => intro r h ρ; simp [applySSubst] at h; subst h; simp [eval]
  | ssub p Y q _ _ => intro r h ρ; simp [applySSubst] at h; subst h; simp [eval]

#print axioms applySSubst_sem
