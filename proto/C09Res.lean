/-! Completeness of single-clash binary resolution with tautology deletion — feasibility
prototype for C09 (C): a set of non-tautological clauses that is closed under resolution of
pairs with exactly one clash and does not contain the empty clause is satisfiable.
Core Lean only: clauses and clause sets are predicates, finiteness enters only through a list
of atoms covering the set, and the induction is on that list. -/

structure Lit where
  atom : Nat
  pos : Bool
deriving DecidableEq

def Lit.neg (l : Lit) : Lit := ⟨l.atom, !l.pos⟩

@[simp] theorem Lit.neg_neg (l : Lit) : l.neg.neg = l := by cases l; simp [Lit.neg]
@[simp] theorem Lit.neg_atom (l : Lit) : l.neg.atom = l.atom := rfl
theorem Lit.neg_ne (l : Lit) : l.neg ≠ l := by cases l; simp [Lit.neg]

abbrev Clause := Lit → Prop
abbrev ClauseSet := Clause → Prop

def emptyC : Clause := fun _ => False
/-- `resolvable` finds exactly one clash: q ∈ C₂, ¬q ∈ C₁, and no other such literal -/
def Clash (C₁ C₂ : Clause) (q : Lit) : Prop := C₂ q ∧ C₁ q.neg ∧ ∀ l, C₂ l → C₁ l.neg → l = q
def Res (C₁ C₂ : Clause) (q : Lit) : Clause := fun l => (C₁ l ∧ l ≠ q.neg) ∨ (C₂ l ∧ l ≠ q)
def Closed (S : ClauseSet) : Prop := ∀ C₁ C₂ q, S C₁ → S C₂ → Clash C₁ C₂ q → S (Res C₁ C₂ q)
def NonTaut (C : Clause) : Prop := ∀ l, C l → ¬ C l.neg
def Sat (v : Nat → Bool) (C : Clause) : Prop := ∃ l, C l ∧ v l.atom = l.pos

/-- remove one literal -/
def del (C : Clause) (k : Lit) : Clause := fun l => C l ∧ l ≠ k

/-- clauses of S not containing `k.neg`, with `k` removed (the branch "k is false") -/
def branch (S : ClauseSet) (k : Lit) : ClauseSet := fun D => ∃ C, S C ∧ ¬ C k.neg ∧ D = del C k

theorem clause_ext {C D : Clause} (h : ∀ l, C l ↔ D l) : C = D := funext fun l => propext (h l)

theorem branch_closed (S : ClauseSet) (k : Lit) (hS : Closed S) : Closed (branch S k) := by
  intro D₁ D₂ q ⟨C₁, hC₁, hn₁, e₁⟩ ⟨C₂, hC₂, hn₂, e₂⟩ hcl
  subst e₁; subst e₂
  obtain ⟨hq2, hq1, huniq⟩ := hcl
  -- q ≠ k, q.neg ≠ k
  have hqk : q ≠ k := hq2.2
  have hqnk : q.neg ≠ k := hq1.2
  have hclash : Clash C₁ C₂ q := by
    refine ⟨hq2.1, hq1.1, ?_⟩
    intro l hl2 hl1
    by_cases h1 : l = k
    · subst h1; exact absurd hl1 hn₁
    · by_cases h2 : l.neg = k
      · -- then l = k.neg ∈ C₂, contradiction with hn₂
        have : l = k.neg := by rw [← h2]; simp
        subst this; exact absurd hl2 hn₂
      · exact huniq l ⟨hl2, h1⟩ ⟨hl1, h2⟩
  refine ⟨Res C₁ C₂ q, hS C₁ C₂ q hC₁ hC₂ hclash, ?_, ?_⟩
  · intro h
    rcases h with ⟨h, _⟩ | ⟨h, _⟩
    · exact hn₁ h
    · exact hn₂ h
  · apply clause_ext; intro l
    simp only [Res, del]
    constructor
    · rintro (⟨⟨h1, h2⟩, h3⟩ | ⟨⟨h1, h2⟩, h3⟩)
      · exact ⟨Or.inl ⟨h1, h3⟩, h2⟩
      · exact ⟨Or.inr ⟨h1, h3⟩, h2⟩
    · rintro ⟨(⟨h1, h3⟩ | ⟨h1, h3⟩), h2⟩
      · exact Or.inl ⟨⟨h1, h2⟩, h3⟩
      · exact Or.inr ⟨⟨h1, h2⟩, h3⟩

theorem complete : ∀ (As : List Nat) (S : ClauseSet),
    (∀ C, S C → ∀ l, C l → l.atom ∈ As) → (∀ C, S C → NonTaut C) → Closed S → ¬ S emptyC →
    ∃ v : Nat → Bool, ∀ C, S C → Sat v C := by
  intro As
  induction As with
  | nil =>
    intro S hat _ _ hne
    refine ⟨fun _ => true, ?_⟩
    intro C hC
    have : C = emptyC := clause_ext fun l => ⟨fun h => by simpa using hat C hC l h, fun h => h.elim⟩
    exact absurd (this ▸ hC) hne
  | cons p As ih =>
    intro S hat hnt hcl hne
    let kp : Lit := ⟨p, true⟩
    let kn : Lit := ⟨p, false⟩
    have hkpn : kp.neg = kn := rfl
    have hknn : kn.neg = kp := rfl
    -- generic facts about a branch on literal k with atom p
    have atoms : ∀ k : Lit, k.atom = p → ∀ D, branch S k D → ∀ l, D l → l.atom ∈ As := by
      intro k hk D ⟨C, hC, hn, e⟩ l hl
      subst e
      have hmem := hat C hC l hl.1
      simp only [List.mem_cons] at hmem
      rcases hmem with h | h
      · exfalso
        -- l has atom p, so l = k or l = k.neg
        have : l = k ∨ l = k.neg := by
          cases l with | mk a b => cases k with | mk a' b' =>
          simp only [Lit.neg] at *
          subst h; subst hk
          cases b <;> cases b' <;> simp
        rcases this with h' | h'
        · exact hl.2 h'
        · subst h'; exact hn hl.1
      · exact h
    have nontaut : ∀ k : Lit, ∀ D, branch S k D → NonTaut D := by
      intro k D ⟨C, hC, hn, e⟩ l hl hl'
      subst e; exact hnt C hC l hl.1 hl'.1
    -- extend a model of a branch
    have extend : ∀ k : Lit, k.atom = p → ¬ branch S k emptyC → ∃ v : Nat → Bool, ∀ C, S C → Sat v C := by
      intro k hk hne'
      obtain ⟨v, hv⟩ := ih (branch S k) (atoms k hk) (nontaut k) (branch_closed S k hcl) hne'
      -- make k false, i.e. k.neg true
      refine ⟨fun a => if a = p then !k.pos else v a, ?_⟩
      intro C hC
      by_cases hn : C k.neg
      · exact ⟨k.neg, hn, by simp [hk, Lit.neg]⟩
      · obtain ⟨l, hl, hvl⟩ := hv (del C k) ⟨C, hC, hn, rfl⟩
        have hla : l.atom ∈ As := atoms k hk _ ⟨C, hC, hn, rfl⟩ l hl
        refine ⟨l, hl.1, ?_⟩
        by_cases hlp : l.atom = p
        · -- l has atom p but is in del C k and C has no k.neg: impossible
          exfalso
          have : l = k ∨ l = k.neg := by
            cases l with | mk a b => cases k with | mk a' b' =>
            simp only [Lit.neg] at *
            subst hlp; subst hk
            cases b <;> cases b' <;> simp
          rcases this with h' | h'
          · exact hl.2 h'
          · subst h'; exact hn hl.1
        · simp [hlp, hvl]
    by_cases h1 : branch S kp emptyC
    · by_cases h2 : branch S kn emptyC
      · -- both branches contain the empty clause: {p} and {¬p} are in S, resolve to empty
        exfalso
        obtain ⟨C₁, hC₁, hn₁, e₁⟩ := h1
        obtain ⟨C₂, hC₂, hn₂, e₂⟩ := h2
        have hC₁only : ∀ l, C₁ l → l = kp := by
          intro l hl; apply Classical.byContradiction; intro hne'
          have : del C₁ kp l := ⟨hl, hne'⟩
          rw [← e₁] at this; exact this
        have hC₂only : ∀ l, C₂ l → l = kn := by
          intro l hl; apply Classical.byContradiction; intro hne'
          have : del C₂ kn l := ⟨hl, hne'⟩
          rw [← e₂] at this; exact this
        have hC₁kp : C₁ kp := by
          apply Classical.byContradiction; intro hno
          have : C₁ = emptyC := clause_ext fun l => ⟨fun h => hno (hC₁only l h ▸ h), fun h => h.elim⟩
          exact hne (this ▸ hC₁)
        have hC₂kn : C₂ kn := by
          apply Classical.byContradiction; intro hno
          have : C₂ = emptyC := clause_ext fun l => ⟨fun h => hno (hC₂only l h ▸ h), fun h => h.elim⟩
          exact hne (this ▸ hC₂)
        -- clash: q = kn ∈ C₂, q.neg = kp ∈ C₁
        have hclash : Clash C₁ C₂ kn := ⟨hC₂kn, hC₁kp, fun l hl _ => hC₂only l hl⟩
        have hres := hcl C₁ C₂ kn hC₁ hC₂ hclash
        have : Res C₁ C₂ kn = emptyC := by
          apply clause_ext; intro l
          simp only [Res, emptyC]
          constructor
          · rintro (⟨h, hne'⟩ | ⟨h, hne'⟩)
            · exact hne' (hC₁only l h)
            · exact hne' (hC₂only l h)
          · exact fun h => h.elim
        exact hne (this ▸ hres)
      · exact extend kn rfl h2
    · exact extend kp rfl h1

#print axioms complete
