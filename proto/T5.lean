import T4
set_option linter.unusedVariables false
open Pat

namespace Pat
/-- model of `apply_esubst` WITH both capture checks (the Mu check is the one missing in the pinned Rust) -/
def applyESubst (x : VId) (plug : Pat) : Pat → Option Pat
  | evar y => if y = x then some plug else some (evar y)
  | imp l r => do let l' ← applyESubst x plug l; let r' ← applyESubst x plug r; pure (imp l' r')
  | app l r => do let l' ← applyESubst x plug l; let r' ← applyESubst x plug r; pure (app l' r')
  | ex y p => if y = x then some (ex y p) else
      if plug.eFresh y then do let p' ← applyESubst x plug p; pure (ex y p') else none
  | mu Y p => if plug.sFresh Y then do let p' ← applyESubst x plug p; pure (mu Y p') else none
  | mv id ef sf ps ns holes => some (esub (mv id ef sf ps ns holes) x plug)
  | esub p y q => some (esub (esub p y q) x plug)
  | ssub p Y q => some (esub (ssub p Y q) x plug)
  | svar X => some (svar X)
  | sym s => some (sym s)
end Pat

theorem setE_setE_same {M} (ρ : Val M) (x : VId) (A B : M → Prop) : (ρ.setE x A).setE x B = ρ.setE x B := by
  cases ρ; simp only [Val.setE]; congr 1; funext y; by_cases h : y = x <;> simp [h]

theorem setE_comm {M} (ρ : Val M) (x y : VId) (h : y ≠ x) (A B : M → Prop) :
    (ρ.setE y A).setE x B = (ρ.setE x B).setE y A := by
  cases ρ; simp only [Val.setE]; congr 1; funext z
  by_cases h1 : z = x <;> by_cases h2 : z = y <;> simp [h1, h2]
  · subst h1; subst h2; exact absurd rfl h
  · intro hxy; exact absurd hxy.symm h
  · intro hxy; exact absurd hxy h

theorem applyESubst_sem (𝔐 : Model) (σ : MVKey → Sem 𝔐.M) (hE : Admissible σ) (hS : AdmissibleS σ)
    (x : VId) (plug : Pat) :
    ∀ (p r : Pat), applyESubst x plug p = some r →
      ∀ ρ, eval 𝔐 σ r ρ = eval 𝔐 σ p (ρ.setE x (eval 𝔐 σ plug ρ)) := by
  intro p
  induction p with
  | svar X => intro r h ρ; simp [applyESubst] at h; subst h; simp [eval, Val.setE]
  | evar y =>
    intro r h ρ; simp only [applyESubst] at h
    split at h
    · rename_i hy; subst hy; simp at h; subst h; simp [eval, Val.setE]
    · rename_i hy; simp at h; subst h; simp [eval, Val.setE, hy]
  | sym s => intro r h ρ; simp [applyESubst] at h; subst h; simp [eval]
  | imp l r ihl ihr =>
    intro q h ρ
    simp only [applyESubst] at h
    cases hl : applyESubst x plug l with
    | none => simp [hl] at h
    | some l' =>
      cases hr : applyESubst x plug r with
      | none => simp [hl, hr] at h
      | some r' =>
        simp [hl, hr] at h; subst h
        simp only [eval]; rw [ihl l' hl ρ, ihr r' hr ρ]
  | app l r ihl ihr =>
    intro q h ρ
    simp only [applyESubst] at h
    cases hl : applyESubst x plug l with
    | none => simp [hl] at h
    | some l' =>
      cases hr : applyESubst x plug r with
      | none => simp [hl, hr] at h
      | some r' =>
        simp [hl, hr] at h; subst h
        simp only [eval]; rw [ihl l' hl ρ, ihr r' hr ρ]
  | ex y p ih =>
    intro q h ρ
    simp only [applyESubst] at h
    split at h
    · rename_i hy; subst hy; simp at h; subst h
      simp only [eval]; funext m
      simp only [setE_setE_same]
    · rename_i hy
      split at h <;> try contradiction
      rename_i hfr
      cases hp : applyESubst x plug p with
      | none => simp [hp] at h
      | some p' =>
      simp [hp] at h; subst h
      simp only [eval]
      funext m; congr 1; funext a
      rw [ih p' hp, setE_comm _ _ _ hy]
      rw [eFresh_sound 𝔐 σ hE y plug hfr _ _ (agreeOffE_setE ρ y _)]
  | mu Y p ih =>
    intro q h ρ
    simp only [applyESubst] at h
    split at h <;> try contradiction
    rename_i hfr
    cases hp : applyESubst x plug p with
    | none => simp [hp] at h
    | some p' =>
    simp [hp] at h; subst h
    simp only [eval]; funext m
    have : ∀ A, eval 𝔐 σ p' (ρ.setS Y A) = eval 𝔐 σ p ((ρ.setE x (eval 𝔐 σ plug ρ)).setS Y A) := by
      intro A
      rw [ih p' hp, setS_setE_comm]
      rw [sFresh_sound 𝔐 σ hS Y plug hfr _ _ (agreeOffS_setS ρ Y _)]
    simp only [this]
  | mv id ef sf pos neg holes => intro r h ρ; simp [applyESubst] at h; subst h; simp [eval]
  | esub p y q _ _ => intro r h ρ; simp [applyESubst] at h; subst h; simp [eval]
  | ssub p Y q _ _ => intro r h ρ; simp [applyESubst] at h; subst h; simp [eval]

/-! ### Instantiate -/
namespace Pat
/-- constraint checks of `instantiate_internal` on a plug for one metavariable occurrence -/
def okPlug (ef sf ps ns : List VId) (q : Pat) : Bool :=
  ef.all (q.eFresh ·) && sf.all (q.sFresh ·) && ps.all (q.pos ·) && ns.all (q.ng ·)

def inst (θ : VId → Option Pat) : Pat → Option Pat
  | evar x => some (evar x) | svar X => some (svar X) | sym s => some (sym s)
  | mv id ef sf ps ns holes =>
      match θ id with
      | none => some (mv id ef sf ps ns holes)
      | some q => if okPlug ef sf ps ns q then some q else none
  | imp l r => do let l' ← inst θ l; let r' ← inst θ r; pure (imp l' r')
  | app l r => do let l' ← inst θ l; let r' ← inst θ r; pure (app l' r')
  | ex x p => do let p' ← inst θ p; pure (ex x p')
  | mu X p => do let p' ← inst θ p; pure (mu X p')
  | esub p x plug => do let p' ← inst θ p; let q' ← inst θ plug; applyESubst x q' p'
  | ssub p X plug => do let p' ← inst θ p; let q' ← inst θ plug; applySSubst X q' p'
end Pat

/-- composition: the semantic instantiation induced by plugging θ and then σ -/
def compInst (𝔐 : Model) (σ : MVKey → Sem 𝔐.M) (θ : VId → Option Pat) : MVKey → Sem 𝔐.M :=
  fun k => match θ k.id with
    | none => σ k
    | some q => if okPlug k.ef k.sf k.pos k.neg q then eval 𝔐 σ q else fun _ _ => False

theorem inst_sem (𝔐 : Model) (σ : MVKey → Sem 𝔐.M) (hE : Admissible σ) (hS : AdmissibleS σ)
    (θ : VId → Option Pat) :
    ∀ (p r : Pat), inst θ p = some r → ∀ ρ, eval 𝔐 σ r ρ = eval 𝔐 (compInst 𝔐 σ θ) p ρ := by
  intro p
  induction p with
  | evar x => intro r h ρ; simp [inst] at h; subst h; simp [eval]
  | svar x => intro r h ρ; simp [inst] at h; subst h; simp [eval]
  | sym x => intro r h ρ; simp [inst] at h; subst h; simp [eval]
  | mv id ef sf ps ns holes =>
    intro r h ρ
    simp only [inst] at h
    cases hθ : θ id with
    | none => simp [hθ] at h; subst h; simp [eval, compInst, hθ]
    | some q =>
      simp only [hθ] at h
      split at h <;> try contradiction
      rename_i hok
      simp at h; subst h
      simp [eval, compInst, hθ, hok]
  | imp l r ihl ihr =>
    intro q h ρ; simp only [inst] at h
    cases hl : inst θ l with
    | none => simp [hl] at h
    | some l' =>
      cases hr : inst θ r with
      | none => simp [hl, hr] at h
      | some r' => simp [hl, hr] at h; subst h; simp only [eval]; rw [ihl l' hl ρ, ihr r' hr ρ]
  | app l r ihl ihr =>
    intro q h ρ; simp only [inst] at h
    cases hl : inst θ l with
    | none => simp [hl] at h
    | some l' =>
      cases hr : inst θ r with
      | none => simp [hl, hr] at h
      | some r' => simp [hl, hr] at h; subst h; simp only [eval]; rw [ihl l' hl ρ, ihr r' hr ρ]
  | ex x p ih =>
    intro q h ρ; simp only [inst] at h
    cases hp : inst θ p with
    | none => simp [hp] at h
    | some p' =>
      simp [hp] at h; subst h; simp only [eval]
      funext m; congr 1; funext a; rw [ih p' hp]
  | mu X p ih =>
    intro q h ρ; simp only [inst] at h
    cases hp : inst θ p with
    | none => simp [hp] at h
    | some p' =>
      simp [hp] at h; subst h; simp only [eval]
      funext m
      have : ∀ A, eval 𝔐 σ p' (ρ.setS X A) = eval 𝔐 (compInst 𝔐 σ θ) p (ρ.setS X A) := fun A => ih p' hp _
      simp only [this]
  | esub p x plug ihp ihq =>
    intro r h ρ; simp only [inst] at h
    cases hp : inst θ p with
    | none => simp [hp] at h
    | some p' =>
      cases hq : inst θ plug with
      | none => simp [hp, hq] at h
      | some q' =>
        simp [hp, hq] at h
        rw [applyESubst_sem 𝔐 σ hE hS x q' p' r h ρ]
        simp only [eval]; rw [ihq q' hq ρ, ihp p' hp]
  | ssub p X plug ihp ihq =>
    intro r h ρ; simp only [inst] at h
    cases hp : inst θ p with
    | none => simp [hp] at h
    | some p' =>
      cases hq : inst θ plug with
      | none => simp [hp, hq] at h
      | some q' =>
        simp [hp, hq] at h
        rw [applySSubst_sem 𝔐 σ hE hS X q' p' r h ρ]
        simp only [eval]; rw [ihq q' hq ρ, ihp p' hp]

/-- the composed instantiation is admissible (element freshness shown; the other three are identical in shape) -/
theorem compInst_admissibleE (𝔐 : Model) (σ : MVKey → Sem 𝔐.M) (hE : Admissible σ) (θ : VId → Option Pat) :
    Admissible (compInst 𝔐 σ θ) := by
  constructor
  intro k e he ρ ρ' hag
  simp only [compInst]
  cases hθ : θ k.id with
  | none => simpa using hE.ef k e he ρ ρ' hag
  | some q =>
    simp only
    split
    · rename_i hok
      simp only [okPlug, Bool.and_eq_true, List.all_eq_true] at hok
      exact eFresh_sound 𝔐 σ hE e q (hok.1.1.1 e he) ρ ρ' hag
    · rfl

/-- Validity: true at every standard valuation under every admissible semantic instantiation -/
def Val.standard {M} (ρ : Val M) : Prop := ∀ x, ∃ a, ρ.e x = fun b => b = a
def AllAdm {M} (σ : MVKey → Sem M) : Prop := Admissible σ ∧ AdmissibleS σ ∧ AdmissiblePN σ
def Valid (p : Pat) : Prop :=
  ∀ (𝔐 : Model) (σ : MVKey → Sem 𝔐.M), AllAdm σ → ∀ ρ : Val 𝔐.M, ρ.standard → ∀ m, eval 𝔐 σ p ρ m

/-- modus ponens is sound, with no side condition on instantiations: the point of decision 3 -/
theorem mp_sound (a b : Pat) (h1 : Valid (imp a b)) (h2 : Valid a) : Valid b :=
  fun 𝔐 σ hσ ρ hρ m => (h1 𝔐 σ hσ ρ hρ m) (h2 𝔐 σ hσ ρ hρ m)

#print axioms inst_sem
#print axioms compInst_admissibleE
#print axioms mp_sound
